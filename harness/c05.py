"""C05 - Values read back from results equal what was captured (dedup store
lossless).

T1: Props/C05.v (readback_exact over the store invariant of C15; block size
    hypothesis instantiated with the extracted PREALLOC_BLOCK_SIZE).
T2: real FileSearcher runs - one file (in-process, ResultStoreSimple) and
    several files (worker processes, ResultStoreParallel) - over generated
    logs with heavy duplication, > 1000 and > 2500 distinct values per file
    (index-block roll-over), captured values textually equal to tags and to
    sequence ids, unnamed / named / typed fields (ResultFieldInfo), optional
    groups, whole-line results, store_result_contents=False, and sequence
    searches.  (J) every read-back of every returned result - get(i),
    get(name), attribute, iteration, tag, sequence_id - is compared with the
    ORACLE capture computed with plain `re` (+ the declared cast) on the line
    the result names.  (M) for the simple-search cases of moderate size the
    exported (group, store index[, name]) parts, the metadata indices and the
    read-backs are also compared with Model/Result.v evaluated in Coq (plain
    store in-process; pre-allocating store + sync merge for workers, with the
    block starts observed in the run).
"""
import os
import re
import shutil
import signal
import tempfile

import vlib

PROPS = ['Props/C05.v']

WORDS = ['alpha', 'beta', 'gamma', 'delta', 'x', 'y', '7', '42', '007', '1',
         '1.0', '1.50', 'tagA', 'tagB', 'tagC', 'seqT-start', 'True', 'None',
         'a=b', 'END', 'é', '0']


def castable(t, w):
    try:
        t(w)
        return True
    except ValueError:
        return False


# ------------------------------------------------------------ definitions
# every definition kind owns a line prefix, so a line matches at most one
# definition of a scenario and a result is attributed to its definition by
# the LINE it names - never by result.tag (which is one of the things under
# test)
KINDS = {
    'two': (r'A (\S+) (\S+)', None),
    'opt': (r'B (\S+)(?: opt=(\S+))? end(?: (\S+))?', None),
    'whole': (r'W .*', None),
    'named': (r'C (\S+) (\S+)', [('first', None), ('second', None)]),
    'typed': (r'N (\d+) (\d+(?:\.\d+)?) (\S+)',
              [('num', int), ('ratio', float), ('word', str)]),
    'typedopt': (r'E (\S+)(?: opt=(\d+))? end',
                 [('key', None), ('n', int), ('spare', str)]),
    'nostore': (r'D (\S+) (\S+)', None),
    # values that are FALSY after conversion: int 0, float 0.0, '' from
    # (\w*) / (\S*), plus an optional typed group
    'falsy': (r'F (\d+) (\d+\.\d+) q(\w*) r(\S*)(?: o=(\d+))?',
              [('n', int), ('x', float), ('w', str), ('s', None),
               ('o', int)]),
    'empty': (r'G (\w*)\|(\S*)', None),
    # leading optional group: when it is unmatched on the first matching
    # line the TAG is the first thing the store allocates (index 0)
    'leadopt': (r'H(?: (\d+))? k=(\S+)', None),
}


def make_defs(rng, kinds):
    """ returns list of dicts {tag, pattern, fields, store, sdef, re} """
    from searchkit.search import ResultFieldInfo
    from searchkit import SearchDef
    specs = []
    for n, kind in enumerate(kinds):
        tag = rng.choice(['tagA', 'tagB', 'tagC', f"t{n}", 'alpha', '7'])
        if any(sp['tag'] == tag for sp in specs):
            tag = f"{tag}_{n}"
        pattern, fields = KINDS[kind]
        spec = {'tag': tag, 'fields': fields, 'store': kind != 'nostore',
                'kind': kind, 'pattern': pattern}
        fi = None
        if fields:
            if kind == 'named' and rng.random() < 0.5:
                fi = ResultFieldInfo([f for f, _ in fields])
            else:
                fi = ResultFieldInfo(dict(fields))
        spec['sdef'] = SearchDef(pattern, tag=tag, field_info=fi,
                                 store_result_contents=spec['store'])
        spec['re'] = re.compile(pattern)
        specs.append(spec)
    return specs


def gen_lines(rng, n, distinct, kinds, extra_words=()):
    """ n lines for the given definition kinds; `distinct` controls how many
    different tokens appear """
    words = WORDS + list(extra_words)

    def tok(i):
        if distinct and rng.random() < 0.8:
            return f"u{rng.randrange(distinct)}" if distinct < n else f"u{i}"
        return rng.choice(words)

    def line(kind, i):
        if kind in ('two', 'named', 'nostore'):
            return f"{ {'two': 'A', 'named': 'C', 'nostore': 'D'}[kind]} " \
                   f"{tok(i)} {tok(i + n)}"
        if kind in ('opt', 'typedopt'):
            pre = 'B' if kind == 'opt' else 'E'
            if rng.random() < 0.5:
                return f"{pre} {tok(i)} end"
            return (f"{pre} {tok(i)} opt="
                    f"{rng.choice(['5', '05', '0', '00', tok(i)])} end"
                    + rng.choice(['', ' tail']))
        if kind == 'typed':
            return (f"N {rng.choice([0, 0, 1, 1, 7, 42, i])} "
                    f"{rng.choice(['0', '0.0', '1', '1.0', '1.50', str(i)])} "
                    f"{tok(i)}")
        if kind == 'whole':
            return f"W {tok(i)} {rng.choice(words)}"
        if kind == 'falsy':
            return (f"F {rng.choice([0, 0, 0, 7, i])} "
                    f"{rng.choice(['0.0', '0.00', '1.5'])} "
                    f"q{rng.choice(['', '', 'w', 'alpha'])} "
                    f"r{rng.choice(['', '', tok(i)])}"
                    + rng.choice(['', ' o=0', ' o=00', ' o=3']))
        if kind == 'empty':
            return (f"G {rng.choice(['', '', 'a', 'alpha'])}|"
                    f"{rng.choice(['', '', tok(i)])}")
        if kind == 'leadopt':
            return (f"H{rng.choice(['', '', ' 0', ' 12'])} "
                    f"k={tok(i)}")
        raise ValueError(kind)
    out = []
    for i in range(n):
        if rng.random() < 0.12:
            out.append(rng.choice(['noise', '', 'A onlyone', 'H k=']))
        else:
            out.append(line(rng.choice(kinds), i))
    return out


def spec_for_line(specs, line):
    """ the definition (of a scenario) whose pattern matches the line """
    hit = [sp for sp in specs if sp['re'].match(line)]
    return hit[0] if len(hit) == 1 else None


def oracle_capture(spec, line):
    """ plain-re capture + declared casts: (groups after cast, names) or None
    """
    m = spec['re'].match(line)
    if not m:
        return None
    if not spec['store']:
        return {'by_idx': {}, 'iter': [], 'by_name': {}, 'raw': [], 'n': 0}
    groups = list(m.groups())
    if not groups:
        return {'by_idx': {0: m.group(0)}, 'iter': [m.group(0)],
                'by_name': {}, 'raw': [], 'whole': m.group(0), 'n': 0}
    vals = []
    by_name = {}
    fields = spec['fields'] or []
    for j, g in enumerate(groups):
        v = g
        if g is not None and j < len(fields) and fields[j][1] is not None:
            v = fields[j][1](g)
        vals.append(v)
    for j, (name, _) in enumerate(fields):
        by_name[name] = vals[j] if j < len(vals) else None
    return {'by_idx': {j + 1: v for j, v in enumerate(vals)}, 'iter': vals,
            'by_name': by_name, 'raw': groups, 'n': len(groups)}


class Raised:
    """ an accessor raised instead of returning """
    def __init__(self, exc):
        self.exc = exc

    def __repr__(self):
        return f"<raised {type(self.exc).__name__}: {self.exc}>"


def safe(f):
    try:
        return f()
    except Exception as exc:  # pylint: disable=broad-except
        return Raised(exc)


def same(a, b):
    """ equality as the property means it: Python ==, and None only equals
    None """
    if isinstance(a, Raised) or isinstance(b, Raised):
        return False
    if a is None or b is None:
        return a is None and b is None
    return a == b


def judge_result(spec, res, line, seq_id=None):
    """ every accessor of a returned result against the oracle capture """
    bad = []
    cap = oracle_capture(spec, line)
    if cap is None:
        return [f"result for a line the pattern does not match: {line!r}"], 0
    checks = 0
    for i, want in cap['by_idx'].items():
        got = safe(lambda i=i: res.get(i))
        checks += 1
        if not same(got, want):
            bad.append(f"get({i}) = {got!r}, captured {want!r}")
    got = safe(lambda: list(res))
    checks += 1
    if not isinstance(got, list) or len(got) != len(cap['iter']) or \
            not all(map(same, got, cap['iter'])):
        bad.append(f"iteration gives {got!r}, captured {cap['iter']!r}")
    for name, want in cap['by_name'].items():
        checks += 2
        got = safe(lambda name=name: res.get(name))
        if not same(got, want):
            bad.append(f"get({name!r}) = {got!r}, captured {want!r}")
        got = safe(lambda name=name: getattr(res, name))
        if not same(got, want):
            bad.append(f"attribute {name} = {got!r}, captured {want!r}")
    got = safe(lambda: getattr(res, 'no_such_field'))
    if not (isinstance(got, Raised) and isinstance(got.exc, AttributeError)):
        bad.append(f"unknown attribute gives {got!r}, not AttributeError")
    checks += 2
    got = safe(lambda: res.tag)
    if got != spec['tag']:
        bad.append(f"tag {got!r}, search has {spec['tag']!r}")
    got = safe(lambda: res.sequence_id)
    if got != seq_id:
        bad.append(f"sequence_id {got!r}, search has {seq_id!r}")
    return bad, checks


# ------------------------------------------------------------ scenarios
def scenario(chk, d, name, nfiles, kinds, nlines, distinct, seq=False,
             first_line=None, reuse=None, first_start=None,
             seq_body_stored=True):
    """ build files + searcher, run, return observations.  `reuse` = an
    earlier scenario whose definition OBJECTS are used again (a definition
    may serve any number of runs) """
    from searchkit import FileSearcher, SequenceSearchDef, SearchDef
    rng = chk.rng
    seqdef = None
    seq_specs = {}
    if reuse is not None:
        specs, seqdef, seq_specs = (reuse['specs'], reuse['seqdef'],
                                    reuse['seq_specs'])
    else:
        specs = make_defs(rng, kinds)
    if seq and seqdef is None:
        seqdef = SequenceSearchDef(start=SearchDef(r'START (\S+)'),
                                   body=SearchDef(
                                       r'BODY (\S+) (\S+)',
                                       store_result_contents=seq_body_stored),
                                   end=SearchDef(r'STOP (\S+)'), tag='seqT')
        for part, pat in (('start', r'START (\S+)'),
                          ('body', r'BODY (\S+) (\S+)'),
                          ('end', r'STOP (\S+)')):
            seq_specs[f"seqT-{part}"] = {
                'tag': f"seqT-{part}", 'fields': None,
                'store': seq_body_stored or part != 'body',
                're': re.compile(pat), 'pattern': pat, 'kind': 'seq'}
    extra = [s['tag'] for s in specs]
    if seqdef is not None:
        extra += [seqdef.id, seqdef.id]
    paths, contents = [], {}
    for i in range(nfiles):
        p = os.path.join(d, f"{name}_{i}.log")
        lines = gen_lines(rng, nlines, distinct, kinds, extra)
        if first_line is not None:
            lines.insert(0, first_line)
        if seqdef is not None:
            for k in range(0, len(lines), 7):
                lines[k:k] = [f"START {rng.choice(extra)}",
                              f"BODY {rng.choice(extra)} {seqdef.id}",
                              f"STOP {rng.choice(WORDS)}"]
            if first_start is not None:
                lines[0] = f"START {first_start}"
        with open(p, 'w', encoding='utf-8') as f:
            f.write("".join(x + "\n" for x in lines))
        paths.append(p)
        contents[p] = lines
    s = FileSearcher(max_parallel_tasks=4)
    for p in paths:
        for spec in specs:
            s.add(spec['sdef'], p)
        if seqdef is not None:
            s.add(seqdef, p)
    old = signal.signal(signal.SIGALRM, lambda *a: (_ for _ in ()).throw(
        TimeoutError("FileSearcher.run() hung")))
    signal.alarm(180)
    try:
        res = s.run()
    finally:
        signal.alarm(0)
        signal.signal(signal.SIGALRM, old)
    return {'name': name, 'paths': paths, 'contents': contents, 'res': res,
            'specs': specs, 'all_specs': specs + list(seq_specs.values()),
            'seqdef': seqdef, 'seq_specs': seq_specs,
            'parallel': nfiles > 1}


def line_of(sc, p, r):
    """ the line a result names ('' beyond the end of the file) """
    lines = sc['contents'][p]
    ln = r.linenumber
    return lines[ln - 1] if isinstance(ln, int) and 1 <= ln <= len(lines) \
        else ''


def judge_scenario(chk, sc):
    bad = []
    n_checks = n_results = 0
    for p in sc['paths']:
        lines = sc['contents'][p]
        results = sc['res'].find_by_path(p)
        counts = {}
        for r in results:
            n_results += 1
            line = line_of(sc, p, r)
            spec = spec_for_line(sc['all_specs'], line)
            if spec is None:
                bad.append(f"{os.path.basename(p)}:{r.linenumber} result for "
                           f"a line no definition matches: {line!r}")
                continue
            counts[spec['pattern']] = counts.get(spec['pattern'], 0) + 1
            seq_id = sc['seqdef'].id if spec['kind'] == 'seq' else None
            b, c = judge_result(spec, r, line, seq_id)
            n_checks += c
            for x in b[:2]:
                bad.append(f"{os.path.basename(p)}:{r.linenumber} "
                           f"[{spec['kind']} {spec['pattern']!r} line "
                           f"{line!r}] {x}")
        # non-vacuity: simple searches return one result per matching line
        for spec in sc['specs']:
            want = sum(1 for ln in lines if spec['re'].match(ln))
            if counts.get(spec['pattern'], 0) != want:
                bad.append(f"{p}: {counts.get(spec['pattern'], 0)} results "
                           f"for {spec['pattern']!r}, {want} lines match")
    return bad, n_checks, n_results


# ------------------------------------------------------------ model side
PREAMBLE = r"""
From SK Require Import Model.Store Spec.Store Model.Result Proofs.Result.
Definition jo (o : option Z) : jv := JO JZ o.
Definition jpart (p : part) : jv :=
  let '(pi, sid, nm) := p in JL [JZ pi; jo sid; jo nm].
Definition jrd (r : rd) : jv :=
  match r with Val v => jo v | KeyErr => JZ (-1) | AttrErr => JZ (-2) end.
Definition cast_of (tbl : list (Z * Z * Z)) (nm r : Z) : Z :=
  match find (fun e => (fst (fst e) =? nm) && (snd (fst e) =? r)) tbl with
  | Some e => snd e
  | None => r
  end.
(* one search result to create: tag, field info, store contents?, groups,
   whole line *)
Definition rspec := (option Z * option finfo * bool * list (option Z) * Z)%type.
Fixpoint build (cast : Z -> Z -> Z) (s : store) (rs : list rspec)
  : store * list (option minimal) :=
  match rs with
  | [] => (s, [])
  | (tag, fi, sc, groups, whole) :: r =>
      match make_result cast s tag None fi sc groups whole with
      | ROk (s1, m) => let '(s2, ms) := build cast s1 r in (s2, Some m :: ms)
      | _ => (s, [None])
      end
  end.
Definition names_of (fi : option finfo) : list Z := map fst (fields_of fi).
Definition jmin (lk : Z -> option Z) (sp : rspec) (om : option minimal) : jv :=
  match om with
  | None => JZ (-9)
  | Some m =>
      let '(tag, fi, sc, groups, whole) := sp in
      JL [JL (map jpart (m_data m)); jo (fst (m_meta m)); jo (snd (m_meta m));
          JL (map (fun j => jrd (get lk m (FIdx (Z.of_nat j))))
                  (seq 0 (S (length groups))));
          JL (map jo (iter lk m));
          JL (map (fun nm => JL [jrd (get lk m (FName nm)); jrd (getattr lk m nm)])
                  (names_of fi));
          jrd (getattr lk m (-5));
          jo (tag_of lk m); jo (seq_of lk m)]
  end.
(* a file: block starts (empty = plain store) and the results in order *)
Definition fspec := (list Z * list rspec)%type.
Definition start_fn (starts : list Z) (j : nat) : Z := nth j starts 0.
Definition run_case (c : list (Z * Z * Z) * list fspec) : jv :=
  let '(tbl, files) := c in
  let cast := cast_of tbl in
  let built := map (fun f : fspec =>
                      let '(starts, rs) := f in
                      let s0 := match starts with
                                | [] => init_plain
                                | _ => init_pre 1000 (start_fn starts)
                                end in
                      (starts, rs, build cast s0 rs)) files in
  let sh := unproxy (sync_all (map (fun x => fst (snd x)) built) shared_empty) in
  JL (map (fun x =>
             let '(starts, rs, (s, ms)) := x in
             let lk := match starts with [] => lookup s | _ => sh_lookup sh end in
             JL (map (fun q => jmin lk (fst q) (snd q)) (combine rs ms)))
          built).
"""


def model_case(sc, cl):
    """ Coq term for the scenario + the implementation's outputs in the same
    shape; None if the scenario is outside the modelled fragment """
    if sc['seqdef'] is not None:
        return None
    files, wants = [], []
    casts = {}
    for p in sc['paths']:
        results = sc['res'].find_by_path(p)
        rs, ws = [], []
        used = []
        for r in results:
            line = line_of(sc, p, r)
            spec = spec_for_line(sc['all_specs'], line)
            cap = oracle_capture(spec, line) if spec else None
            if cap is None:
                return None
            fi = "None"
            if spec['fields']:
                fi = "Some [" + "; ".join(
                    f"({cl.id('name:' + n)}, "
                    f"{'true' if t is not None else 'false'})"
                    for n, t in spec['fields']) + "]"
            groups = []
            for j, g in enumerate(cap['raw']):
                groups.append("None" if g is None else f"Some {cl.id(g)}")
                if g is not None and spec['fields'] and \
                        j < len(spec['fields']) and \
                        spec['fields'][j][1] is not None:
                    nm = cl.id('name:' + spec['fields'][j][0])
                    casts[(nm, cl.id(g))] = cl.id(cap['iter'][j])
            whole = cl.id(cap['whole']) if 'whole' in cap else 0
            rs.append(f"(Some {cl.id(spec['tag'])}, {fi}, "
                      f"{'true' if spec['store'] else 'false'}, "
                      f"[{'; '.join(groups)}], {whole})")
            # implementation's output
            parts = []
            for part in r.data:
                parts.append([part[0], opt(part[1]),
                              opt(cl.id('name:' + part[2]))
                              if len(part) > 2 else None])
                if part[1] is not None:
                    used.append(part[1])
            for m in r.metadata:
                if m is not None:
                    used.append(m)
            n = cap['n']

            def rdv(f):
                try:
                    return opt(cl.id(f()))
                except KeyError:
                    return -1
                except AttributeError:
                    return -2
                except Exception:  # pylint: disable=broad-except
                    return -3
            names = [nm for nm, _ in (spec['fields'] or [])]
            ws.append([parts, opt(r.metadata[0]), opt(r.metadata[1]),
                       [rdv(lambda i=i: r.get(i)) for i in range(n + 1)],
                       [opt(cl.id(v)) for v in safe_list(r)],
                       [[rdv(lambda nm=nm: r.get(nm)),
                         rdv(lambda nm=nm: getattr(r, nm))] for nm in names],
                       rdv(lambda: getattr(r, 'no_such_field')),
                       rdv(lambda: r.tag), rdv(lambda: r.sequence_id)])
        starts = []
        if sc['parallel']:
            for i in used:
                b = (i // 1000) * 1000
                if b not in starts:
                    starts.append(b)
            if not starts:
                starts = [999000]       # no index used: any block will do
        files.append(f"({vlib.zl(starts)}, [{'; '.join(rs)}])")
        wants.append(ws)
    tbl = "[" + "; ".join(f"(({a}, {b}), {c})"
                          for (a, b), c in sorted(casts.items())) + "]"
    return (f"(({tbl}, [{'; '.join(files)}]) : "
            "list (Z * Z * Z) * list fspec)"), wants


def safe_list(r):
    try:
        return list(r)
    except Exception:  # pylint: disable=broad-except
        return []


def opt(x):
    return None if x is None else [x]


class Classes:
    def __init__(self):
        self.d = {}

    def id(self, v):
        if v is None:
            return None
        return self.d.setdefault(v, len(self.d) + 1)


def run(chk):
    chk.prove(PROPS)
    rng = chk.rng
    chk.coverage['rule'] = (
        "scenario = generated log files x 1-4 search definitions (unnamed, "
        "optional-group, whole-line, named, typed, typed-optional, "
        "no-contents, falsy-after-cast, empty-string groups, leading "
        "optional group, sequence) run through the real FileSearcher; a "
        "result is attributed to its definition by the line it names; every "
        "accessor of every returned result is compared with the plain-`re` "
        "capture of the line it names; an evaluation = one result; "
        "non-trivial = a result with at least one stored value; model "
        "comparison in Coq for simple-search scenarios <= 400 results/file")
    d = tempfile.mkdtemp(prefix='c05_', dir=chk.work)
    all_kinds = list(KINDS)
    plans = []

    def plan(nfiles, kinds, nlines, distinct, seq=False, first_line=None,
             group=None, first_start=None, seq_body_stored=True):
        plans.append({'nfiles': nfiles, 'kinds': kinds, 'nlines': nlines,
                      'distinct': distinct, 'seq': seq,
                      'first_line': first_line, 'group': group,
                      'first_start': first_start,
                      'seq_body_stored': seq_body_stored})
    reps = 1 if chk.quick else 5
    for _ in range(reps):
        # small, heavy duplication: single and multi file, every def kind
        for nfiles in (1, 1, 3, 5):
            for _k in range(2 if chk.quick else 4):
                plan(nfiles, rng.sample(all_kinds, rng.choice([1, 2, 3, 4])),
                     rng.choice([5, 40, 120]), rng.choice([0, 3, 30]))
        # values that are falsy after conversion (0, 0.0, ''), in-process
        # and in worker processes
        plan(1, ['falsy', 'empty'], 60, 3)
        plan(3, ['falsy', 'empty', 'typedopt'], 60, 3)
        plan(4, ['falsy'], 30, 0)
        plan(2, ['empty', 'typed'], 50, 0)
        # the tag is the first thing the store allocates (store index 0):
        # the first result stores no value
        plan(1, ['nostore'], 20, 3)
        plan(3, ['nostore'], 20, 3)
        plan(1, ['leadopt', 'two'], 40, 3, first_line='H k=first')
        plan(3, ['leadopt', 'two'], 40, 3, first_line='H k=first')
        # the SAME definition objects used in several runs, their tags /
        # sequence ids landing on different store positions each time
        g = f"g{_}"
        plan(1, ['two', 'opt'], 30, 3, first_line='A x y', group=g)
        plan(1, ['two', 'opt'], 30, 3, first_line='B k opt=z end t', group=g)
        plan(3, ['two', 'opt'], 30, 3, first_line='B k end', group=g)
        plan(1, ['two'], 30, 3, seq=True, first_start='zz', group=g + 's')
        plan(1, ['two'], 30, 3, seq=True, first_start='seqT-start',
             group=g + 's')
        plan(3, ['two'], 30, 3, seq=True, first_start='seqT-start',
             group=g + 's')
        # a sequence part that does not store its contents still belongs
        # to its sequence
        plan(1, ['two'], 40, 3, seq=True, seq_body_stored=False)
        plan(3, ['opt'], 40, 3, seq=True, seq_body_stored=False)
        # values equal to tags / sequence ids, sequences
        plan(1, ['two', 'typed'], 80, 5, seq=True)
        plan(3, ['opt', 'named'], 80, 5, seq=True)
        # roll-over: > 1000 and > 2500 distinct values per file
        plan(1, ['two'], 800, 10 ** 9)
        plan(1, ['two', 'typed', 'opt'], 3000, 10 ** 9)
        plan(3, ['two', 'opt'], 1500, 10 ** 9)
        plan(4, ['named', 'two'], 2400, 10 ** 9)
    coq_cases, wants = [], []
    type_differs = [0]

    groups = {}

    def one(n, pl):
        nfiles, kinds, nlines = pl['nfiles'], pl['kinds'], pl['nlines']
        try:
            sc = scenario(chk, d, f"s{n}", nfiles, kinds, nlines,
                          pl['distinct'], pl['seq'], pl['first_line'],
                          reuse=groups.get(pl['group']),
                          first_start=pl['first_start'],
                          seq_body_stored=pl['seq_body_stored'])
            if pl['group'] is not None:
                if pl['group'] in groups:
                    chk.dist('runs-reusing-definition-objects')
                groups.setdefault(pl['group'], sc)
        except Exception as exc:  # pylint: disable=broad-except
            chk.violation(
                f"c05-run-raised {type(exc).__name__}",
                {'exception': repr(exc)[:400], 'plan': pl})
            return
        bad, n_checks, n_results = judge_scenario(chk, sc)
        chk.coverage['evaluations'] += n_results
        chk.coverage['traces_validated_against_impl'] += n_checks
        chk.dist('scenarios-parallel' if sc['parallel']
                 else 'scenarios-in-process')
        for k in kinds:
            chk.dist(f"def-{k}")
        if pl['seq']:
            chk.dist('def-sequence')
        for p in sc['paths']:
            per_file = set()
            results = sc['res'].find_by_path(p)
            if results and safe(lambda: results[0].metadata[0]) == 0:
                chk.dist('tag-stored-at-index-0-' +
                         ('parallel' if sc['parallel'] else 'in-process'))
            for r in results:
                if any(part[1] is not None for part in r.data):
                    chk.coverage['distinct_nontrivial'] += 1
                line = line_of(sc, p, r)
                spec = spec_for_line(sc['all_specs'], line)
                cap = oracle_capture(spec, line) if spec else None
                for part in r.data:
                    if part[1] is None:
                        continue
                    per_file.add(part[1])
                    v = safe(lambda r=r, part=part: r.get(part[0]))
                    if cap and part[0] in cap['by_idx']:
                        want = cap['by_idx'][part[0]]
                        if not isinstance(v, Raised) and \
                                type(v) is not type(want):
                            type_differs[0] += 1      # ==-equal, other type
                        if want is not None and not want:
                            chk.dist('falsy-captured-values-' +
                                     ('parallel' if sc['parallel']
                                      else 'in-process'))
            if len(per_file) > 1000:
                chk.dist('files-with->1000-distinct-values')
            if len(per_file) > 2500:
                chk.dist('files-with->2500-distinct-values')
        for x in bad[:2]:
            chk.violation(
                f"c05-readback {'parallel' if sc['parallel'] else 'single'}"
                f" {x.split('] ')[-1].split(' ')[0][:30]}",
                {'violated': bad[:6], 'definitions':
                 [(sp['kind'], sp['pattern'], sp['tag'],
                   [(f, getattr(t, '__name__', None))
                    for f, t in (sp['fields'] or [])])
                  for sp in sc['specs']],
                 'files': {os.path.basename(p): sc['contents'][p][:40]
                           for p in sc['paths']}})
        if max(len(sc['res'].find_by_path(p)) for p in sc['paths']) \
                <= 400 or (not sc['parallel'] and nlines >= 2600):
            mc = model_case(sc, Classes())
            if mc is not None:
                coq_cases.append(mc[0])
                wants.append(mc[1])
                chk.dist('scenarios-model-checked')
        if n < 2:
            chk.sample({'files': nfiles, 'kinds': kinds,
                        'lines': nlines, 'results': n_results,
                        'accessor_checks': n_checks})
    try:
        for n, pl in enumerate(plans):
            try:
                one(n, pl)
            except Exception as exc:  # pylint: disable=broad-except
                # never let an unexpected shape of the implementation's
                # output escape: it is an observation, not a crash
                import traceback
                chk.violation(
                    f"c05-output-unreadable {type(exc).__name__}",
                    {'exception': repr(exc)[:300],
                     'where': traceback.format_exc()[-600:], 'plan': pl})
    finally:
        shutil.rmtree(d, ignore_errors=True)
    type_differs = type_differs[0]
    chk.dist('read-backs-equal-but-differently-typed', type_differs)
    mism, errs = vlib.eval_cases(chk.work, 'rb', '', PREAMBLE, 'run_case',
                                 coq_cases, wants, shard=4, timeout=1200)
    for e in errs:
        chk.broken.append({'obligation': 'correspondence results (coqc)',
                           'why': e})
    for i, v in mism:
        chk.violation("model-vs-impl result encoding",
                      {'case': (coq_cases[i][:1500] if i >= 0 else None),
                       'impl': str(wants[i])[:1500] if i >= 0 else None,
                       'model': str(v)[:1500]}, witness=False)
    if type_differs:
        chk.notes.append(
            f"{type_differs} read-backs are == to the captured value but of "
            "a different type (1 / 1.0 / True share one store slot)")
    chk.assumptions += [
        "Python == on captured values (str, and int/float/str casts) is the "
        "equality the property speaks about: ==-equal values of different "
        "type (1, 1.0, True) share a store slot and read back as the first "
        "one stored",
        "`re` and the cast functions are oracles (called directly by the "
        "harness, never through searchkit)",
        "every matched group has a declared field when fields are declared "
        "(otherwise searchkit raises FileSearchException by design)"]
