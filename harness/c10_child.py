"""C10 fault-injection child: ONE fault plan, in its own interpreter.

usage: c10_child.py '<json plan>'      (launched by harness/c10.py with
/venv/bin/python, PYTHONPATH=$VERIF_REPO, start_new_session=True)

plan = {"dir": scratch dir, "nfiles": 2..5, "workers": 1..4, "file": index
        of the file whose worker is hit, "point": name, "kind": "raise" |
        "raise_ude" | "raise_conn" | "raise_pipe" | "raise_eof" | "raise_os"
        | "raise_unpicklable" | "raise_local" | "exit" | "bad_utf8" |
        "bad_gzip_crc" | "gzip_junk" | "seq_midsection" (single-file history
        with a sequence definition, see seq_scenario) | "none", "decode_errors": optional
        FileSearcher(decode_errors=...), "k": ordinal for the
        counted points, "t1": seconds allowed for run 1, "t2": for run 2,
        "hold": seconds to stay at the point before firing (default 0),
        "slow": optional {"file": j, "secs": s}: the worker of file j pauses
        s seconds at its first line (a sibling still busy when the fault
        fires), "park": optional {"file": j, "secs": s}: the worker of file j stays
        s seconds INSIDE preallocate's locked region (sibling-termination
        experiments)}

It prints one line `@@C10 <json>` on stdout with what was observed and
always ends through os._exit, so nothing of searchkit's own clean-up can
keep it alive.  Everything the real code does is the real code: the wrappers
only count calls and fire the fault; they never replace behaviour.
"""
import json
import logging
import os
import sys
import threading
import time

PLAN = json.loads(sys.argv[1])
MARK = '@@C10 '
logging.disable(logging.CRITICAL)

import multiprocessing  # noqa: E402
import psutil  # noqa: E402
import searchkit.task as T  # noqa: E402
import searchkit.search as S  # noqa: E402
import searchkit.searchdef as SD  # noqa: E402
import searchkit.results_store as RS  # noqa: E402
from searchkit import FileSearcher, SearchDef  # noqa: E402

PARENT = os.getpid()
NLINES = 65            # 65 results/file: 3 buffer flushes of 20 + a final 5
T.NUM_BUFFERED_RESULTS = 20
PATTERN = r'hello (\d+) (\d+)'

# ------------------------------------------------------------- fault state
ARMED = [False]        # set in the parent just before run 1 (forked copy)
CUR = {'path': None, 'counts': {}}   # per worker process: task being run
FIRED_FLAG = None      # path of a file created when the fault fires


def _target():
    return PLAN['_paths'][PLAN['file']]


def _parkfile():
    p = PLAN.get('park')
    return PLAN['_paths'][p['file']] if p else None


def _fire():
    hold = PLAN.get('hold', 0)
    if hold:
        time.sleep(hold)
    fd = os.open(FIRED_FLAG, os.O_WRONLY | os.O_CREAT)
    os.write(fd, f"{os.getpid()}".encode())
    os.close(fd)
    kind = PLAN['kind']
    if os.getpid() == PARENT:
        # the task is being executed by the process that called run(): the
        # abrupt end of the executing process is the end of the caller
        OUT['in_process'] = True
        if kind == 'exit':
            OUT.update(run1='caller-killed', run1_latency=None, fired=True,
                       run2='not-run', store_lock_held=False,
                       collection_lock_held=False, left1=None)
            emit_and_exit()
    if kind == 'exit':
        os._exit(3)
    if kind == 'raise':
        raise RuntimeError('injected fault')
    if kind == 'raise_ude':
        raise UnicodeDecodeError('utf-8', b'\xff', 0, 1, 'injected fault')
    # an exception object that cannot be pickled (a user-supplied constraint
    # or matcher raising something that carries a file object / is a class
    # defined inside a function)
    if kind == 'raise_unpicklable':
        raise HoldsFile('injected fault')
    if kind == 'raise_local':
        class LocalError(Exception):
            """ not importable: cannot be pickled by reference """
        raise LocalError('injected fault')
    # what a reset / broken connection to the manager's queue looks like
    if kind == 'raise_conn':
        raise ConnectionResetError(104, 'Connection reset by peer')
    if kind == 'raise_pipe':
        raise BrokenPipeError(32, 'Broken pipe')
    if kind == 'raise_eof':
        raise EOFError()
    if kind == 'raise_os':
        raise OSError(5, 'Input/output error')
    raise AssertionError(kind)


class HoldsFile(Exception):
    """ carries an open file object """
    def __init__(self, msg):
        super().__init__(msg)
        self.fd = open(os.devnull, 'rb')  # pylint: disable=consider-using-with


DATA_KINDS = ('bad_utf8', 'bad_gzip_crc', 'gzip_junk')


def write_file(path, i, damage=None, k=1):
    """ the i-th test file; `damage`: None | one of DATA_KINDS """
    lines = []
    for j in range(NLINES):
        if damage == 'bad_utf8' and j + 1 == k:
            lines.append(b'hello \xff\xfe bad\n')
        else:
            lines.append(f"hello {i} {j}\n".encode())
    data = b''.join(lines)
    if damage in ('bad_gzip_crc', 'gzip_junk'):
        import gzip
        z = gzip.compress(data)
        if damage == 'bad_gzip_crc':       # valid header, wrong CRC32
            z = z[:-8] + bytes([z[-8] ^ 0x5a]) + z[-7:]
        else:                              # garbage after the member
            z = z + b'\x17junk after the gzip member\n'
        data = z
    with open(path, 'wb') as f:
        f.write(data)


def at(point):
    """ called by every wrapper; fires the plan when it names this point,
    this ordinal, in the worker handling the chosen file """
    if not ARMED[0]:
        return
    if point == 'alloc_inside_lock' and CUR['path'] is not None and \
            CUR['path'] == _parkfile():
        n = CUR['counts'].get('park', 0)
        CUR['counts']['park'] = n + 1
        if n == 0:
            time.sleep(PLAN['park']['secs'])
    slow = PLAN.get('slow')
    if slow and point == 'line' and CUR['path'] is not None and \
            CUR['path'] == PLAN['_paths'][slow['file']]:
        n = CUR['counts'].get('slow', 0)
        CUR['counts']['slow'] = n + 1
        if n == 0:
            time.sleep(slow['secs'])      # a sibling that is still busy
    if PLAN['kind'] in ('none',) + DATA_KINDS or PLAN['point'] != point:
        return
    if CUR['path'] != _target():
        return
    n = CUR['counts'].get(point, 0) + 1
    CUR['counts'][point] = n
    # a broken connection stays broken: 'queue_put' fails from the k-th
    # hand-over of the victim's worker onwards
    if n == PLAN.get('k', 1) or (point == 'queue_put' and
                                 n > PLAN.get('k', 1)):
        _fire()


# ------------------------------------------------------------- the wrappers
class GzipShim:
    """ stands for the `gzip` module inside searchkit.task: open() is the
    first thing execute() does inside its try """
    def __init__(self, real):
        self._real = real

    def open(self, *a, **kw):
        at('before_open')
        return self._real.open(*a, **kw)

    def __getattr__(self, name):
        return getattr(self._real, name)


class ValueWrap:
    """ wraps the manager's Value proxy `alloc_pointer`: both accesses
    happen inside preallocate's `with RESULTS_STORE_LOCK` """
    def __init__(self, inner):
        self._inner = inner

    @property
    def value(self):
        at('alloc_inside_lock')
        return self._inner.value

    @value.setter
    def value(self, v):
        at('alloc_before_write')
        self._inner.value = v
        at('alloc_after_write')


class DictWrap:
    """ wraps the manager's dict proxy `data` of the shared store: its
    __setitem__ is called inside sync()'s locked region only """
    def __init__(self, inner):
        self._inner = inner

    def __setitem__(self, k, v):
        at('sync_inside_lock')
        self._inner[k] = v

    def __getitem__(self, k):
        return self._inner[k]

    def __delitem__(self, k):
        del self._inner[k]

    def __len__(self):
        return len(self._inner)

    def __contains__(self, k):
        return k in self._inner

    def __iter__(self):
        return iter(self._inner.keys())

    def __deepcopy__(self, memo):
        import copy
        return copy.deepcopy(self._inner, memo)

    def __getattr__(self, name):
        if name.startswith('_'):
            raise AttributeError(name)
        return getattr(self._inner, name)


def install():
    real_execute = T.SearchTask.execute
    real_put = T.SearchTask.put_result
    real_sdrun = SD.SearchDef.run
    real_init = RS.ResultStoreParallel.__init__
    real_prealloc = RS.ResultStoreParallel.preallocate
    real_sync = RS.ResultStoreParallel.sync
    real_add = RS.ResultStoreBase._add_to_store

    def execute(self):
        CUR['path'] = self.info['path']
        CUR['counts'] = {}
        try:
            ret = real_execute(self)
        finally:
            CUR['path'] = None
        # the task's work is complete, its result not yet handed to the pool
        CUR['path'] = self.info['path']
        try:
            at('after_last')
        finally:
            CUR['path'] = None
        return ret

    def put_result(self, results):
        at('before_put')
        ret = real_put(self, results)
        at('after_put')
        return ret

    def sdrun(self, line):
        at('line')
        return real_sdrun(self, line)

    def init(self, mgr, **kwargs):
        real_init(self, mgr, **kwargs)
        self.alloc_pointer = ValueWrap(self.alloc_pointer)
        self.data = DictWrap(self.data)

    def preallocate(self, size):
        at('before_alloc')
        ret = real_prealloc(self, size)
        at('after_alloc')
        return ret

    def sync(self):
        at('before_sync')
        ret = real_sync(self)
        at('after_sync')
        return ret

    def add_to_store(self, value, store, idx=None):
        # on the Parallel class this is reached from sync() only (workers
        # add to their local ResultStoreSimple), i.e. inside the lock
        at('sync_add_inside_lock')
        return real_add(self, value, store, idx=idx)

    T.SearchTask.execute = execute
    T.SearchTask.put_result = put_result
    SD.SearchDef.run = sdrun
    RS.ResultStoreParallel.__init__ = init
    RS.ResultStoreParallel.preallocate = preallocate
    RS.ResultStoreParallel.sync = sync
    RS.ResultStoreParallel._add_to_store = add_to_store
    T.gzip = GzipShim(T.gzip)
    # BELOW the library: the stdlib proxy call behind Queue.put/put_nowait
    # (so that put_result's own retry / error handling is exercised)
    from multiprocessing.managers import BaseProxy
    real_call = BaseProxy._callmethod  # pylint: disable=protected-access

    def _callmethod(self, methodname, args=(), kwds=None):
        if methodname in ('put', 'put_nowait'):
            at('queue_put')
        return real_call(self, methodname, args, kwds or {})
    BaseProxy._callmethod = _callmethod  # pylint: disable=protected-access
    if PLAN.get('slow_submit'):
        # schedule steering only: the parent pauses after each submit() of
        # run 1, so that a worker can reach its fault point while the parent
        # is still inside the submit loop
        import concurrent.futures as CF
        real_submit = CF.ProcessPoolExecutor.submit

        def submit(self, *a, **kw):
            fut = real_submit(self, *a, **kw)
            if ARMED[0]:
                time.sleep(PLAN['slow_submit'])
            return fut
        CF.ProcessPoolExecutor.submit = submit


# ------------------------------------------------------------- observations
def probe(lock):
    """ non-blocking: True = somebody holds it """
    got = lock.acquire(block=False)
    if got:
        lock.release()
    return not got


def leftovers(grace=2.0):
    """ children / threads that are still there after a short grace """
    end = time.time() + grace
    while True:
        act = multiprocessing.active_children()
        kids = []
        for p in psutil.Process().children(recursive=True):
            try:
                if p.status() != psutil.STATUS_ZOMBIE:
                    kids.append(p.pid)
            except psutil.Error:
                pass
        thr = sorted(t.name for t in threading.enumerate()
                     if t is not threading.main_thread()
                     and not t.name.startswith('c10-watchdog'))
        if (not act and not kids and not thr) or time.time() >= end:
            return {'active_children': [c.name for c in act],
                    'live_child_pids': len(kids), 'threads': thr}
        time.sleep(0.05)


OUT = {'plan': {k: v for k, v in PLAN.items() if not k.startswith('_')}}
DONE = threading.Event()
PRINT_LOCK = threading.Lock()


def emit_and_exit():
    with PRINT_LOCK:
        sys.stdout.write(MARK + json.dumps(OUT, sort_keys=True) + '\n')
        sys.stdout.flush()
        os._exit(0)


def watchdog(name, secs, stage_done, on_timeout):
    def body():
        if not stage_done.wait(secs):
            on_timeout()
            emit_and_exit()
    t = threading.Thread(target=body, name=f'c10-watchdog-{name}',
                         daemon=True)
    t.start()


def canon(results, paths):
    out = []
    for p in paths:
        rows = sorted((r.linenumber, r.get(1), r.get(2))
                      for r in results.find_by_path(p))
        out.append([os.path.basename(p), rows])
    return out


def searcher(paths, workers):
    s = FileSearcher(max_parallel_tasks=workers,
                     decode_errors=PLAN.get('decode_errors'))
    sd = SearchDef(PATTERN, tag='t')
    for p in paths:
        s.add(sd, p)
    return s


def seq_sections(results, sd):
    out = []
    for _sid, rs in results.find_sequence_sections(sd).items():
        out.append(sorted((r.linenumber, r.get(1)) for r in rs))
    return sorted(out)


def seq_scenario(d):
    """ a single-file (in-process) search fails INSIDE an open section of a
    sequence definition; the same definition object is then used by a
    further search in this process, which must see what a fresh one sees """
    from searchkit import SequenceSearchDef

    def mkdef():
        return SequenceSearchDef(start=SearchDef(r'^start (\d+)'),
                                 body=SearchDef(r'^body (\d+)'),
                                 end=SearchDef(r'^end (\d+)'), tag='seq')
    bad = os.path.join(d, 'seq_bad.txt')
    with open(bad, 'wb') as f:
        f.write(b'start 1\nbody 1\nend 1\nstart 2\nbody 2\n'
                b'body \xff\xfe\nend 2\n')
    nxt = os.path.join(d, 'seq_next.txt')
    with open(nxt, 'wb') as f:
        f.write(b'body 7\nend 7\nnoise\nstart 8\nbody 8\nend 8\n'
                b'start 9\nbody 9\n')
    fresh = mkdef()
    s0 = FileSearcher()
    s0.add(fresh, nxt)
    expected = seq_sections(s0.run(), fresh)
    OUT['expected_rows'] = sum(len(x) for x in expected)
    sd = mkdef()
    st1 = threading.Event()

    def hang1():
        OUT.update(run1='hang', run1_latency=None, fired=True,
                   store_lock_held=probe(RS.RESULTS_STORE_LOCK),
                   collection_lock_held=probe(S.RESULTS_COLLECTION_LOCK),
                   left1=leftovers(0), run2='not-run')
    watchdog('run1', PLAN['t1'], st1, hang1)
    s1 = FileSearcher()
    s1.add(sd, bad)
    t0 = time.time()
    try:
        s1.run()
        OUT['run1'] = 'returned'
        OUT['run1_complete'] = False
    except BaseException as exc:  # pylint: disable=broad-except
        OUT['run1'] = type(exc).__name__
    OUT['run1_latency'] = round(time.time() - t0, 2)
    st1.set()
    OUT['fired'] = True
    OUT['left1_now'] = leftovers(0)
    OUT['left1'] = leftovers()
    OUT['store_lock_held'] = probe(RS.RESULTS_STORE_LOCK)
    OUT['collection_lock_held'] = probe(S.RESULTS_COLLECTION_LOCK)
    st2 = threading.Event()

    def hang2():
        OUT.update(run2='hang', run2_equal=False)
    watchdog('run2', PLAN['t2'], st2, hang2)
    s2 = FileSearcher()
    s2.add(sd, nxt)
    try:
        got = seq_sections(s2.run(), sd)
        OUT['run2'] = 'returned'
        OUT['run2_equal'] = (got == expected)
        if got != expected:
            OUT['run2_got'] = got
            OUT['run2_expected'] = expected
    except BaseException as exc:  # pylint: disable=broad-except
        OUT['run2'] = type(exc).__name__
        OUT['run2_equal'] = False
    st2.set()
    OUT['left2'] = leftovers()
    emit_and_exit()


def main():
    global FIRED_FLAG
    d = PLAN['dir']
    os.makedirs(d, exist_ok=True)
    FIRED_FLAG = os.path.join(d, 'fired')
    if PLAN['kind'] == 'seq_midsection':
        seq_scenario(d)
    paths = []
    for i in range(PLAN['nfiles']):
        p = os.path.join(d, f"f{i}.txt")
        write_file(p, i, PLAN['kind'] if PLAN['kind'] in DATA_KINDS and
                   i == PLAN['file'] else None, PLAN.get('k', 1))
        paths.append(p)
    PLAN['_paths'] = paths
    # expected results: one fault-free single-file (in-process) run per path
    expected = []
    for i, p in enumerate(paths):
        if PLAN['kind'] in DATA_KINDS and i == PLAN['file']:
            # this file cannot be searched (undecodable under strict
            # decoding / damaged gzip stream); run 2 uses the other files
            # plus a clean copy
            q = os.path.join(d, f"g{i}.txt")
            write_file(q, i)
            p = q
        s = searcher([p], 1)
        expected += canon(s.run(), [p])
    paths2 = [os.path.join(d, e[0]) for e in expected]
    OUT['expected_rows'] = sum(len(e[1]) for e in expected)

    install()
    OUT['cpu_cap'] = min(PLAN['workers'], os.cpu_count() or 1)

    # ---------------------------------------------------------------- run 1
    st1 = threading.Event()

    def hang1():
        OUT['run1'] = 'hang'
        OUT['run1_latency'] = None
        OUT['fired'] = os.path.exists(FIRED_FLAG)
        OUT['store_lock_held'] = probe(RS.RESULTS_STORE_LOCK)
        OUT['collection_lock_held'] = probe(S.RESULTS_COLLECTION_LOCK)
        OUT['threads_at_hang'] = sorted(
            t.name for t in threading.enumerate()
            if not t.name.startswith('c10-watchdog'))
        OUT['left1'] = leftovers(0)
        OUT['run2'] = 'not-run'
    watchdog('run1', PLAN['t1'], st1, hang1)
    ARMED[0] = True
    s1 = searcher(paths, PLAN['workers'])
    t0 = time.time()
    try:
        res = s1.run()
        OUT['run1'] = 'returned'
        try:
            OUT['run1_complete'] = (
                PLAN['kind'] not in DATA_KINDS and
                canon(res, paths) == expected)
        except Exception as exc:  # pylint: disable=broad-except
            OUT['run1_complete'] = False
            OUT['run1_read_error'] = type(exc).__name__
    except BaseException as exc:  # pylint: disable=broad-except
        OUT['run1'] = type(exc).__name__
    OUT['run1_latency'] = round(time.time() - t0, 2)
    st1.set()
    ARMED[0] = False
    OUT['fired'] = os.path.exists(FIRED_FLAG)
    OUT['left1_now'] = leftovers(0)     # at the moment run() ended
    OUT['left1'] = leftovers()
    OUT['store_lock_held'] = probe(RS.RESULTS_STORE_LOCK)
    OUT['collection_lock_held'] = probe(S.RESULTS_COLLECTION_LOCK)

    # ---------------------------------------------------------------- run 2
    st2 = threading.Event()

    def hang2():
        OUT['run2'] = 'hang'
        OUT['run2_equal'] = False
    watchdog('run2', PLAN['t2'], st2, hang2)
    s2 = searcher(paths2, PLAN['workers'])
    try:
        res2 = s2.run()
        OUT['run2'] = 'returned'
        OUT['run2_equal'] = (canon(res2, paths2) == expected)
        OUT['run2_jobs'] = [s2.stats['jobs_completed'],
                            s2.stats['total_jobs']]
    except BaseException as exc:  # pylint: disable=broad-except
        OUT['run2'] = type(exc).__name__
        OUT['run2_equal'] = False
    st2.set()
    OUT['left2'] = leftovers()
    emit_and_exit()


if __name__ == '__main__':
    main()
