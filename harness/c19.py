"""C19 - MPCache is a per-key register shared safely by concurrent processes.

T1: Gen/Skeleton.v holds the lock skeletons of MPCacheSimple.get/set/
    bulk_set/unset and MPCacheBase.cache_base_path as they are in the source;
    Props/C19.v proves `well_locked` of them and, for every well-locked
    skeleton, mutual exclusion, linearization points, no deadlock and no
    failing operation under EVERY schedule.
T2: (a) sequential: random single-process histories, the REAL MPCacheSimple
        in a temp dir vs the model (run through the extracted skeletons) and
        vs the register spec, both evaluated inside Coq;
    (b) scheduled: 2..8 real forked processes whose InterProcessLock.acquire/
        release, shelve.open, record accesses, close, invocation and response
        are scheduling points granted by the parent; each run yields a trace
        (compared with the model's `mrun` on the same schedule, including
        who had to wait) and a history (checked for linearizability by an
        exact python checker and by Spec.Cache.lin_ok inside Coq - proved
        sound w.r.t. the Prop `linearizable`, Props/C19.v);
    (c) a probe that parks a writer inside dbm.dumb's commit (index file
        renamed away) and lets a reader try to get the same key;
    (d) free-running stress runs with real blocking; histories ordered by
        time.monotonic_ns(), flagged only when no order consistent with the
        recorded times is a register history.
"""
import json
import os
import select
import shutil
import signal
import tempfile
import time

import vlib

PROPS = ['Props/C19.v']

L_INV, L_ACQC, L_ACQG, L_RELG, L_READ, L_WRITE, L_DEL, L_CLOSE, L_RELC, \
    L_RES = 0, 1, 2, 3, 5, 6, 7, 8, 9, 10
L_BLOCKED = -1
L_ACQX, L_RELX = 11, 12          # a lock the model does not know
# lock files of the cache under test ('c19') -> the model's two locks
LOCKNAMES = {'cache_all_global.lock': 'G', 'cache_c19.lock': 'C'}
STEP_TIMEOUT = 20.0


# ------------------------------------------------------------- encodings
# model key id -> the key string really used.  '0' is the one key for which
# the pinned `del db[key]` worked; 'log' / 'log.1' are a key and a key that
# extends it with '.<something>' (the shape of rotated log names): their db
# files share a prefix but are different files
KEYNAMES = {0: '0', 1: 'log', 2: 'log.1'}
# further DISTINCT keys, used only by the fixed sequential programs below:
# pairs that differ as strings but look alike (composed / decomposed accent,
# fullwidth / superscript digit vs ASCII digit - equal after unicode
# normalisation -, letter case).  Distinct keys are distinct registers.
KEYNAMES.update({3: 'caf\u00e9', 4: 'cafe\u0301', 5: 'node\uff11',
                 6: 'node1', 7: 'm\u00b2', 8: 'm2', 9: 'Log'})
LOOKALIKE = [(3, 4), (5, 6), (7, 8), (9, 1)]
KEYIDS = {v: k for k, v in KEYNAMES.items()}


def keyname(k):
    return KEYNAMES[k]


def op_coq(op):
    if op[0] == 'set':
        return f"OSet {op[1]} {op[2]}"
    if op[0] == 'get':
        return f"OGet {op[1]}"
    if op[0] == 'unset':
        return f"OUnset {op[1]}"
    return "OBulk [" + "; ".join(f"({k}, {v})" for k, v in op[1]) + "]"


def prog_coq(prog):
    return "[" + "; ".join(op_coq(o) for o in prog) + "]"


def res_enc(kind, val=None):
    """ canonical result: [0] ack, [1] get->None, [1, v] get->v, [2] raised """
    if kind == 'ack':
        return [0]
    if kind == 'val':
        return [1] if val is None else [1, val]
    return [2]


def res_coq(r):
    if r == [0]:
        return "RAck"
    if r == [1]:
        return "(RVal None)"
    if r[0] == 1:
        return f"(RVal (Some {r[1]}))"
    return "RFail"


def hist_coq(events):
    """ events: chronological ('inv', p, i, op) | ('res', p, i, op, r) """
    out = []
    for e in events:
        if e[0] == 'inv':
            out.append(f"HInv {e[1]} {e[2]} ({op_coq(e[3])})")
        else:
            out.append(f"HRes {e[1]} {e[2]} ({op_coq(e[3])}) {res_coq(e[4])}")
    return "[" + "; ".join(out) + "]"


# model value id -> the python value really stored (ids 0..9 are the ints
# themselves; the rest are falsy / non-int values: '', [], False, 'x', [1],
# 0.0 would be ==-equal to 0 and is left out)
PYVAL = {i: i for i in range(10)}
PYVAL.update({10: '', 11: [], 12: False, 13: 'x', 14: [1]})
BAD = 15                         # a value that cannot be pickled
PYVAL[BAD] = lambda: 0
FALSY = [0, 10, 11, 12]
POOLS = [list(range(1, 10)), [0, 1, 2], [1, 2], FALSY + [5], [0, 3, 10, 13],
         list(range(0, 15))]


def val_id(v):
    for i, p in PYVAL.items():
        if type(v) is type(p) and v == p:
            return i
    return None


def do_op(cache, op):
    """ run one operation on the real cache; canonical result """
    try:
        if op[0] == 'set':
            r = cache.set(keyname(op[1]), PYVAL[op[2]])
            return res_enc('ack') if r is None else ['odd', repr(r)]
        if op[0] == 'get':
            v = cache.get(keyname(op[1]))
            if v is None:
                return res_enc('val', None)
            i = val_id(v)
            return res_enc('val', i) if i is not None else ['odd', repr(v)]
        if op[0] == 'unset':
            cache.unset(keyname(op[1]))
            return res_enc('ack')
        cache.bulk_set({keyname(k): PYVAL[v] for k, v in op[1]})
        return res_enc('ack')
    except BaseException as exc:   # pylint: disable=broad-except
        return [2, f"{type(exc).__name__}: {exc}"[:200]]


def canon(r):
    """ strip the diagnostic text of a failure """
    return [2] if r and r[0] == 2 else r


# ------------------------------------------------------------ generators
def gen_op(rng, keys, vals):
    x = rng.random()
    k = rng.choice(keys)
    if x < 0.30:
        return ('set', k, rng.choice(vals))
    if x < 0.62:
        return ('get', k)
    if x < 0.80:
        return ('unset', k)
    n = rng.choice([0, 1, 1, 2, 2, 3])
    ks = list(keys)
    rng.shuffle(ks)
    return ('bulk', [(kk, rng.choice(vals)) for kk in ks[:n]])


def gen_prog(rng, n, keys, vals):
    return [gen_op(rng, keys, vals) for _ in range(n)]


# ------------------------------------------------- python register + checker
def spec_apply(op, st):
    st = dict(st)
    if op[0] == 'set':
        st[op[1]] = op[2]
    elif op[0] == 'unset':
        st.pop(op[1], None)
    elif op[0] == 'bulk':
        for k, v in op[1]:
            st[k] = v
    return st


def spec_res(op, st):
    if op[0] == 'get':
        return res_enc('val', st.get(op[1]))
    return res_enc('ack')


def linearizable(ops):
    """ exact check.  ops: list of dicts {op, inv, res (None = pending), r}.
    A precedes B iff A.res < B.inv (strict).  Pending operations may take
    effect or not.  Returns a witness order (list of indices) or None. """
    n = len(ops)
    full = 0
    for i, o in enumerate(ops):
        if o['res'] is not None:
            full |= 1 << i
    seen = set()
    order = []

    def rec(mask, st):
        if mask & full == full:
            return True
        key = (mask, tuple(sorted(st.items())))
        if key in seen:
            return False
        seen.add(key)
        # minimal response time among operations not yet linearized
        lim = min((ops[i]['res'] for i in range(n)
                   if not mask >> i & 1 and ops[i]['res'] is not None),
                  default=None)
        for i in range(n):
            if mask >> i & 1:
                continue
            o = ops[i]
            if lim is not None and o['inv'] > lim:
                continue       # somebody responded before o was invoked
            if o['res'] is not None and canon(o['r']) != spec_res(o['op'],
                                                                  st):
                continue
            order.append(i)
            if rec(mask | 1 << i, spec_apply(o['op'], st)):
                return True
            order.pop()
        return False

    return list(order) if rec(0, {}) else None


def project(ops, key):
    """ the operations on one key, bulk_set seen as a set of that key """
    out = []
    for o in ops:
        op = o['op']
        if op[0] == 'bulk':
            vs = [v for k, v in op[1] if k == key]
            if not vs:
                continue
            op = ('set', key, vs[-1])
        elif op[1] != key:
            continue
        out.append(dict(o, op=op))
    return out


def judge(ops, keys):
    """ -> (per_key_ok, atomic_bulk_ok, failing key or None) """
    for k in keys:
        if linearizable(project(ops, k)) is None:
            return False, False, k
    return True, linearizable(ops) is not None, None


def events_to_ops(events):
    ops, idx = [], {}
    for t, e in enumerate(events):
        if e[0] == 'inv':
            idx[(e[1], e[2])] = len(ops)
            ops.append({'p': e[1], 'i': e[2], 'op': e[3], 'inv': t,
                        'res': None, 'r': None})
        else:
            o = ops[idx[(e[1], e[2])]]
            o['res'], o['r'] = t, e[4]
    return ops


# ------------------------------------------------------- child side (forked)
class _Chan:
    def __init__(self, rfd, wfd):
        self.rfd, self.wfd = rfd, wfd

    def point(self, *msg):
        """ report a scheduling point and wait for the parent's grant """
        os.write(self.wfd, (json.dumps(list(msg)) + "\n").encode())
        b = os.read(self.rfd, 1)
        if b != b'g':
            os._exit(3)


class _ShelfProxy:
    def __init__(self, chan, real):
        self._c, self._r = chan, real

    def __enter__(self):
        return self

    def __exit__(self, *a):
        self.close()

    def close(self):
        self._c.point('close')
        self._r.close()

    def get(self, key, default=None):
        self._c.point('read')
        return self._r.get(key, default)

    def __getitem__(self, key):
        self._c.point('read')
        return self._r[key]

    def __setitem__(self, key, value):
        self._c.point('write')
        self._r[key] = value

    def __delitem__(self, key):
        self._c.point('del')
        del self._r[key]

    def pop(self, key, *default):
        self._c.point('del')
        return self._r.pop(key, *default)

    def __contains__(self, key):
        self._c.point('read')
        return key in self._r

    def __getattr__(self, name):
        return getattr(self._r, name)


def _child_main(chan, root, prog, commit_points, free=False):
    """ runs in the forked child; never returns.  free: only invocation and
    response are scheduling points, locks really block """
    try:
        import shelve
        import dbm.dumb
        import fasteners
        from searchkit.utils import MPCacheSimple
        if free:
            cache = MPCacheSimple('c19', 'verif', root)
            for i, op in enumerate(prog):
                chan.point('inv', i)
                r = do_op(cache, op)
                chan.point('res', i, r)
            os.write(chan.wfd, b'["done"]\n')
            os._exit(0)

        ipl = fasteners.InterProcessLock
        real_acq, real_rel, real_open = ipl.acquire, ipl.release, shelve.open

        def lname(lock):
            p = lock.path
            if isinstance(p, bytes):
                p = p.decode()
            return LOCKNAMES.get(os.path.basename(p), os.path.basename(p))

        def acquire(self, *a, **k):
            chan.point('acq', lname(self))
            got = real_acq(self, blocking=True, timeout=8)
            if not got:
                chan.point('acqfail', lname(self))
            return got

        def release(self):
            chan.point('rel', lname(self))
            return real_rel(self)

        def sopen(path, *a, **k):
            chan.point('open', os.path.basename(path))
            return _ShelfProxy(chan, real_open(path, *a, **k))

        ipl.acquire, ipl.release, shelve.open = acquire, release, sopen
        if commit_points:
            class _OsProxy:
                def __getattr__(self, name):
                    return getattr(os, name)

                def rename(self, a, b):
                    os.rename(a, b)
                    chan.point('commit')
            dbm.dumb._Database._os = _OsProxy()
        cache = MPCacheSimple('c19', 'verif', root)
        for i, op in enumerate(prog):
            chan.point('inv', i)
            r = do_op(cache, op)
            chan.point('res', i, r)
        os.write(chan.wfd, b'["done"]\n')
    except BaseException as exc:   # pylint: disable=broad-except
        try:
            os.write(chan.wfd, (json.dumps(
                ['crash', f"{type(exc).__name__}: {exc}"[:300]])
                + "\n").encode())
        except OSError:
            pass
    finally:
        os._exit(0)


def _free_child(wfd, root, prog, start_at):
    """ unscheduled child: real blocking, timestamps only """
    try:
        from searchkit.utils import MPCacheSimple
        cache = MPCacheSimple('c19', 'verif', root)
        out = []
        while time.monotonic_ns() < start_at:
            pass
        for i, op in enumerate(prog):
            t0 = time.monotonic_ns()
            r = do_op(cache, op)
            t1 = time.monotonic_ns()
            out.append([i, t0, t1, r])
        os.write(wfd, (json.dumps(out) + "\n").encode())
    except BaseException as exc:   # pylint: disable=broad-except
        try:
            os.write(wfd, (json.dumps(
                {'crash': f"{type(exc).__name__}: {exc}"[:300]})
                + "\n").encode())
        except OSError:
            pass
    finally:
        os._exit(0)


# ------------------------------------------------------------- parent side
class Hang(Exception):
    pass


class Run:
    """ one scheduled run of n forked children """

    def __init__(self, workdir, progs, commit_points=False, free=()):
        self.progs = progs
        self.n = len(progs)
        self.root = tempfile.mkdtemp(prefix='c19run_', dir=workdir)
        self.pids, self.rfd, self.wfd, self.buf = [], [], [], []
        self.pending = [None] * self.n
        self.owner = {}
        self.trace = []          # (pid, label) incl. blocked attempts
        self.events = []         # history, chronological
        self.fail_texts = []
        self.extra = []          # commit points etc. (not model steps)
        pgid = 0
        for i, prog in enumerate(progs):
            c2p_r, c2p_w = os.pipe()
            p2c_r, p2c_w = os.pipe()
            pid = os.fork()
            if pid == 0:
                try:
                    os.setpgid(0, pgid)
                except OSError:
                    pass
                os.close(c2p_r)
                os.close(p2c_w)
                for fd in self.rfd + self.wfd:
                    try:
                        os.close(fd)
                    except OSError:
                        pass
                _child_main(_Chan(p2c_r, c2p_w), self.root, prog,
                            commit_points, i in free)
                os._exit(0)
            if i == 0:
                pgid = pid
            try:
                os.setpgid(pid, pgid)
            except OSError:
                pass
            os.close(c2p_w)
            os.close(p2c_r)
            self.pids.append(pid)
            self.rfd.append(c2p_r)
            self.wfd.append(p2c_w)
            self.buf.append(b'')
        self.pgid = pgid
        for i in range(self.n):
            self.pending[i] = self._recv(i)

    def _recv(self, i):
        deadline = time.time() + STEP_TIMEOUT
        while b'\n' not in self.buf[i]:
            left = deadline - time.time()
            if left <= 0:
                raise Hang(i)
            r, _, _ = select.select([self.rfd[i]], [], [], left)
            if not r:
                raise Hang(i)
            chunk = os.read(self.rfd[i], 65536)
            if not chunk:
                return ['crash', 'child closed its pipe']
            self.buf[i] += chunk
        line, self.buf[i] = self.buf[i].split(b'\n', 1)
        return json.loads(line)

    def poll(self, i, timeout):
        """ next message of child i if it arrives within timeout, else None """
        deadline = time.time() + timeout
        while b'\n' not in self.buf[i]:
            left = deadline - time.time()
            if left <= 0:
                return None
            r, _, _ = select.select([self.rfd[i]], [], [], left)
            if not r:
                return None
            chunk = os.read(self.rfd[i], 65536)
            if not chunk:
                return ['crash', 'child closed its pipe']
            self.buf[i] += chunk
        line, self.buf[i] = self.buf[i].split(b'\n', 1)
        return json.loads(line)

    def grant_only(self, i):
        """ grant child i's pending invocation / response without waiting
        for its next message (free children block for real) """
        m = self.pending[i]
        if m[0] == 'inv':
            self.events.append(('inv', i, m[1], self.progs[i][m[1]]))
        elif m[0] == 'res':
            r = m[2]
            if r and r[0] in (2, 'odd'):
                self.fail_texts.append((i, m[1], r))
                r = [2]
            self.events.append(('res', i, m[1], self.progs[i][m[1]], r))
        self.trace.append((i, self.label(m)))
        os.write(self.wfd[i], b'g')
        self.pending[i] = ['running']

    def done(self, i):
        return self.pending[i][0] in ('done', 'crash')

    def all_done(self):
        return all(self.done(i) for i in range(self.n))

    def blocked(self, i):
        m = self.pending[i]
        return m[0] == 'acq' and self.owner.get(m[1]) is not None

    def label(self, m):
        t = m[0]
        if t == 'inv':
            return L_INV
        if t == 'res':
            return L_RES
        if t == 'acq':
            return {'C': L_ACQC, 'G': L_ACQG}.get(m[1], L_ACQX)
        if t == 'rel':
            return {'C': L_RELC, 'G': L_RELG}.get(m[1], L_RELX)
        if t == 'open':
            return 100 + KEYIDS.get(m[1], 99)
        return {'read': L_READ, 'write': L_WRITE, 'del': L_DEL,
                'close': L_CLOSE}.get(t, 98)

    def attempt(self, i):
        """ one schedule entry for child i; returns label or L_BLOCKED """
        m = self.pending[i]
        if self.done(i):
            return None
        if self.blocked(i):
            self.trace.append((i, L_BLOCKED))
            return L_BLOCKED
        lab = self.label(m)
        if m[0] == 'commit':
            self.extra.append((i, 'commit', len(self.trace)))
        elif m[0] == 'acqfail':
            self.extra.append((i, 'acquire-timeout', m[1]))
        else:
            self.trace.append((i, lab))
        if m[0] == 'acq':
            self.owner[m[1]] = i
        elif m[0] == 'rel':
            if self.owner.get(m[1]) == i:
                self.owner[m[1]] = None
        elif m[0] == 'inv':
            self.events.append(('inv', i, m[1], self.progs[i][m[1]]))
        elif m[0] == 'res':
            r = m[2]
            if r and r[0] in (2, 'odd'):
                self.fail_texts.append((i, m[1], r))
                r = [2]
            self.events.append(('res', i, m[1], self.progs[i][m[1]], r))
        os.write(self.wfd[i], b'g')
        self.pending[i] = self._recv(i)
        return lab

    def close(self):
        try:
            os.killpg(self.pgid, signal.SIGKILL)
        except OSError:
            pass
        for pid in self.pids:
            try:
                os.kill(pid, signal.SIGKILL)
            except OSError:
                pass
            try:
                os.waitpid(pid, 0)
            except OSError:
                pass
        for fd in self.rfd + self.wfd:
            try:
                os.close(fd)
            except OSError:
                pass
        shutil.rmtree(self.root, ignore_errors=True)


SEG_END = (L_RELC, L_RES)


def drive(run, plan, mode, rng=None, max_steps=4000):
    """ follow `plan` (list of pids; mode 'point': one point per entry,
    'segment': up to the end of the segment, 'random': rng picks), then
    round-robin until everybody has finished.  Returns 'ok' | 'deadlock'. """
    steps = 0

    def go(i):
        nonlocal steps
        steps += 1
        return run.attempt(i)

    def segment(i):
        while True:
            lab = go(i)
            if lab is None or lab == L_BLOCKED or lab in SEG_END or \
                    lab >= 100:
                return

    if mode == 'random':
        cur = None
        while not run.all_done() and steps < max_steps:
            live = [i for i in range(run.n) if not run.done(i)]
            if all(run.blocked(i) for i in live):
                return 'deadlock'
            if cur is None or run.done(cur) or rng.random() < 0.35:
                cur = rng.choice(live)
            if go(cur) == L_BLOCKED:
                cur = None
    else:
        for i in plan:
            if run.all_done():
                break
            if run.done(i):
                continue
            if mode == 'point':
                go(i)
            else:
                segment(i)
    # finish round-robin
    while not run.all_done() and steps < max_steps:
        live = [i for i in range(run.n) if not run.done(i)]
        if all(run.blocked(i) for i in live):
            return 'deadlock'
        for i in live:
            if not run.blocked(i):
                segment(i)
    return 'ok' if run.all_done() else 'too-long'


def scheduled_run(chk, progs, plan, mode, rng=None, commit_points=False,
                  script=None, free=()):
    """ -> dict(progs, trace, events, status, ...) """
    run = None
    res = {'progs': progs, 'mode': mode, 'plan': list(plan or [])}
    try:
        run = Run(chk.work, progs, commit_points, free)
        if script is not None:
            status = script(run)
        else:
            status = drive(run, plan or [], mode, rng)
        res['status'] = status
    except Hang as h:
        res['status'] = 'hang'
        res['hung_process'] = h.args[0]
    finally:
        if run is not None:
            res['trace'] = list(run.trace)
            res['events'] = list(run.events)
            res['fail_texts'] = list(run.fail_texts)
            res['extra'] = list(run.extra)
            res['crashes'] = [(i, m[1]) for i, m in enumerate(run.pending)
                              if m and m[0] == 'crash']
            run.close()
    return res


def free_run(chk, progs, timeout=45):
    """ unscheduled run with real blocking -> list of op dicts or error """
    root = tempfile.mkdtemp(prefix='c19free_', dir=chk.work)
    pids, fds = [], []
    start_at = time.monotonic_ns() + 60_000_000
    pgid = 0
    try:
        for i, prog in enumerate(progs):
            r, w = os.pipe()
            pid = os.fork()
            if pid == 0:
                try:
                    os.setpgid(0, pgid)
                except OSError:
                    pass
                os.close(r)
                _free_child(w, root, prog, start_at)
                os._exit(0)
            if i == 0:
                pgid = pid
            try:
                os.setpgid(pid, pgid)
            except OSError:
                pass
            os.close(w)
            pids.append(pid)
            fds.append(r)
        ops, err = [], None
        deadline = time.time() + timeout
        for i, fd in enumerate(fds):
            buf = b''
            while b'\n' not in buf:
                left = deadline - time.time()
                rr = select.select([fd], [], [], max(left, 0))[0] \
                    if left > 0 else []
                if not rr:
                    err = ('hang', i)
                    break
                chunk = os.read(fd, 1 << 20)
                if not chunk:
                    err = ('crash', i, 'pipe closed')
                    break
                buf += chunk
            if err:
                break
            data = json.loads(buf.split(b'\n', 1)[0])
            if isinstance(data, dict):
                err = ('crash', i, data['crash'])
                break
            for (j, t0, t1, r) in data:
                ops.append({'p': i, 'i': j, 'op': progs[i][j], 'inv': t0,
                            'res': t1, 'r': r})
        return ops, err
    finally:
        if pgid:
            try:
                os.killpg(pgid, signal.SIGKILL)
            except OSError:
                pass
        for pid in pids:
            try:
                os.kill(pid, signal.SIGKILL)
            except OSError:
                pass
            try:
                os.waitpid(pid, 0)
            except OSError:
                pass
        for fd in fds:
            try:
                os.close(fd)
            except OSError:
                pass
        shutil.rmtree(root, ignore_errors=True)


def ops_to_events(ops):
    """ time-stamped operations -> chronological events; at equal times an
    invocation goes first (more overlap = more permissive) """
    evs = []
    for o in ops:
        evs.append((o['inv'], 0, ('inv', o['p'], o['i'], o['op'])))
        evs.append((o['res'], 1, ('res', o['p'], o['i'], o['op'],
                                  canon(o['r']))))
    evs.sort(key=lambda x: (x[0], x[1]))
    return [e[2] for e in evs]


# ----------------------------------------------------------------- the check
PRE = """From SK Require Import Model.Skel Spec.Cache Model.Cache Gen.Skeleton.
Definition gsk : skels :=
  Build_skels sk_cache_get sk_cache_set sk_cache_bulk_set sk_cache_unset
              sk_cache_base_path.
Definition M : compiler := compile gsk false.
Definition res_jv (r : res) : jv :=
  match r with
  | RAck => JL [JZ 0]
  | RVal None => JL [JZ 1]
  | RVal (Some v) => JL [JZ 1; JZ v]
  | RFail => JL [JZ 2]
  end.
Definition resp_jv (x : nat * nat * res) : jv :=
  let '(p, i, r) := x in JL [JZ (Z.of_nat p); JZ (Z.of_nat i); res_jv r].
Definition run_seq_model (prog : list op) : jv :=
  JL (map (fun x => res_jv (snd x))
          (responses (run_solo M 4000 (init [prog]) 0))).
Definition run_seq_spec (prog : list op) : jv :=
  JL (map res_jv (seq_results empty prog)).
Definition run_sched (c : list (list op) * list Z) : jv :=
  let '(progs, sched) := c in
  let '(labs, s) := mrun M (init progs) (map Z.to_nat sched) in
  JL [JZs labs; JL (map resp_jv (responses s));
      JB (lin_ok (rev (erase (hist s))))].
Definition run_lin (h : list hev) : jv := JB (lin_ok h).
"""


# regression corpus: D7 (unset must remove the value and not raise; key '0'
# is the one key for which the pinned `del db[key]` happened to work),
# unset of a never-set key, overwrite, bulk_set then single unset
FIXED_SEQ = [
    [('set', 1, 5), ('unset', 1), ('get', 1)],
    [('set', 0, 5), ('unset', 0), ('get', 0), ('unset', 0)],
    [('unset', 2), ('get', 2), ('set', 2, 3), ('get', 2)],
    [('set', 1, 5), ('set', 1, 6), ('get', 1), ('get', 2)],
    [('bulk', [(1, 4), (2, 5)]), ('unset', 1), ('get', 1), ('get', 2),
     ('bulk', []), ('get', 2)],
    # falsy values are values: get returns them, unset removes them
    [('set', 1, 0), ('get', 1), ('unset', 1), ('get', 1)],
    [('set', 1, 10), ('get', 1), ('unset', 1), ('get', 1)],
    [('bulk', [(1, 11), (2, 12)]), ('get', 1), ('get', 2), ('unset', 1),
     ('unset', 2), ('get', 1), ('get', 2)],
    # a key and a key that extends it with '.1': unset of one must not touch
    # the other (either way round)
    [('set', 1, 5), ('set', 2, 6), ('unset', 1), ('get', 2), ('get', 1),
     ('unset', 2), ('get', 2)],
    [('bulk', [(2, 4), (1, 3)]), ('unset', 2), ('get', 1), ('unset', 1),
     ('set', 2, 8), ('unset', 1), ('get', 2)],
    # writing the same value again after it was removed / replaced
    [('set', 1, 5), ('unset', 1), ('set', 1, 5), ('get', 1)],
    [('set', 1, 5), ('set', 1, 6), ('set', 1, 5), ('get', 1),
     ('bulk', [(1, 5)]), ('get', 1)],
]


def _lookalike_prog(a, b):
    """ every way the two keys could leak into each other """
    return [('get', a), ('get', b), ('set', a, 1), ('get', b), ('set', b, 2),
            ('get', a), ('get', b), ('unset', a), ('get', b), ('get', a),
            ('bulk', [(a, 3), (b, 4)]), ('get', a), ('unset', b), ('get', a),
            ('get', b)]


FIXED_SEQ += [_lookalike_prog(a, b) for a, b in LOOKALIKE] + \
    [_lookalike_prog(b, a) for a, b in LOOKALIKE]


def sequential(chk):
    from searchkit.utils import MPCacheSimple
    rng = chk.rng
    n = 500 if chk.quick else 2000
    progs, wants, texts = [], [], []
    d = tempfile.mkdtemp(prefix='c19seq_', dir=chk.work)
    try:
        for c in range(n):
            nk = rng.choice([1, 2, 3])
            keys = rng.sample([0, 1, 2], nk)
            prog = gen_prog(rng, rng.choice([1, 2, 3, 4, 6, 8, 10]), keys,
                            rng.choice(POOLS))
            if c < len(FIXED_SEQ):
                prog = FIXED_SEQ[c]
            root = os.path.join(d, f"r{c}")
            os.mkdir(root)
            cache = MPCacheSimple('c19', 'verif', root)
            rs = [do_op(cache, o) for o in prog]
            texts.append([r for r in rs if r[0] in (2, 'odd')])
            progs.append(prog)
            wants.append([canon(r) if r[0] != 'odd' else [2] for r in rs])
            shutil.rmtree(root, ignore_errors=True)
    finally:
        shutil.rmtree(d, ignore_errors=True)
    cases = [prog_coq(p) for p in progs]
    mm, e1 = vlib.eval_cases(chk.work, 'seq_model', '', PRE, 'run_seq_model',
                             cases, wants, shard=400)
    ms, e2 = vlib.eval_cases(chk.work, 'seq_spec', '', PRE, 'run_seq_spec',
                             cases, wants, shard=400)
    for e in e1 + e2:
        chk.broken.append({'obligation': 'sequential correspondence (coqc)',
                           'why': e})
    chk.coverage['evaluations'] += n
    nontriv = set()
    for p, w in zip(progs, wants):
        if any(r[:1] == [1] and len(r) == 2 for r in w) and \
                any(o[0] in ('unset', 'bulk') for o in p):
            nontriv.add(prog_coq(p))
    chk.coverage['distinct_nontrivial'] += len(nontriv)
    chk.dist('sequential_programs', n)
    chk.dist('sequential_ops', sum(len(p) for p in progs))
    chk.sample({'sequential_program': progs[0], 'impl_results': wants[0]})
    spec_bad = {i for i, _ in ms}
    for i, v in ms:
        if i < 0:
            chk.broken.append({'obligation': 'sequential spec cases',
                               'why': 'length mismatch'})
            continue
        kind = 'op-raises' if [2] in wants[i] else 'wrong-value'
        chk.violation(f"sequential {kind}",
                      {'program': progs[i], 'impl_results': wants[i],
                       'spec_results': v, 'errors': texts[i],
                       'key_names': {str(k): ascii(n)
                                     for k, n in KEYNAMES.items()}},
                      witness=True)
    for i, v in mm:
        if i in spec_bad or i < 0:
            continue
        chk.violation("sequential model-vs-impl",
                      {'program': progs[i], 'impl_results': wants[i],
                       'model_results': v}, witness=False)


def gen_progs(rng, nproc, nops, keys):
    vals = rng.choice(POOLS)
    progs = []
    for _ in range(nproc):
        progs.append(gen_prog(rng, rng.randint(1, nops), keys, vals))
    return progs


def interleavings(counts):
    """ all sequences containing pid p exactly counts[p] times """
    if all(c == 0 for c in counts):
        yield []
        return
    for p, c in enumerate(counts):
        if c:
            counts[p] -= 1
            for rest in interleavings(counts):
                yield [p] + rest
            counts[p] += 1


EXH_PROGRAMS = [
    ([('set', 1, 5), ('get', 1)], [('get', 1), ('set', 1, 6)], [1]),
    ([('set', 1, 5), ('unset', 1)], [('get', 1), ('get', 1)], [1]),
    ([('bulk', [(1, 5), (2, 6)]), ('get', 2)],
     [('get', 1), ('set', 2, 7)], [1, 2]),
    ([('set', 1, 5), ('get', 2)], [('set', 2, 6), ('get', 1)], [1, 2]),
    ([('unset', 1), ('set', 1, 4)], [('bulk', [(1, 8)]), ('get', 1)], [1]),
    # A-B-A across processes: the same value written again after another
    # process replaced / removed it
    ([('set', 1, 5), ('set', 1, 5)], [('set', 1, 6), ('get', 1)], [1]),
    ([('bulk', [(1, 5), (2, 3)]), ('bulk', [(1, 5), (2, 3)])],
     [('unset', 1), ('get', 1)], [1, 2]),
    # falsy values under contention
    ([('set', 1, 0), ('unset', 1)], [('get', 1), ('get', 1)], [1]),
]
# plans (segment mode, 3 segments per operation) always run for every pair:
# operations alternate between the processes, starting with either
FIXED_PLANS = [[0] * 3 + [1] * 3 + [0] * 3 + [1] * 3,
               [1] * 3 + [0] * 3 + [1] * 3 + [0] * 3,
               [0] * 6 + [1] * 6, [1] * 6 + [0] * 6,
               [0] * 3 + [1] * 6 + [0] * 3]


def plan_runs(chk):
    """ yields (progs, plan, mode, keys) """
    rng = chk.rng
    plans = []
    # segment-exhaustive: 2 processes x 2 operations, 3 segments each
    allint = list(interleavings([6, 6]))
    for (a, b, keys) in EXH_PROGRAMS:
        if chk.quick:
            sel = FIXED_PLANS + rng.sample(allint, 40)
        else:
            sel = allint
        for pl in sel:
            plans.append(([a, b], pl, 'segment', keys))
    # random fine-grained schedules
    nrand = 250 if chk.quick else 600
    for c in range(nrand):
        if chk.quick:
            nproc = rng.choice([2, 2, 3, 3, 4])
            nops = 3
            keys = rng.sample([0, 1, 2], rng.choice([1, 2, 2, 3]))
        else:
            nproc = rng.choice([2, 3, 4, 5, 6, 8, 8])
            nops = 6 if nproc >= 5 else rng.choice([3, 4, 6])
            keys = rng.sample([0, 1, 2], rng.choice([1, 2, 3, 3]))
        plans.append((gen_progs(rng, nproc, nops, keys), None, 'random',
                      keys))
    # point-granular explicit schedules on a tiny program pair
    tiny = [[('set', 1, 5)], [('get', 1)]]
    pts = list(interleavings([4, 4]))
    for pl in (rng.sample(pts, 30) if chk.quick else pts):
        plans.append((tiny, pl, 'point', [1]))
    return plans


def report_history(chk, what, info, ops, keys):
    """ judge a history; returns True when it is fine """
    fails = [o for o in ops if o['r'] is not None and canon(o['r']) == [2]]
    per_key, atomic, badkey = judge(ops, keys)
    if fails:
        chk.violation(f"{what} operation-fails "
                      f"{fails[0]['op'][0]}",
                      dict(info, failed=[(o['p'], o['i'], o['op'], o['r'])
                                         for o in fails]), witness=True)
        return False
    if not per_key:
        chk.violation(f"{what} not-linearizable",
                      dict(info, key=badkey,
                           history=[(o['p'], o['i'], o['op'], o['inv'],
                                     o['res'], o['r']) for o in ops]),
                      witness=True)
        return False
    if not atomic:
        chk.violation(f"{what} bulk_set-not-atomic-across-keys",
                      dict(info, note="every key is a correct register, "
                           "but no order makes bulk_set atomic (stronger "
                           "than the stated property)",
                           history=[(o['p'], o['i'], o['op'], o['inv'],
                                     o['res'], o['r']) for o in ops]),
                      witness=False)
        return False
    return True


def scheduled(chk):
    plans = plan_runs(chk)
    cases, wants, meta = [], [], []
    hcases, hwants = [], []
    blocked_steps = 0
    for (progs, plan, mode, keys) in plans:
        r = scheduled_run(chk, progs, plan, mode, chk.rng)
        chk.coverage['evaluations'] += 1
        chk.dist(f"scheduled_{mode}", 1)
        chk.dist(f"scheduled_procs_{len(progs)}", 1)
        info = {'programs': progs, 'mode': mode, 'plan': plan,
                'schedule': r.get('trace'), 'status': r['status'],
                'errors': r.get('fail_texts'), 'crashes': r.get('crashes')}
        if r['status'] != 'ok' or r.get('crashes'):
            chk.violation(f"scheduled {r['status']}"
                          + (" crash" if r.get('crashes') else ""),
                          dict(info, history=r.get('events')), witness=True)
            continue
        ops = events_to_ops(r['events'])
        ok = report_history(chk, 'scheduled', info, ops, keys)
        nb = sum(1 for _, lab in r['trace'] if lab == L_BLOCKED)
        blocked_steps += nb
        if nb and len({o['op'][0] for o in ops}) >= 2:
            chk.coverage['distinct_nontrivial'] += 1
        if r.get('extra'):
            chk.violation("scheduled acquire-timeout",
                          dict(info, extra=r['extra']), witness=False)
        resp = [[e[1], e[2], e[4]] for e in r['events'] if e[0] == 'res']
        cases.append("(" + "[" + "; ".join(prog_coq(p) for p in progs) + "], "
                     + vlib.zl([p for p, _ in r['trace']]) + ")")
        wants.append([[lab for _, lab in r['trace']], resp, True])
        meta.append(info)
        hcases.append(hist_coq(r['events']))
        hwants.append(ok)
        chk.sample({'scheduled_programs': progs,
                    'trace': r['trace'][:60], 'history': r['events']},
                   limit=4)
    chk.dist('blocked_attempts', blocked_steps)
    mm, e1 = vlib.eval_cases(chk.work, 'sched', '', PRE, 'run_sched', cases,
                             wants, shard=40)
    mh, e2 = vlib.eval_cases(chk.work, 'schedlin', '', PRE, 'run_lin',
                             hcases, hwants, shard=60)
    for e in e1 + e2:
        chk.broken.append({'obligation': 'scheduled correspondence (coqc)',
                           'why': e})
    chk.coverage['traces_validated_against_impl'] += len(cases) - len(mm)
    for i, v in mm:
        if i < 0:
            chk.broken.append({'obligation': 'scheduled cases',
                               'why': 'length mismatch'})
            continue
        why = 'trace'
        if isinstance(v, list) and len(v) == 3:
            if v[0] != wants[i][0]:
                # did somebody proceed where the model says wait (or v.v.)?
                pairs = list(zip(v[0], wants[i][0]))
                if any((a == L_BLOCKED) != (b == L_BLOCKED)
                       for a, b in pairs):
                    why = 'blocking'
            elif v[1] != wants[i][1]:
                why = 'values'
            elif v[2] != 1:
                why = 'model-history-not-linearizable'
        chk.violation(f"scheduled model-vs-impl {why}",
                      dict(meta[i], impl=wants[i], model=v), witness=False)
    for i, v in mh:
        if i < 0:
            continue
        chk.broken.append({'obligation': 'linearizability checkers agree',
                           'why': f"python says {hwants[i]}, Spec.Cache."
                                  f"lin_ok says {v} on {hcases[i]}"})


def commit_probe(chk):
    """ park a writer between the two halves of dbm.dumb's commit and let a
    reader go for the same key: it must wait (and then see the new value) """
    shapes = [
        ([[('set', 1, 5), ('set', 1, 6)], [('get', 1)]], [1]),
        ([[('set', 1, 5), ('bulk', [(1, 6), (2, 7)])], [('get', 1)]], [1, 2]),
        ([[('bulk', [(1, 5)]), ('set', 1, 6)], [('get', 1), ('get', 1)]],
         [1]),
        # bulk_set parked in the commit of one of its keys while another
        # process works on that key with single-key operations
        ([[('bulk', [(1, 5), (2, 4)]), ('bulk', [(1, 6), (2, 7)]),
           ('get', 1)], [('get', 1), ('get', 1), ('get', 2)]], [1, 2]),
        ([[('set', 1, 5), ('bulk', [(1, 6), (2, 7)]), ('get', 1)],
          [('unset', 1), ('get', 1)]], [1, 2]),
        ([[('set', 1, 5), ('bulk', [(1, 6), (2, 7)]), ('get', 1)],
          [('set', 1, 9), ('get', 1)]], [1, 2]),
        ([[('set', 2, 5), ('bulk', [(2, 6), (1, 7)]), ('get', 2)],
          [('get', 2), ('unset', 2), ('get', 2)]], [1, 2]),
    ]
    for progs, keys in shapes:
        state = {'parked': False, 'reader_blocked': 0, 'reader_moved': 0}

        def script(run, state=state):
            # writer: first operation completely
            guard = 0
            while not (run.pending[0][0] == 'inv' and run.pending[0][1] == 1):
                if run.attempt(0) is None:
                    return 'writer-finished-early'
                guard += 1
                if guard > 200:
                    return 'too-long'
            # second operation up to the first commit point
            while run.pending[0][0] != 'commit':
                if run.done(0):
                    return 'ok-no-commit-point'
                run.attempt(0)
                guard += 1
                if guard > 400:
                    return 'too-long'
            state['parked'] = True
            # the reader tries as hard as it can
            for _ in range(40):
                if run.done(1):
                    break
                lab = run.attempt(1)
                if lab == L_BLOCKED:
                    state['reader_blocked'] += 1
                    if state['reader_blocked'] >= 3:
                        break
                else:
                    state['reader_moved'] += 1
            return drive(run, [], 'segment')

        r = scheduled_run(chk, progs, None, 'probe', commit_points=True,
                          script=script)
        chk.coverage['evaluations'] += 1
        chk.dist('commit_probes', 1)
        info = {'programs': progs, 'mode': 'commit-probe',
                'schedule': r.get('trace'), 'status': r['status'],
                'probe': dict(state), 'errors': r.get('fail_texts'),
                'crashes': r.get('crashes')}
        if r['status'] not in ('ok',) or r.get('crashes'):
            if r['status'] == 'ok-no-commit-point':
                chk.notes.append("commit probe: the backend never renamed "
                                 "its index (not dbm.dumb?) - probe skipped")
                continue
            chk.violation(f"probe {r['status']}",
                          dict(info, history=r.get('events')), witness=True)
            continue
        ops = events_to_ops(r['events'])
        if report_history(chk, 'commit-probe', info, ops, keys):
            if state['parked'] and state['reader_blocked']:
                chk.coverage['distinct_nontrivial'] += 1
                chk.coverage['traces_validated_against_impl'] += 1
            elif state['parked']:
                chk.violation("probe reader-not-blocked-during-commit",
                              info, witness=False)

def _finish_free(run, i):
    """ let a free-running child run to completion """
    guard = 0
    while not run.done(i):
        if run.pending[i][0] == 'running':
            run.pending[i] = run._recv(i)
        else:
            run.grant_only(i)
            run.pending[i] = run._recv(i)
        guard += 1
        if guard > 200:
            return 'too-long'
    return 'ok'


def park_probe(chk):
    """ a writer is parked INSIDE its critical section (the scheduler simply
    does not grant its next step) for longer than any sensible lock timeout
    while a free-running reader (real blocking) gets a key that IS set: the
    reader must wait and then return a written value, never None """
    park = 1.6
    shapes = [
        ([[('set', 1, 5), ('set', 1, 6)], [('get', 1)]], [1]),
        ([[('set', 1, 5), ('bulk', [(2, 7), (1, 6)])],
          [('get', 1), ('get', 2)]], [1, 2]),
    ]
    for progs, keys in shapes:
        state = {'parked_holding': None, 'reader_answered_while_parked': None}

        def script(run, state=state):
            guard = 0
            while not (run.pending[0][0] == 'inv' and run.pending[0][1] == 1):
                if run.attempt(0) is None:
                    return 'writer-finished-early'
                guard += 1
                if guard > 200:
                    return 'too-long'
            while run.pending[0][0] not in ('write', 'done', 'crash'):
                run.attempt(0)
                guard += 1
                if guard > 400:
                    return 'too-long'
            state['parked_holding'] = sorted(
                k for k, v in run.owner.items() if v == 0)
            run.grant_only(1)                     # the reader's invocation
            m = run.poll(1, park)
            state['reader_answered_while_parked'] = m is not None
            if m is not None:
                run.pending[1] = m
                if m[0] == 'res':
                    run.grant_only(1)             # recorded before the writer
            while not run.done(0):                # moves on
                run.attempt(0)
                guard += 1
                if guard > 800:
                    return 'too-long'
            return _finish_free(run, 1)

        r = scheduled_run(chk, progs, None, 'park-probe', script=script,
                          free=(1,))
        chk.coverage['evaluations'] += 1
        chk.dist('park_probes', 1)
        info = {'programs': progs, 'mode': 'park-probe (reader free-running, '
                f'writer parked {park}s inside its critical section)',
                'schedule': r.get('trace'), 'status': r['status'],
                'probe': dict(state), 'errors': r.get('fail_texts'),
                'crashes': r.get('crashes')}
        if r['status'] != 'ok' or r.get('crashes'):
            chk.violation(f"park-probe {r['status']}",
                          dict(info, history=r.get('events')), witness=True)
            continue
        ops = events_to_ops(r['events'])
        if report_history(chk, 'park-probe', info, ops, keys):
            if state['reader_answered_while_parked']:
                chk.violation("park-probe reader-not-blocked", info,
                              witness=False)
            else:
                chk.coverage['distinct_nontrivial'] += 1


def fault_probe(chk):
    """ an operation that RAISES inside its critical section (set/bulk_set of
    a value that cannot be pickled - the caller's fault, it may fail) must
    leave nothing behind: while the faulty process is alive and idle between
    two operations, a free-running process (real blocking) must complete its
    operations promptly, and the register must be unaffected """
    wait = 3.0
    shapes = [
        ([[('set', 1, 5), ('set', 1, BAD), ('get', 1)],
          [('get', 1), ('set', 1, 7), ('get', 1)]], [1]),
        ([[('bulk', [(1, 5), (2, 6)]), ('bulk', [(2, BAD)]), ('get', 2)],
          [('get', 2), ('unset', 2), ('get', 1)]], [1, 2]),
    ]
    for progs, keys in shapes:
        state = {'locks_still_held_by_idle_process': None,
                 'other_process_blocked': None}

        def script(run, state=state):
            guard = 0
            while not (run.pending[0][0] == 'inv' and run.pending[0][1] == 2):
                if run.attempt(0) is None:
                    return 'faulty-process-finished-early'
                guard += 1
                if guard > 400:
                    return 'too-long'
            state['locks_still_held_by_idle_process'] = sorted(
                k for k, v in run.owner.items() if v == 0)
            run.grant_only(1)
            m = run.poll(1, wait)
            state['other_process_blocked'] = m is None
            if m is None:
                return 'operation-blocks-after-failed-operation'
            run.pending[1] = m
            st = _finish_free(run, 1)
            if st != 'ok':
                return st
            while not run.done(0):
                run.attempt(0)
                guard += 1
                if guard > 800:
                    return 'too-long'
            return _finish_free(run, 1)

        r = scheduled_run(chk, progs, None, 'fault-probe', script=script,
                          free=(1,))
        chk.coverage['evaluations'] += 1
        chk.dist('fault_probes', 1)
        info = {'programs': progs, 'mode': 'fault-probe (value 15 cannot be '
                'pickled; process 1 free-running)',
                'schedule': r.get('trace'), 'status': r['status'],
                'probe': dict(state), 'errors': r.get('fail_texts'),
                'crashes': r.get('crashes'), 'history': r.get('events')}
        if r['status'] != 'ok' or r.get('crashes'):
            if state['other_process_blocked']:
                info['note'] = (
                    f"process 1's first operation did not return within "
                    f"{wait}s although process 0 was idle between two "
                    "operations (its previous operation had raised)")
            chk.violation(f"fault-probe {r['status']}", info, witness=True)
            continue
        ops = events_to_ops(r['events'])
        bad = [o for o in ops if BAD in (
            [o['op'][2]] if o['op'][0] == 'set' else
            [v for _, v in o['op'][1]] if o['op'][0] == 'bulk' else [])]
        if any(canon(o['r']) != [2] for o in bad):
            chk.violation("fault-probe unpicklable-value-accepted", info,
                          witness=False)
            continue
        rest = [o for o in ops if o not in bad]
        if report_history(chk, 'fault-probe', info, rest, keys):
            chk.coverage['distinct_nontrivial'] += 1


CROSS_SCRIPT = r"""
import sys, json, logging
sys.path.insert(0, sys.argv[1])
logging.disable(logging.CRITICAL)
from searchkit.utils import MPCacheSimple
c = MPCacheSimple('c19', 'verif', sys.argv[2])
out = []
for op in json.loads(sys.argv[3]):
    try:
        if op[0] == 'set':
            c.set(op[1], op[2]); out.append([0])
        elif op[0] == 'unset':
            c.unset(op[1]); out.append([0])
        elif op[0] == 'bulk':
            c.bulk_set({k: v for k, v in op[1]}); out.append([0])
        else:
            v = c.get(op[1])
            out.append([1] if v is None else
                       ([1, v] if type(v) is int else ['odd', repr(v)]))
    except BaseException as exc:
        out.append([2, type(exc).__name__ + ': ' + str(exc)[:200]])
print(json.dumps(out))
"""


def cross_interpreter(chk):
    """ independently STARTED interpreters (subprocess, different str-hash
    seeds) use the same global path one after the other: they must see one
    register.  Judged by the sequential register spec. """
    import subprocess
    import sys
    stages = [
        ('101', [('set', 1, 5), ('bulk', [(2, 6), (0, 0)]), ('get', 1)]),
        ('202', [('get', 1), ('get', 2), ('get', 0), ('unset', 1),
                 ('set', 2, 7), ('get', 1)]),
        (None, [('get', 1), ('get', 2), ('get', 0), ('unset', 0),
                ('get', 0), ('set', 1, 3)]),
        ('101', [('get', 2), ('get', 0), ('get', 1)]),
    ]
    def named(o):
        if o[0] == 'bulk':
            return ['bulk', [[keyname(k), v] for k, v in o[1]]]
        return [o[0], keyname(o[1])] + list(o[2:])
    root = tempfile.mkdtemp(prefix='c19x_', dir=chk.work)
    got, detail = [], []
    try:
        for seed, prog in stages:
            env = dict(os.environ)
            env.pop('PYTHONHASHSEED', None)
            if seed is not None:
                env['PYTHONHASHSEED'] = seed
            try:
                p = subprocess.run(
                    [sys.executable, '-c', CROSS_SCRIPT, vlib.REPO, root,
                     json.dumps([named(o) for o in prog])], env=env,
                    timeout=60,
                    stdout=subprocess.PIPE, stderr=subprocess.PIPE,
                    text=True, start_new_session=True)
                rs = json.loads(p.stdout.strip().splitlines()[-1])
            except (subprocess.TimeoutExpired, ValueError, IndexError) as exc:
                rs = [[2, f"interpreter failed: {exc}"[:200]]] * len(prog)
            got += rs
            detail.append({'PYTHONHASHSEED': seed, 'program': prog,
                           'results': rs})
    finally:
        shutil.rmtree(root, ignore_errors=True)
    whole = [o for _, prog in stages for o in prog]
    st, want = {}, []
    for o in whole:
        want.append(spec_res(o, st))
        st = spec_apply(o, st)
    chk.coverage['evaluations'] += 1
    chk.dist('cross_interpreter_ops', len(whole))
    if [canon(r) for r in got] != want:
        kind = 'op-raises' if any(r[:1] == [2] for r in got) else \
            'wrong-value'
        chk.violation(f"cross-interpreter {kind}",
                      {'stages': detail, 'spec_results': want,
                       'note': 'interpreters started one after the other '
                               'with different str-hash seeds'},
                      witness=True)
    else:
        chk.coverage['distinct_nontrivial'] += 1
    # the same concatenated program through the Coq spec
    mm, errs = vlib.eval_cases(chk.work, 'cross_spec', '', PRE,
                               'run_seq_spec', [prog_coq(whole)],
                               [[canon(r) if r[0] != 'odd' else [2]
                                 for r in got]], shard=10)
    for e in errs:
        chk.broken.append({'obligation': 'cross-interpreter (coqc)',
                           'why': e})
    if mm and [canon(r) for r in got] == want:
        chk.broken.append({'obligation': 'python and Coq register specs '
                           'agree', 'why': str(mm)})


def stress(chk):
    rng = chk.rng
    cfgs = [(3, 4), (4, 5), (6, 4), (8, 3)] if chk.quick else \
        [(2, 6), (3, 6), (4, 6), (5, 6), (6, 6), (8, 6), (8, 6), (8, 4),
         (4, 8), (6, 5)]
    hcases, hwants = [], []
    for nproc, nops in cfgs:
        keys = rng.sample([0, 1, 2], rng.choice([1, 2, 3]))
        pool = rng.choice(POOLS)
        progs = [gen_prog(rng, nops, keys, pool) for _ in range(nproc)]
        ops, err = free_run(chk, progs)
        chk.coverage['evaluations'] += 1
        chk.dist('stress_runs', 1)
        info = {'programs': progs, 'mode': 'free-running'}
        if err:
            chk.violation(f"stress {err[0]}", dict(info, error=err),
                          witness=True)
            break
        overl = sum(1 for a in ops for b in ops
                    if a['p'] < b['p'] and a['inv'] < b['res']
                    and b['inv'] < a['res'])
        chk.dist('stress_overlapping_pairs', overl)
        ok = report_history(chk, 'stress', info, ops, keys)
        if overl:
            chk.coverage['distinct_nontrivial'] += 1
        if len(ops) <= 40:
            hcases.append(hist_coq(ops_to_events(ops)))
            hwants.append(ok)
    if hcases:
        mh, errs = vlib.eval_cases(chk.work, 'stresslin', '', PRE, 'run_lin',
                                   hcases, hwants, shard=4)
        for e in errs:
            chk.broken.append({'obligation': 'stress histories (coqc)',
                               'why': e})
        for i, v in mh:
            if i >= 0:
                chk.broken.append(
                    {'obligation': 'linearizability checkers agree',
                     'why': f"python says {hwants[i]}, Spec.Cache.lin_ok "
                            f"says {v} on {hcases[i]}"})


def backend_note(chk):
    """ what `except dbm.gnu.error` in get() would do here """
    import dbm
    has = hasattr(dbm, 'gnu')
    chk.dist('dbm_gnu_present', 1 if has else 0)
    if not has:
        chk.notes.append(
            "dbm.gnu is absent here: if shelve.open ever raised inside "
            "MPCacheSimple.get, evaluating `except dbm.gnu.error` would "
            "itself raise AttributeError (no retry); under the cache lock "
            "no such exception was ever observed")


def run(chk):
    chk.prove(PROPS)
    chk.coverage['rule'] = (
        "sequential: random programs of 1-10 set/bulk_set/get/unset on 1-3 "
        "keys, real MPCacheSimple vs model vs register spec in Coq "
        "(non-trivial = a get returns a stored value and the program has an "
        "unset or bulk_set); scheduled: forked processes stepped by the "
        "parent at lock/open/access/close/invoke/respond points under "
        "segment-exhaustive, point-exhaustive and random schedules, trace "
        "and values vs the model's mrun, history vs python and Coq "
        "linearizability checkers (non-trivial = some process had to wait "
        "for a lock and >= 2 kinds of operation); commit probe; "
        "fault probe (an operation raises inside its critical section, "
        "the process stays alive, another process must not be blocked); "
        "park probe (writer held inside its critical section 1.6 s, reader "
        "free-running); cross-interpreter sequential run (subprocesses with "
        "different PYTHONHASHSEED); "
        "free-running stress with monotonic timestamps (non-trivial = "
        "operations of different processes overlapped in time)")
    backend_note(chk)
    sequential(chk)
    scheduled(chk)
    commit_probe(chk)
    park_probe(chk)
    fault_probe(chk)
    cross_interpreter(chk)
    stress(chk)
    chk.assumptions += [
        "fcntl locks taken through fasteners.InterProcessLock exclude each "
        "other between processes (observed in every run, not proved)",
        "dbm.dumb, used by one process at a time, stores and returns "
        "values as the two-step-commit file abstraction of Model/Cache.v "
        "(checked by the sequential correspondence)",
        "the OS scheduler is fair: with no_deadlock and finite operations "
        "no process waits for ever",
        "time.monotonic_ns() is one system-wide clock (stress runs only)",
        "values are drawn from 15 ==-classes (ints 0-9, '', [], False, 'x', "
        "[1]); pickling of richer values is shelve's"]


def replay(chk, path):
    """ re-run the programs (and the schedule, if any) of a replay file """
    with open(path, encoding='utf-8') as f:
        rep = json.load(f)
    w = rep.get('witness') or {}
    progs = w.get('programs') or ([w['program']] if 'program' in w else None)
    if not progs:
        print("replay: no programs in", path)
        return 2

    def tup(o):
        if o[0] == 'bulk':
            return ('bulk', [tuple(kv) for kv in o[1]])
        return tuple(o)
    progs = [[tup(o) for o in p] for p in progs]
    keys = sorted({k for p in progs for o in p
                   for k in ([kv[0] for kv in o[1]] if o[0] == 'bulk'
                             else [o[1]])})
    if w.get('mode') == 'free-running':
        ops, err = free_run(chk, progs)
        if err:
            chk.violation(f"stress {err[0]}", {'programs': progs,
                                               'error': err}, witness=True)
        else:
            report_history(chk, 'stress', {'programs': progs}, ops, keys)
    else:
        plan = [p for p, _ in (w.get('schedule') or [])]
        r = scheduled_run(chk, progs, plan, 'point')
        info = {'programs': progs, 'schedule': r.get('trace'),
                'status': r['status']}
        if r['status'] != 'ok' or r.get('crashes'):
            chk.violation(f"scheduled {r['status']}",
                          dict(info, history=r.get('events')), witness=True)
        else:
            report_history(chk, 'scheduled', info,
                           events_to_ops(r['events']), keys)
    return chk.finish()
