"""C09 - path registration searches exactly the denoted files, capped by
logrotate depth.

Theorems: Props/C09.v over Model/Catalog.v (string-level matchers of the four
fixed regexes tied to the source strings, _filtered_dir, _expand_path,
register, task-level de-duplication) and Spec/Catalog.v (relation `kept`).
T2:
 (1) the matchers vs Python `re` (with the regex strings extracted from the
     source) on 10^4 generated names, evaluated inside Coq;
 (2) real temp directories x file / directory / glob registration x
     overlapping registrations x depth 0..9: FileSearcher.files, the
     searches of every catalog entry and the task-level de-duplication vs
     the model (listing order and isfile answers are inputs), and the spec
     relation `kept` evaluated directly on the implementation's answer;
 (3) a hostile stream (x.login, x.logs, x.log.tar.gz, x.log.1.g, '.log' in
     directory names, whitespace in directory names): the repaired code must
     satisfy the spec there too (regression of D9 = witness);
 (4) real run()s: every catalog file is executed once and every search
     reports each matching line once, however often it was registered.
"""
import glob as globmod
import gzip
import json
import os
import re
import shutil
import signal
import time
import traceback

import vlib

PROPS = ['Props/C09.v']


def cps(s):
    return [ord(c) for c in s]


def S(s):
    return vlib.zl(cps(s))


# ------------------------------------------------------------ spec oracle
def rotated(p):
    """ (stem, N) if p = stem.log.N or stem.log.N.gz (plain string ops) """
    t = p[:-3] if p.endswith('.gz') else p
    i = len(t)
    while i > 0 and t[i - 1] in '0123456789':
        i -= 1
    digits, rest = t[i:], t[:i]
    if not digits or not rest.endswith('.log.') or len(rest) <= 5:
        return None
    return rest[:-5], int(digits)


def check_kept(files, depth, kept):
    """ the relation Spec/Catalog.v `kept`, on python lists; returns the
    list of violated clauses """
    bad = []
    fset, kset = set(files), set(kept)
    for x in kept:
        if x not in fset:
            bad.append(('not-denoted-file-searched', x))
    if len(kset) != len(kept):
        bad.append(('duplicate-file', sorted(x for x in kset
                                            if kept.count(x) > 1)))
    for x in files:
        if rotated(x) is None and x not in kset:
            bad.append(('ordinary-file-dropped', x))
    stems = {}
    for x in files:
        r = rotated(x)
        if r:
            stems.setdefault(r[0], []).append((r[1], x))
    for stem, copies in stems.items():
        k = [(n, x) for n, x in copies if x in kset]
        if len(k) != min(depth, len(copies)):
            bad.append(('rotated-count', {'stem': stem, 'kept': len(k),
                                          'copies': len(copies),
                                          'depth': depth}))
        dropped = [(n, x) for n, x in copies if x not in kset]
        if k and dropped and max(n for n, _ in k) > min(n for n, _ in
                                                        dropped):
            bad.append(('rotated-not-lowest', {'stem': stem,
                                               'kept': sorted(k),
                                               'dropped': sorted(dropped)}))
    return bad


HOSTILE_SUFFIX = ('.login', '.logs', '.log.tar.gz', '.log.1.g', '.log.2.g',
                  '.log.old', '.log.1.gz.bak', '.log-2024', '.logrotate')


def hostile_kind(path, base):
    rel = os.path.relpath(path, base)
    d, n = os.path.split(rel)
    if any(n.endswith(s) for s in HOSTILE_SUFFIX):
        if re.search(r'\.log\.\d+\.g$', n):
            return 'gz-typo'
        return 'name'
    if ' ' in d or '\t' in d:
        return 'whitespace-dir'
    if '.log' in d:
        return 'dir-component'
    return None


# -------------------------------------------------------------- generators
STEMS = ['app', 'sys.d', 'a-b', 'x.y.z', 'kern', 'db_1', 'x']
PLAIN = ['notes.txt', 'README', 'data.json', 'a.b.c', 'log', 'catalog',
         'mylog.txt', 'x.gz', '7', 'app.lo']
# names containing glob metacharacters (an exact-path registration must not
# be interpreted as a pattern)
META = ['a[1].log', 'q?.txt', 'x[ab].log.2', 'star*.log', 'x[ab].log.3.gz',
        'a1.log', 'b[!c].txt', '[x].log.1']


def gen_population(rng, hostile=False):
    """ returns (dirname, {name: 'f'|'d'}) """
    names = {}
    for stem in rng.sample(STEMS, rng.randint(1, 4)):
        if rng.random() < 0.8:
            names[stem + '.log'] = 'f'
        style = rng.random()
        if style < 0.3:
            ns = list(range(1, rng.randint(2, 12)))
        elif style < 0.6:
            ns = rng.sample([1, 2, 3, 5, 8, 9, 10, 11, 12, 20, 99, 100, 101,
                             1000], rng.randint(1, 8))
        elif style < 0.8:
            ns = [9, 10, 11, 100][:rng.randint(1, 4)]
        else:
            ns = []
        for n in ns:
            form = rng.random()
            num = str(n) if rng.random() < 0.9 else '0' + str(n)
            if form < 0.45:
                names[f"{stem}.log.{num}"] = 'f'
            elif form < 0.85:
                names[f"{stem}.log.{num}.gz"] = 'f'
            else:                               # a .gz / plain tie
                names[f"{stem}.log.{num}"] = 'f'
                names[f"{stem}.log.{num}.gz"] = 'f'
    for n in rng.sample(PLAIN, rng.randint(0, 4)):
        names[n] = 'f'
    if rng.random() < 0.35:
        for n in rng.sample(META, rng.randint(1, 4)):
            names[n] = 'f'
    if rng.random() < 0.6:
        names['sub'] = 'd'
    if rng.random() < 0.5:                      # named like a rotated copy
        names[rng.choice(STEMS) + '.log.1'] = 'd'
    if rng.random() < 0.2:
        names['dir.log'] = 'd'
    dirname = 'p%d' % rng.randrange(10 ** 6)
    if hostile:
        for stem in rng.sample(STEMS, rng.randint(1, 3)):
            for sfx in rng.sample(HOSTILE_SUFFIX, rng.randint(1, 4)):
                names[stem + sfx] = 'f'
        names['x.login'] = 'f'
        k = rng.random()
        if k < 0.25:
            dirname = 'app.logs'
        elif k < 0.4:
            dirname = 'd.log.3'
        elif k < 0.6:
            dirname = 'my.logs and more'
        elif k < 0.7:
            dirname = 'with space'
    return dirname, names


def materialise(base, dirname, names, with_content=False, rng=None):
    d = os.path.join(base, dirname)
    if os.path.exists(d):
        shutil.rmtree(d)
    os.makedirs(d)
    contents = {}
    for n, k in names.items():
        p = os.path.join(d, n)
        if k == 'd':
            os.makedirs(p)
            with open(os.path.join(p, 'inner.log'), 'w') as f:
                f.write('hello 0\n')
            continue
        text = ''
        if with_content:
            lines = []
            for _ in range(rng.randint(0, 12)):
                lines.append(rng.choice(['hello %d' % rng.randint(0, 99),
                                         'world', 'other', 'hello world']))
            text = ''.join(x + '\n' for x in lines)
        contents[p] = text
        if n.endswith('.gz') and with_content and text:
            with gzip.open(p, 'wb') as f:
                f.write(text.encode())
        else:
            with open(p, 'w') as f:
                f.write(text)
    return d, contents


def gen_ops(rng, d, names, nsearch):
    """ a list of (search index, form, argument) """
    files = [n for n, k in names.items() if k == 'f']
    ops = []
    for _ in range(rng.randint(1, 4)):
        s = rng.randrange(nsearch)
        k = rng.random()
        if k < 0.3:
            ops.append((s, 'dir', d + ('/' if rng.random() < 0.2 else '')))
        elif k < 0.65:
            pat = rng.choice(['*', '*', '*.log*', '*.log', '*.log.*',
                              rng.choice(STEMS) + '*', '*.gz', '*.txt',
                              'nomatch*'])
            ops.append((s, 'glob', os.path.join(d, pat)))
        elif files:
            meta = [n for n in files if any(c in n for c in '[]?*')]
            pick = rng.choice(meta) if meta and rng.random() < 0.5 \
                else rng.choice(files)
            ops.append((s, 'file', os.path.join(d, pick)))
        else:
            ops.append((s, 'glob', os.path.join(d, 'missing.log')))
    return ops


def listing_of(form, arg):
    """ what the file system answers for this registration: a Coq target and
    the regular files it denotes (in listing order) """
    if form == 'file' and os.path.isfile(arg):
        return f"TFile {S(arg)}", [arg], 'file'
    if os.path.isdir(arg):
        ns = os.listdir(arg)
        tgt = ("TDir " + S(arg) + " ["
               + "; ".join(f"({S(n)}, "
                           f"{'true' if os.path.isfile(os.path.join(arg, n)) else 'false'})"
                           for n in ns) + "]")
        return tgt, [os.path.join(arg, n) for n in ns
                     if os.path.isfile(os.path.join(arg, n))], 'dir'
    ms = globmod.glob(arg)
    tgt = ("TGlob [" + "; ".join(
        f"({S(m)}, {'true' if os.path.isfile(m) else 'false'})"
        for m in ms) + "]")
    return tgt, [m for m in ms if os.path.isfile(m)], 'glob'


def observe(rng, base, dirname, names, depth, hostile):
    """ one case: register ops on a real FileSearcher, compare-ready data """
    from searchkit import FileSearcher, SearchDef
    from searchkit.task import SearchTask
    d, _ = materialise(base, dirname, names)
    nsearch = 3
    sds = [SearchDef(r'hello (\d+)', tag='h'), SearchDef(r'world', tag='w'),
           SearchDef(r'other')]
    tags = [1, 2, None]
    ops = gen_ops(rng, d, names, nsearch)
    # history: the SAME path string registered again later (possibly for
    # another search) while the directory population changes in between -
    # every registration denotes the files that exist when it is made
    grows = {}
    again = [o for o in ops if o[1] in ('dir', 'glob')]
    if again and rng.random() < 0.4:
        _, form, arg = rng.choice(again)
        ops.append((rng.randrange(nsearch), form, arg))
        stem = rng.choice(STEMS)
        grows[len(ops) - 1] = rng.sample(
            ['late.log', 'late.txt', stem + '.log.1', stem + '.log.2.gz',
             stem + '.log', 'zz.log.1'], rng.randint(1, 4))
    fs = FileSearcher(max_logrotate_depth=depth)
    coq_ops, denoted, singles = [], [], []
    allow, coq_allow = [], []
    for k, (s, form, arg) in enumerate(ops):
        for n in grows.get(k, ()):
            if os.path.isdir(os.path.join(d, n)):
                continue
            with open(os.path.join(d, n), 'w') as f:
                f.write('hello 1\n')
        tgt, regular, kind = listing_of(form, arg)
        coq_ops.append(f"({s + 1}, {'None' if tags[s] is None else 'Some %d' % tags[s]}, {tgt})")
        denoted.append((kind, regular))
        one = FileSearcher(max_logrotate_depth=depth)
        one.add(sds[s], arg)
        singles.append(list(one.files))
        a = rng.random() < 0.7
        allow.append((s + 1, a))
        coq_allow.append(f"({s + 1}, {'true' if a else 'false'})")
        fs.add(sds[s], arg, allow_global_constraints=a)
    files = list(fs.files)
    ids = {sd.id: i + 1 for i, sd in enumerate(sds)}
    searches, dedup = [], []
    for e in fs.catalog:
        searches.append([ids[x.id] for x in e['searches']])
        t = SearchTask(e, constraints_manager=fs.constraints_manager,
                       results_manager=None)
        dedup.append([ids[x.id] for x in t.search_defs])
    restricted = sorted(
        ids[x] for x in fs.constraints_manager.global_restrictions)
    want = [[cps(p) for p in files], searches, dedup, restricted]
    case = (f"(({depth}, [" + "; ".join(coq_ops) + "], ["
            + "; ".join(coq_allow) + "]) : case_t)")
    # ------------------------------------------------ spec oracle
    bad = []
    ws = any(c.isspace() for c in d)
    for (s, form, arg), (kind, regular), got in zip(ops, denoted, singles):
        if kind == 'file':
            if got != regular:
                bad.append(('file-registration-not-that-file',
                            {'arg': arg, 'files': got}))
            continue
        if ws:
            # boundary (whitespace in the path): cap not applied, but no
            # regular file may be lost and nothing else may appear
            if sorted(got) != sorted(regular):
                bad.append(('whitespace-path-file-lost-or-added',
                            {'arg': arg, 'files': got, 'denoted': regular}))
            continue
        for sig, det in check_kept(regular, depth, got):
            hk = None
            if sig == 'ordinary-file-dropped':
                hk = hostile_kind(det, base)
            if hk:
                sig = 'loglike-unnumbered-dropped:' + hk
            bad.append((sig, {'registration': [form, arg], 'depth': depth,
                              'denoted_regular_files': regular,
                              'files': got, 'what': det}))
    # merge_once: one entry per path, carrying every registration in order
    exp_search = {}
    order = []
    for (s, form, arg), got in zip(ops, singles):
        for p in got:
            if p not in exp_search:
                exp_search[p] = []
                order.append(p)
            exp_search[p].append(s + 1)
    if files != order or len(set(files)) != len(files):
        bad.append(('entries-not-union-of-registrations',
                    {'files': files, 'expected': order}))
    else:
        for p, got in zip(files, searches):
            if got != exp_search[p]:
                bad.append(('entry-searches-differ',
                            {'path': p, 'got': got,
                             'expected': exp_search[p]}))
    for got, dd in zip(searches, dedup):
        exp = list(dict.fromkeys(got))
        if dd != exp:
            bad.append(('task-defs-not-deduplicated', {'searches': got,
                                                       'task': dd}))
    exp_restr = sorted(set(i for i, a in allow if not a))
    if restricted != exp_restr:
        bad.append(('global-restrictions-differ',
                    {'restricted': restricted, 'added_with_false': exp_restr,
                     'history': allow}))
    src = [e['source_id'] for e in fs.catalog]
    if len(set(src)) != len(src) or any(
            fs.catalog.source_id_to_path(e['source_id']) != e['path']
            for e in fs.catalog):
        bad.append(('source-id-not-injective', {'ids': src}))
    copies = {}
    for p in set(x for _, r in denoted for x in r):
        r = rotated(p)
        if r:
            copies[r[0]] = copies.get(r[0], 0) + 1
    meta = {'depth': depth, 'ops': [(f, os.path.relpath(a, base))
                                    for _, f, a in ops],
            'names': len(names), 'files': len(files),
            'stems_with_copies': len(copies),
            'cap_binds': any(v > depth for v in copies.values()),
            'overlap': any(len(v) > 1 for v in exp_search.values()),
            'hostile': hostile, 'whitespace': ws,
            'directory_changed_between_registrations': bool(grows),
            'metachar_exact_path': any(
                f == 'file' and any(c in os.path.basename(a) for c in '[]?*')
                for _, f, a in ops),
            'forms': sorted(set(k for k, _ in denoted))}
    shutil.rmtree(d, ignore_errors=True)
    return {'case': case, 'want': want, 'bad': bad, 'meta': meta}


DEFAULTS = {'FILTERED_DIR_REGEX': r"(\S+)\.log(?:\.\d+(?:\.gz)?)?$",
            'LOGROTATE_FILTER_0': r"\S+\.log$",
            'LOGROTATE_FILTER_1': r"\S+\.log\.(\d+)$",
            'LOGROTATE_FILTER_2': r"\S+\.log\.(\d+)\.gz?$",
            'LOGROTATE_NOMATCH_KEY': 100000}


def source_params(chk):
    """ regex strings / sentinel extracted from the source by T1; an item
    the translator could not extract (already a broken obligation) falls
    back to the value the model was written for, so that T2 still runs """
    try:
        params = vlib.gen_info()['params']
    except (OSError, ValueError, KeyError):
        params = {}
    out = {}
    for k, v in DEFAULTS.items():
        if k in params:
            out[k] = params[k]
        else:
            out[k] = v
            chk.notes.append(f"T1 did not extract {k}; T2 uses {v!r}")
    return out


PRE_CASES = """
From SK Require Import Model.Collection Model.Catalog.
Definition case_t : Type :=
  (Z * list (Z * option Z * target) * list (Z * bool))%type.
Definition run_case (x : case_t) : jv :=
  let '(depth, ops, allows) := x in
  let c := add_all grp_fixed NOMATCH depth ops in
  let fs := cat_files c in
  JL [JL (map JZs fs);
      JL (map (fun p => JZs (match dget str_eqb (entries c) p with
                             | Some e => e_searches e | None => [] end)) fs);
      JL (map (fun p => JZs (task_defs
                (match dget str_eqb (entries c) p with
                 | Some e => e_searches e | None => [] end))) fs);
      JZs (sort_by (fun z => z) (fs_restrictions allows))].
"""

PRE_RX = """
From SK Require Import Model.Catalog.
Definition run_rx (s : str) : jv :=
  JL [JO JZs (grp_fixed s); JO JZs (grp_legacy s);
      JZ (sort_key NOMATCH s); JB (ends_with s dotlog)].
"""

TOK = ['.log', '.log', '.log.', 'log', '.', 'gz', '.gz', '.g', 'x', 'a',
       'syslog', 'app', '1', '2', '10', '007', '99', '0', ' ', '\n', '\t',
       '\xa0', '/', '-', '_', '\xe9', '.LOG', '.lo', 'g', 'z', 'tar', '.tar',
       '.1', '.12.gz', '.log.3', '.log.4.gz', '\x1c', 'l', 'o', '　']


def regex_stream(chk, n, params):
    rx_group = re.compile(params['FILTERED_DIR_REGEX'])
    rx_legacy = re.compile(r"(\S+)\.log\S*")
    filters = [re.compile(params['LOGROTATE_FILTER_%d' % i])
               for i in range(3)]
    nomatch = params['LOGROTATE_NOMATCH_KEY']

    def key(s):
        m = None
        for f in filters:
            m = f.match(s)
            if m:
                break
        if not m:
            return nomatch
        if len(m.groups()) == 0:
            return 0
        return int(m.group(1))

    def opt(m):
        return [] if m is None else [cps(m.group(1))]

    rng = chk.rng
    names = []
    for i in range(n):
        if i % 2:
            names.append(''.join(rng.choice(TOK)
                                 for _ in range(rng.randint(1, 7))))
            continue
        # structured: [dir/]stem.log[.N][.gz|.g][junk][newline]
        s = rng.choice(['', '', '/d/', '/var/my.logs/', 'a b/', '.'])
        s += rng.choice(['app', 'sys.d', 'x', 'a.log.1', '', 'k-1', 'é'])
        s += rng.choice(['.log', '.log', '.log', '.lo', '.LOG', 'log'])
        if rng.random() < 0.7:
            s += '.' + rng.choice(['1', '2', '10', '007', '99', '100000',
                                   '123456789012345678901', '1a', ''])
            if rng.random() < 0.5:
                s += rng.choice(['.gz', '.gz', '.g', '.gzz', '.bz2', 'gz'])
        if rng.random() < 0.15:
            s += rng.choice(['x', '.', ' ', '.log', '.1', '\t', '-'])
        if rng.random() < 0.08:
            s += rng.choice(['\n', '\n\n', '\r\n', '\x85'])
        names.append(s)
    cases = [S(s) for s in names]
    wants = [[opt(rx_group.match(s)), opt(rx_legacy.match(s)), key(s),
              s.endswith('.log')] for s in names]
    classes = {'group-match': 0, 'sort-live': 0, 'sort-numbered': 0,
               'sort-nomatch': 0, 'whitespace': 0}
    for s, w in zip(names, wants):
        classes['group-match'] += bool(w[0])
        classes['sort-live'] += (w[2] == 0)
        classes['sort-nomatch'] += (w[2] == nomatch)
        classes['sort-numbered'] += (w[2] not in (0, nomatch))
        classes['whitespace'] += any(c.isspace() for c in s)
    return names, cases, wants, classes


# ------------------------------------------------------------- real runs
def real_run(cfg, workdir):
    """ in a forked child: overlapping registrations, then run() """
    from searchkit import FileSearcher, SearchDef
    import searchkit.task as T
    import random
    rng = random.Random(cfg['seed'])
    base = os.path.join(workdir, 'r')
    os.makedirs(base, exist_ok=True)
    dirname, names = gen_population(rng, bool(cfg.get('dirname')))
    if cfg.get('dirname'):
        dirname = cfg['dirname']
    d, contents = materialise(base, dirname, names, True, rng)
    rec = os.path.join(base, 'executed')
    if os.path.exists(rec):
        os.unlink(rec)
    real_exec = T.SearchTask.execute

    def execute(self):
        fd = os.open(rec, os.O_WRONLY | os.O_APPEND | os.O_CREAT)
        os.write(fd, (self.info['path'] + '\n').encode())
        os.close(fd)
        return real_exec(self)

    T.SearchTask.execute = execute
    try:
        from searchkit import SequenceSearchDef
        # the third search is a sequence without end/body: one result per
        # line matching its start pattern (sections end at the next start)
        sds = [SearchDef(r'hello (\d+)', tag='h'),
               SearchDef(r'.*world', tag='w'),
               SequenceSearchDef(start=SearchDef(r'hello (\d+)'), tag='q')]
        pats = [re.compile(r'hello (\d+)'), re.compile(r'.*world'),
                re.compile(r'hello (\d+)')]
        lookup = ['h', 'w', 'q-start']
        if cfg.get('buffer'):
            # flush threshold of the task's results buffer (10000 in the
            # source): small, so that it is reached while the sequence
            # results of a file are being emitted
            T.NUM_BUFFERED_RESULTS = cfg['buffer']
        fs = FileSearcher(max_logrotate_depth=cfg['depth'],
                          max_parallel_tasks=cfg['par'])
        regs = {}
        files = [n for n, k in names.items() if k == 'f']
        forms = [d, os.path.join(d, '*'), os.path.join(d, '*.log*')]
        if files:
            forms.append(os.path.join(d, rng.choice(files)))
            forms.append(os.path.join(d, rng.choice(files)))
        for _ in range(rng.randint(2, 5)):
            s = rng.randrange(3)
            arg = rng.choice(forms)
            before = FileSearcher(max_logrotate_depth=cfg['depth'])
            before.add(sds[s], arg)
            for p in before.files:
                regs.setdefault(p, set()).add(s)
            fs.add(sds[s], arg)
        res = fs.run()
        executed = open(rec).read().split('\n')[:-1] \
            if os.path.exists(rec) else []
        bad = []
        if sorted(executed) != sorted(fs.files):
            bad.append(('file-not-searched-exactly-once',
                        {'executed': executed, 'files': fs.files}))
        if sorted(fs.files) != sorted(regs):
            bad.append(('files-not-union-of-registrations',
                        {'files': fs.files, 'expected': sorted(regs)}))
        nres = 0
        for p in fs.files:
            text = contents.get(p, '')
            lines = text.split('\n')[:-1]
            for s in (0, 1, 2):
                exp = [i + 1 for i, ln in enumerate(lines)
                       if pats[s].match(ln)] if s in regs.get(p, ()) else []
                got = sorted(r.linenumber for r in
                             res.find_by_tag(lookup[s], path=p))
                nres += len(got)
                if got != exp:
                    bad.append(('match-not-reported-exactly-once',
                                {'path': p, 'search': lookup[s], 'got': got,
                                 'expected_lines': exp,
                                 'registered': len(
                                     [1 for e in fs.catalog
                                      if e['path'] == p
                                      for x in e['searches']
                                      if x is sds[s]])}))
        multi = sum(1 for e in fs.catalog
                    if len(e['searches']) != len(set(e['searches'])))
        return {'bad': bad, 'files': len(fs.files), 'results': nres,
                'entries_with_repeated_search': multi,
                'depth': cfg['depth']}
    finally:
        T.SearchTask.execute = real_exec
        shutil.rmtree(d, ignore_errors=True)


def in_child(fn, out, timeout):
    """ run fn() in a forked child with its own process group; the result is
    passed back as JSON; the whole group is killed afterwards """
    for f in (out, out + '.err'):
        if os.path.exists(f):
            os.unlink(f)
    pid = os.fork()
    if pid == 0:
        rc = 1
        try:
            os.setsid()
            signal.alarm(int(timeout) + 10)
            try:
                import ctypes
                ctypes.CDLL(None).prctl(1, signal.SIGKILL)  # PR_SET_PDEATHSIG
            except (OSError, AttributeError):
                pass
            res = fn()
            with open(out + '.tmp', 'w', encoding='utf-8') as f:
                json.dump(res, f, default=str)
            os.replace(out + '.tmp', out)
            rc = 0
        except BaseException:                       # noqa
            with open(out + '.err', 'w', encoding='utf-8') as f:
                f.write(traceback.format_exc())
        finally:
            os._exit(rc)
    deadline = time.time() + timeout
    status = None
    while time.time() < deadline:
        r, st = os.waitpid(pid, os.WNOHANG)
        if r == pid:
            status = st
            break
        time.sleep(0.02)
    try:
        os.killpg(pid, signal.SIGKILL)
    except (ProcessLookupError, PermissionError):
        pass
    if status is None:
        try:
            os.waitpid(pid, 0)
        except ChildProcessError:
            pass
        return None, 'timeout'
    if os.path.exists(out):
        with open(out, encoding='utf-8') as f:
            return json.load(f), None
    err = ''
    if os.path.exists(out + '.err'):
        with open(out + '.err', encoding='utf-8') as f:
            err = f.read()
    return None, 'child failed: ' + err[-1500:]


def first_diff(a, b, path=()):
    if isinstance(a, list) and isinstance(b, list):
        if len(a) != len(b):
            return {'at': list(path), 'model': a, 'impl': b}
        for i, (x, y) in enumerate(zip(a, b)):
            d = first_diff(x, y, path + (i,))
            if d:
                return d
        return None
    if a != b:
        return {'at': list(path), 'model': a, 'impl': b}
    return None


def run(chk):
    chk.prove(PROPS)
    rng = chk.rng
    chk.coverage['rule'] = (
        "regex stream: names built from tokens ('.log', digits, '.gz', "
        "whitespace, dots, ...) - the four matchers vs python re with the "
        "source's regex strings.  Directory stream: a real temp directory "
        "(1-4 stems, live logs, N sets contiguous / with gaps / multi-digit "
        "9,10,11,100 / zero-padded, .gz-plain ties, plain files, "
        "sub-directories incl. one named like a rotated copy) x 1-4 "
        "registrations (file / dir / glob with 9 patterns, possibly the same "
        "search twice) x depth 0..9; hostile stream adds x.login, x.logs, "
        "x.log.tar.gz, x.log.1.g ... and directories named app.logs, "
        "d.log.3, 'my.logs and more'.  Non-trivial = the cap binds for some "
        "stem (copies > depth) or two registrations overlap on a file; "
        "distinct = distinct case term")
    if any(c.isspace() for c in chk.work) or '.log' in chk.work:
        chk.broken.append({'obligation': 'work directory usable',
                           'why': 'VERIF_WORK contains whitespace or .log'})
        return
    # ---- (1) regex matchers vs re
    params = source_params(chk)
    nm = str(params['LOGROTATE_NOMATCH_KEY'])
    nrx = 10000 if chk.quick else 40000
    names, cases, wants, classes = regex_stream(chk, nrx, params)
    mism, errs = vlib.eval_cases(chk.work, 'rx', '',
                                 PRE_RX.replace('NOMATCH', nm), 'run_rx',
                                 cases, wants, shard=1000)
    for e in errs:
        chk.broken.append({'obligation': 'regex correspondence (coqc)',
                           'why': e})
    chk.coverage['evaluations'] += len(cases)
    for k, v in classes.items():
        chk.dist('rx:' + k, v)
    for i, v in mism[:5]:
        chk.violation('regex-matcher-vs-re',
                      {'name': names[i], 'code_points': cps(names[i]),
                       'model [group, legacy group, sort key, endswith .log]':
                           v, 're': wants[i]}, witness=False)
    # ---- (2)+(3) directory populations
    base = os.path.join(chk.work, 't')
    shutil.rmtree(base, ignore_errors=True)
    os.makedirs(base)
    obs = []
    npop = 70 if chk.quick else 500
    nhost = 40 if chk.quick else 250
    for i in range(npop + nhost):
        hostile = i >= npop
        dirname, pop = gen_population(rng, hostile)
        depths = rng.sample(range(0, 10), 3) if not hostile else \
            [0, rng.randint(1, 3), 7]
        for depth in depths:
            try:
                obs.append(observe(rng, base, dirname, pop, depth, hostile))
            except Exception as exc:                        # noqa
                chk.violation('registration-raised ' + type(exc).__name__,
                              {'exception': repr(exc),
                               'trace': traceback.format_exc()[-1200:],
                               'directory': dirname, 'names': pop,
                               'depth': depth}, witness=True)
    ccases = [o['case'] for o in obs]
    cwants = [o['want'] for o in obs]
    mism, errs = vlib.eval_cases(chk.work, 'reg', '',
                                 PRE_CASES.replace('NOMATCH', nm), 'run_case',
                                 ccases, cwants, shard=30)
    for e in errs:
        chk.broken.append({'obligation': 'registration correspondence '
                                         '(coqc)', 'why': e})
    chk.coverage['evaluations'] += len(ccases)
    seen = set()
    spec_failed = set()
    for i, o in enumerate(obs):
        m = o['meta']
        chk.dist('hostile' if m['hostile'] else 'wellformed')
        for f in m['forms']:
            chk.dist('form:' + f)
        chk.dist('depth:%d' % m['depth'])
        if m['cap_binds']:
            chk.dist('cap-binds')
        if m['overlap']:
            chk.dist('overlapping-registrations')
        if m['whitespace']:
            chk.dist('whitespace-in-directory-name')
        if m['directory_changed_between_registrations']:
            chk.dist('same-path-registered-again-after-directory-changed')
        if m['metachar_exact_path']:
            chk.dist('exact-path-with-glob-metacharacters')
        if (m['cap_binds'] or m['overlap']) and o['case'] not in seen:
            chk.coverage['distinct_nontrivial'] += 1
        seen.add(o['case'])
        if o['bad']:
            spec_failed.add(i)
    # regressions of D9 (a log-like unnumbered name dropped) are reported first
    found = [(sig, det, o['meta']) for o in obs for sig, det in o['bad'][:2]]
    found.sort(key=lambda x: not x[0].startswith('loglike-unnumbered-dropped'))
    for sig, det, m in found:
        chk.violation(sig, {'violated': det, 'meta': m}, witness=True)
    chk.sample(obs[0]['meta'])
    chk.sample(obs[-1]['meta'])
    for i, v in mism:
        if i < 0:
            chk.broken.append({'obligation': 'registration correspondence',
                               'why': 'length mismatch'})
            continue
        if i in spec_failed:
            continue
        d = first_diff(v, cwants[i])
        if d and d['at'] and d['at'][0] == 0:
            for k in ('model', 'impl'):
                if isinstance(d[k], list) and d[k] and \
                        isinstance(d[k][0], int):
                    d[k] = ''.join(map(chr, d[k]))
        chk.violation('model-vs-impl registration',
                      {'first_difference': d, 'meta': obs[i]['meta'],
                       'note': 'the implementation answer satisfies the spec '
                               'relation; only the model disagrees'},
                      witness=False)
    shutil.rmtree(base, ignore_errors=True)
    # ---- (4) real runs
    nruns = 10 if chk.quick else 60
    for i in range(nruns):
        cfg = {'seed': rng.randrange(1 << 30), 'depth': rng.randint(0, 4),
               'par': rng.choice([1, 2, 4]),
               'dirname': {1: 'my.logs and more', 2: 'app.logs'}.get(i),
               'buffer': [None, 3, 7, 2][i % 4]}
        res, err = in_child(lambda cfg=cfg: real_run(cfg, chk.work),
                            os.path.join(chk.work, 'real_run.json'), 40)
        if err:
            chk.broken.append({'obligation': f'real FileSearcher.run() {cfg}'
                               ' completes', 'why': err})
            if err == 'timeout':
                chk.notes.append("a real run did not finish in 40 s; "
                                 "remaining real runs skipped")
                break
            continue
        chk.coverage['evaluations'] += 1
        chk.coverage['traces_validated_against_impl'] += 1
        chk.dist('real-runs' + (':hostile-dir' if cfg['dirname'] else ''))
        chk.dist('real-run-results', res['results'])
        chk.dist('real-run-entries-with-repeated-search',
                 res['entries_with_repeated_search'])
        if res['files'] >= 2:
            chk.coverage['distinct_nontrivial'] += 1
        chk.sample({k: res[k] for k in ('files', 'results', 'depth',
                                        'entries_with_repeated_search')})
        for sig, det in res['bad'][:2]:
            chk.violation(sig, {'violated': det, 'cfg': cfg}, witness=True)
    shutil.rmtree(os.path.join(chk.work, 'r'), ignore_errors=True)
    chk.assumptions += [
        "os.listdir / glob.glob / os.path.isfile answers are inputs of the "
        "model (the harness asks the same questions right before the "
        "implementation does)",
        "decimal digits outside ASCII (accepted by Python's \\d and int()) "
        "are not modelled; generated names use ASCII digits",
        "paths contain no whitespace (hypothesis of the exactness theorem); "
        "with whitespace the cap is not applied and no file is lost "
        "(C09_whitespace_boundary), except that a name ending in a newline "
        "after .log[.N[.gz]] is grouped (C09_trailing_newline_name_boundary)"]
