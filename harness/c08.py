"""C08 - results depend only on file contents and registrations, not on
earlier runs.

T1: reset-before-reading and cache discipline on the skeletons regenerated
    from the source (Props/C08.v).
T2: histories of 2-4 run() calls over searchers sharing definition /
    constraint objects, executed in ONE interpreter; every run of the
    history is compared with the same run executed alone in a FRESH
    interpreter on identical files (that is the property, literally).  The
    position each single-file run reads from is also compared with
    Model/History.v evaluated in Coq (cache hit / miss / exception paths).
"""
import os
import shutil
import tempfile
from concurrent.futures import ThreadPoolExecutor

import gen_logs as G
import skrun
import vlib

PROPS = ['Props/C08.v']

SEQ_END = {'kind': 'seq', 'tag': 'q0', 'constraints': [],
           'start': {'kind': 'simple', 'patterns': [r'^(?:\S+ \S+ )?start (\d+)'],
                     'tag': None, 'hint': None, 'store': True,
                     'constraints': []},
           'body': {'kind': 'simple', 'patterns': [r'^(?:\S+ \S+ )?body (\w+)'],
                    'tag': None, 'hint': None, 'store': True,
                    'constraints': []},
           'end': {'kind': 'simple', 'patterns': [r'^(?:\S+ \S+ )?end (\d+)'],
                   'tag': None, 'hint': None, 'store': True,
                   'constraints': []}}
SEQ_NOEND = dict(SEQ_END, tag='q1', end=None)
SIMPLE = {'kind': 'simple', 'patterns': [r'.+ alpha (\d+)'], 'tag': 's0',
          'hint': None, 'store': True, 'constraints': []}
SIMPLE2 = {'kind': 'simple', 'patterns': [r'^\S+ \S+ (\w+)'], 'tag': 's1',
           'hint': None, 'store': True, 'constraints': [0]}


# two overlapping patterns: which one matches a line must not depend on
# earlier lines / runs
MULTI = {'kind': 'simple', 'tag': 's2', 'hint': None, 'store': True,
         'constraints': [],
         'patterns': [r'^\S+ \S+ (\w+) (\d+) alpha', r'^\S+ \S+ (\w+)']}
# a per-search constraint on a search that matches ANY line (undated header
# lines included)
ANYLINE = {'kind': 'simple', 'tag': 's3', 'hint': None, 'store': True,
           'constraints': [0], 'patterns': [r'(.*)']}


def ts(day, h, m=0, s=0):
    return f"2022-01-{day:02d} {h:02d}:{m:02d}:{s:02d}"


def file_pool(rng):
    """ name -> bytes; the constraint is `current 2022-01-12 00:00:00, 24h`
    (since = 2022-01-11 00:00:00) """
    def log(days, extra=()):
        out = []
        for d in days:
            for h in sorted(rng.sample(range(24), rng.randint(1, 3))):
                out.append(f"{ts(d, h)} {rng.choice(G.WORDS)} "
                           f"{rng.randrange(30)} alpha {rng.randrange(9)}")
                if rng.random() < 0.3:
                    out.append(f"note {rng.choice(G.WORDS)}")
        out += list(extra)
        return ('\n'.join(out) + '\n').encode()
    sec = [f"{ts(11, 5)} start 1", "body a", f"{ts(11, 6)} end 1"]
    return {
        'normal.log': log([9, 10, 11, 11], sec),
        'recent.log': log([11, 11], sec + [f"{ts(11, 9)} start 2", "body b"]),
        'allold.log': log([8, 9, 10]),
        'midsection.log': log([10, 11], [f"{ts(11, 7)} start 7", "body m"]),
        'bodyfirst.log': (f"body orphan\n{ts(11, 1)} end 9\n"
                          f"{ts(11, 2)} start 3\nbody c\n{ts(11, 3)} end 3\n"
                          ).encode() + log([11]),
        'invalid.log': (f"{ts(11, 1)} start 4\nbody d\n").encode()
        + b"\xff\xfe broken\n" + f"{ts(11, 2)} end 4\n".encode(),
        'undated.log': b"no dates here\nstart 5\nbody e\nend 5\n",
        'empty.log': b'',
        'oldheader.log': b"=== log opened ===\n" + log([9, 10]) + log([11]),
    }


def run_of(rng, paths, use_global, new_searcher=True, policy=None,
           ndefs=None, mpt=None):
    adds = []
    defs = list(range(6)) if ndefs is None else ndefs
    for p in paths:
        for d in defs:
            adds.append([d, p, True])
    return {'global': 0 if use_global else None, 'decode_errors': policy,
            'max_parallel_tasks': mpt if mpt is not None
            else rng.choice([0, 2, 8]), 'adds': adds,
            'new_searcher': new_searcher}


def histories(rng, n):
    names = ['normal.log', 'recent.log', 'allold.log', 'midsection.log',
             'bodyfirst.log', 'undated.log']
    out = []
    fixed = [
        ('repeat-single', lambda: [run_of(rng, ['normal.log'], True),
                                   run_of(rng, ['normal.log'], True, False)]),
        ('repeat-single-no-global',
         lambda: [run_of(rng, ['normal.log'], False),
                  run_of(rng, ['normal.log'], False, False),
                  run_of(rng, ['normal.log', 'recent.log'], False)]),
        ('repeat-single-allold',
         lambda: [run_of(rng, ['allold.log'], True),
                  run_of(rng, ['allold.log'], True, False),
                  run_of(rng, ['allold.log'], True)]),
        ('midsection-then-bodyfirst',
         lambda: [run_of(rng, ['midsection.log'], False),
                  run_of(rng, ['bodyfirst.log'], False)]),
        ('failing-run-then-bodyfirst',
         lambda: [run_of(rng, ['invalid.log'], False),
                  run_of(rng, ['bodyfirst.log'], False)]),
        ('failing-run-then-repeat',
         lambda: [run_of(rng, ['invalid.log'], True),
                  run_of(rng, ['invalid.log'], True, True, 'replace'),
                  run_of(rng, ['bodyfirst.log'], True)]),
        ('single-then-multi',
         lambda: [run_of(rng, ['recent.log'], False),
                  run_of(rng, ['normal.log', 'recent.log', 'bodyfirst.log'],
                         False)]),
        ('multi-then-single',
         lambda: [run_of(rng, ['midsection.log', 'recent.log'], True),
                  run_of(rng, ['bodyfirst.log'], True),
                  run_of(rng, ['recent.log'], True)]),
        ('same-constraint-other-path',
         lambda: [run_of(rng, ['normal.log'], True),
                  run_of(rng, ['recent.log'], True),
                  run_of(rng, ['normal.log'], True)]),
        ('repeat-multi',
         lambda: [run_of(rng, ['normal.log', 'midsection.log'], True),
                  run_of(rng, ['normal.log', 'midsection.log'], True,
                         False)]),
        ('append-only-growth-allold',
         lambda: [run_of(rng, ['allold.log'], True),
                  dict(run_of(rng, ['allold.log'], True, False),
                       append={'allold.log':
                               f"{ts(10, 23, 59)} x 1 alpha 1\n"
                               f"{ts(11, 4)} gamma 2 alpha 2\nnote x\n"
                               f"{ts(11, 5)} beta 3 alpha 3\n"}),
                  dict(run_of(rng, ['allold.log'], True),
                       append={'allold.log':
                               f"{ts(11, 8)} err 4 alpha 4\n"})]),
        ('append-only-growth-found',
         lambda: [run_of(rng, ['normal.log'], True),
                  dict(run_of(rng, ['normal.log'], True, False),
                       append={'normal.log':
                               f"{ts(11, 23, 59, 58)} x 1 alpha 1\n"
                               f"{ts(11, 23, 59, 59)} start 8\nbody g\n"}),
                  dict(run_of(rng, ['normal.log'], True),
                       append={'normal.log': f"{ts(11, 23, 59, 59)} end 8\n"})]),
        ('two-constraint-objects-same-path',
         lambda: [run_of(rng, ['normal.log'], True),
                  dict(run_of(rng, ['normal.log'], True), **{'global': 1}),
                  run_of(rng, ['normal.log'], True),
                  dict(run_of(rng, ['recent.log', 'normal.log'], True),
                       **{'global': 1})]),
        ('restricted-then-unrestricted-reuse',
         # a definition registered with allow_global_constraints=False in
         # one searcher and normally in the next
         lambda: [dict(run_of(rng, ['normal.log'], True),
                       adds=[[d_, 'normal.log', d_ != 2] for d_ in range(6)]),
                  run_of(rng, ['normal.log'], True),
                  run_of(rng, ['normal.log', 'recent.log'], True)]),
        ('header-line-after-passing-run',
         # a run in which the per-search constraint passed, then a file that
         # begins with an undated header followed by old lines
         lambda: [run_of(rng, ['recent.log'], False),
                  run_of(rng, ['oldheader.log'], False),
                  run_of(rng, ['oldheader.log'], False, False)]),
        ('undated-cached',
         lambda: [run_of(rng, ['undated.log'], True),
                  run_of(rng, ['undated.log'], True, False)]),
    ]
    for name, mk in fixed:
        out.append((name, mk()))
    while len(out) < n:
        k = rng.randint(2, 4)
        runs = []
        for i in range(k):
            npaths = rng.choice([1, 1, 1, 2, 3])
            paths = rng.sample(names, npaths)
            runs.append(run_of(rng, paths, rng.random() < 0.6,
                               new_searcher=(i == 0 or rng.random() < 0.6
                                             or True),
                               policy=rng.choice([None, None, 'replace'])))
            if i > 0 and rng.random() < 0.3:
                runs[-1] = dict(runs[i - 1], new_searcher=False)
        out.append(('random', runs))
    return out[:n]


def lines_before(data, pos):
    n, off = 0, 0
    for ln in G.split_lines(data):
        if off >= pos:
            break
        n += 1
        off += len(ln)
    return n


def run(chk):
    chk.prove(PROPS)
    chk.coverage['rule'] = (
        "histories of 2-4 run() calls (repeat run of one searcher; new "
        "searcher reusing definition/constraint objects; a file ending "
        "mid-section or a run failing mid-section followed by a file that "
        "begins with body/end lines; the same constraint on the same and on "
        "other paths incl. all-old and undated files; single-file and "
        "multi-file runs mixed), each run compared with the same run alone "
        "in a fresh interpreter; non-trivial = some run after the first has "
        "results or an exception and shares objects with an earlier run")
    n = 26 if chk.quick else 150
    base = tempfile.mkdtemp(prefix='c08_', dir=chk.work)
    cons = [{'current': '2022-01-12 00:00:00', 'days': 0, 'hours': 24},
            # a second, DIFFERENT constraint object with an earlier boundary
            {'current': '2022-01-12 00:00:00', 'days': 2, 'hours': 0}]
    since = G.since_secs(cons[0])
    defs = [SEQ_END, SEQ_NOEND, SIMPLE, SIMPLE2, MULTI, ANYLINE]
    jobs = []
    try:
        for idx, (name, runs) in enumerate(histories(chk.rng, n)):
            d = os.path.join(base, f"h{idx}")
            pool = file_pool(chk.rng)
            skrun.materialise(d, pool)
            recipe = {'dir': d, 'constraints': cons, 'defs': defs,
                      'runs': runs}
            jobs.append((idx, name, recipe, pool))

        def do(job):
            idx, name, recipe, pool = job
            hist = skrun.run_fresh(recipe, timeout=180, workdir=base)
            fresh = []
            eff = None
            cur = dict(pool)
            for i, r in enumerate(recipe['runs']):
                # a repeated run of the SAME searcher keeps that searcher's
                # registrations and settings
                eff = r if r['new_searcher'] or eff is None else eff
                for nm, text in (r.get('append') or {}).items():
                    cur[nm] = cur[nm] + text.encode('latin-1')
                # the fresh process sees the files as they are at this point
                od = recipe['dir'] + f"_fresh{i}"
                skrun.materialise(od, cur)
                one = dict(recipe, dir=od,
                           runs=[dict(eff, new_searcher=True, append=None)])
                fresh.append(skrun.run_fresh(one, timeout=120, workdir=base))
            return job, hist, fresh
        cases, wants, metas = [], [], []
        nontrivial = 0
        with ThreadPoolExecutor(max_workers=5) as ex:
            for (idx, name, recipe, pool), hist, fresh in ex.map(do, jobs):
                chk.dist(name)
                chk.coverage['evaluations'] += 1 + len(fresh)
                brief = {'history': name,
                         'runs': [{'paths': sorted({a[1] for a in r['adds']}),
                                   'global': r['global'],
                                   'new_searcher': r['new_searcher'],
                                   'decode_errors': r['decode_errors']}
                                  for r in recipe['runs']]}
                if hist['obs'] is None or any(f['obs'] is None
                                              for f in fresh):
                    which = 'history' if hist['obs'] is None else 'fresh-run'
                    to = hist['timeout'] or any(f['timeout'] for f in fresh)
                    chk.violation(
                        f"{which}-did-not-complete "
                        f"{'hang' if to else 'crash'} {name}",
                        dict(brief, err=hist['err'] or
                             [f['err'] for f in fresh]),
                        witness=(hist['obs'] is None and
                                 all(f['obs'] is not None for f in fresh)))
                    continue
                interesting = False
                for i, (h, f) in enumerate(zip(hist['obs'], fresh)):
                    f0 = f['obs'][0]
                    if (h['exc'], h['results']) != (f0['exc'],
                                                    f0['results']):
                        chk.violation(
                            f"run-differs-from-fresh-process {name} "
                            f"run={i}",
                            dict(brief, run_index=i,
                                 in_history={'exc': h['exc'],
                                             'results': h['results']},
                                 fresh={'exc': f0['exc'],
                                        'results': f0['results']}))
                        break
                    if i > 0 and (h['exc'] or any(h['results'].values())):
                        interesting = True
                if interesting:
                    nontrivial += 1
                # model: positions of the single-file global runs
                steps, want = [], []
                ids = {p: i for i, p in enumerate(sorted(pool))}
                ok_for_model = True
                eff = None
                for r, h in zip(recipe['runs'], hist['obs']):
                    eff = r if r['new_searcher'] or eff is None else eff
                    r = eff
                    paths = sorted({a[1] for a in r['adds']})
                    if len(paths) != 1 or h['exc'] or not pool[paths[0]]:
                        if len(paths) == 1 and not h['exc'] and \
                                pool[paths[0]]:
                            pass
                        if len(paths) != 1 or not pool[paths[0]]:
                            steps.append(f"Multi {'true' if r['global'] is not None else 'false'} "
                                         f"{vlib.zl([ids[p] + len(ids) * (r['global'] or 0) for p in paths])}")
                            want.append(None)
                            continue
                    p = paths[0]
                    g = r['global'] is not None and \
                        all(a[2] for a in r['adds'] if a[1] == p)
                    # the cache is per (constraint object, path)
                    key = ids[p] + len(ids) * (r['global'] or 0)
                    steps.append(f"Single {'true' if g else 'false'} "
                                 f"{key}")
                    if h['exc']:
                        want.append(None)
                    else:
                        tot = len(G.split_lines(pool[p]))
                        want.append(tot - h['stats']['lines_searched'])
                if any(r.get('append') for r in recipe['runs']):
                    ok_for_model = False
                if ok_for_model:
                    # per file: computed position in LINES (None when the
                    # seek takes an exception path) and the fallback
                    comp = []
                    for ci, p in [(ci, p) for ci in range(len(cons))
                                  for p in sorted(pool)]:
                        since = G.since_secs(cons[ci])
                        data = pool[p]
                        lines = G.split_lines(data)
                        dated = [G.line_ts(x[:64].decode(
                            'utf-8', errors='backslashreplace'))
                            for x in lines]
                        if not any(t is not None for t in dated):
                            comp.append("(None, 0)")            # no timestamps
                        elif not any(t is not None and t >= since
                                     for t in dated):
                            comp.append(f"(None, {len(lines)})")  # none valid
                        else:
                            pos = G.first_in_window(data, since)
                            comp.append(f"(Some {lines_before(data, pos)}, 0)")
                    cases.append("([" + "; ".join(comp) + "], ["
                                 + "; ".join(steps) + "])")
                    wants.append([w if w is not None else -1 for w in want])
                    metas.append(brief)
                if idx < 2:
                    chk.sample(dict(brief, last_run_results=hist['obs'][-1][
                        'results']))
    finally:
        shutil.rmtree(base, ignore_errors=True)
    pre = (
        "From SK Require Import Model.History.\n"
        "Definition C := (option Z * Z)%type.\n"
        "Definition runner (c : list C * list step) : jv :=\n"
        "  let files := fun p => nthZ (fst c) p (None, 0) in\n"
        "  let sres := step_results C Z (fun x => fst x) (fun x => snd x)\n"
        "                (fun _ pos _ => pos) true true (fun _ _ _ _ => false) files in\n"
        "  let fix go (k : carried) (h : list step) : list jv :=\n"
        "    match h with\n"
        "    | [] => []\n"
        "    | s :: r =>\n"
        "        (match s with Single _ _ => JZs (sres k s) | Multi _ _ => JL [] end)\n"
        "        :: go (run_steps C Z (fun x => fst x) (fun x => snd x)\n"
        "                 (fun _ pos _ => pos) true true (fun _ _ _ _ => false)\n"
        "                 files k [s]) r\n"
        "    end in\n"
        "  JL (go (init) (snd c)).\n")
    # compare only the single-file, non-failing runs
    enc = []
    for w in wants:
        enc.append([[x] if x >= 0 else None for x in w])
    # model returns JL [] for Multi; for failing single runs we cannot
    # compare: encode expected via a mask by post-processing mismatches
    mism, errs = vlib.eval_cases(chk.work, 'hist', '', pre, 'runner', cases,
                                 [[e if e is not None else [] for e in w]
                                  for w in enc], shard=100)
    for e in errs:
        chk.broken.append({'obligation': 'correspondence (coqc)', 'why': e})
    for i, v in mism:
        if i < 0 or v is None:
            chk.violation('model-vs-impl-positions', {'model': v},
                          witness=False)
            continue
        bad = [(j, a, b) for j, (a, b) in enumerate(zip(v, enc[i]))
               if b is not None and a != b]
        if bad:
            chk.violation('model-vs-impl-positions',
                          {'case': metas[i], 'differences': bad},
                          witness=False)
    chk.coverage['distinct_nontrivial'] = nontrivial
    chk.coverage['traces_validated_against_impl'] = len(cases)
    chk.assumptions += [
        "file contents are identical between the runs of a history and in "
        "the fresh interpreter (the property's observation setting)",
        "multi-file runs pickle definitions/constraints into workers "
        "(multiprocessing contract); their effect on the parent's objects "
        "is observed, not proved"]
