"""C15 - Result store is an append-only injective table for every addition
history.

T1: Props/C15.v proves the model's roll-over test equal to the expression
    generated from ResultStoreBase.allocations and instantiates the block
    size hypothesis with the extracted PREALLOC_BLOCK_SIZE.
T2: random addition histories run through the REAL ResultStoreSimple,
    ResultStoreSimple(f_preallocator=<local block granter with gaps>) and the
    manager-backed ResultStoreParallel (followed by sync / unproxy_results);
    every step's return value, grant count and store size, and the final
    contents of data / value_store / tag_store / sequence_id_store / list of
    granted blocks are compared with Model/Store.v evaluated inside Coq.
    Independently of the model, the property's clauses are asserted directly
    on the implementation's outputs (judge()); only such a failure is a
    witness.
"""
import math

import vlib

PROPS = ['Props/C15.v']

# Python values; several are ==/hash-equal to each other (1, 1.0, True ...)
POOL = ['a', 'b', 'c', 'd', 'e', '1', '0', '', 'tag', 'seq', 1, 1.0, True, 0,
        False, 0.0, 2, 2.0, -1, 3.5, b'a', (1, 'a'), (1.0, 'a'), 10 ** 20,
        float(10 ** 20), 'A', 'a ', None.__class__.__name__]


class Classes:
    """ maps Python values to ==/hash classes, exactly as a dict does """
    def __init__(self):
        self.d = {}

    def id(self, v):
        if v is None:
            return None
        return self.d.setdefault(v, len(self.d))


class Granter:
    """ local pre-allocator: a pointer that only grows; before the j-th
    request `gaps[j]` indices are taken by somebody else """
    def __init__(self, p0, gaps):
        self.ptr = p0
        self.gaps = list(gaps)
        self.starts = []

    def __call__(self, size):
        g = self.gaps.pop(0) if self.gaps else 0
        p = self.ptr + g
        self.ptr = p + size
        self.starts.append(p)
        return list(range(p, p + size))


# ------------------------------------------------------------ generators
def gen_history(rng, n_ops, n_vals, p_none, big=None):
    """ ops over a small pool (heavy repetition); all three components are
    drawn from the SAME pool so values collide across namespaces """
    if big is not None:
        # `big` distinct values, in order, each also repeated now and then
        ops = []
        for i in range(big):
            v = f"v{i}"
            which = i % 3
            ops.append((v if which == 1 else ('t' if i % 7 else None),
                        v if which == 2 else None,
                        v if which == 0 else (f"v{i // 2}" if i % 5 else None)))
        return ops
    pool = rng.sample(POOL, min(n_vals, len(POOL)))

    def comp():
        if rng.random() < p_none:
            return None
        return rng.choice(pool)
    return [(comp(), comp(), comp()) for _ in range(n_ops)]


def gen_cases(chk, mgr_cases):
    rng = chk.rng
    cases = []
    n = 900 if chk.quick else 9000
    for _ in range(n):
        kind = rng.choice([0, 1, 1, 1])
        bsize = rng.choice([1, 2, 3, 3, 4, 1000])
        n_ops = rng.choice([0, 1, 2, 3, 5, 8, 13, 21, 34])
        n_vals = rng.choice([1, 2, 3, 4, 6, 9, 14, 28])
        gaps = [rng.choice([0, 0, 1, 2, bsize, 2 * bsize, 7])
                for _ in range(rng.randrange(0, 6))]
        cases.append({'kind': kind, 'bsize': bsize, 'gaps': gaps, 'p0':
                      rng.choice([0, 0, 5, 1000]),
                      'ops': gen_history(rng, n_ops, n_vals,
                                         rng.choice([0.0, 0.2, 0.5, 0.9]))})
    # exact roll-over boundaries: k*bsize-1, k*bsize, k*bsize+1 distinct values
    for bsize in (1, 2, 3, 5):
        for k in (1, 2, 3):
            for d in (-1, 0, 1):
                m = k * bsize + d
                if m < 0:
                    continue
                cases.append({'kind': 1, 'bsize': bsize, 'p0': 0,
                              'gaps': [0, 3, 0, bsize],
                              'ops': gen_history(rng, 0, 0, 0, big=m)})
    for m in ((999, 1000, 1001) if chk.quick else
              (999, 1000, 1001, 1999, 2000, 2001, 2600)):
        cases.append({'kind': 1, 'bsize': 1000, 'gaps': [0, 17], 'p0': 0,
                      'ops': gen_history(rng, 0, 0, 0, big=m)})
    cases.append({'kind': 0, 'bsize': 1000, 'gaps': [], 'p0': 0,
                  'ops': gen_history(rng, 0, 0, 0, big=1200)})
    for i in range(mgr_cases):
        bsize = rng.choice([1, 2, 3, 1000])
        big = None
        if i < 3:
            bsize, big = [(2, 6), (3, 7), (1000, 1001)][i]
        cases.append({'kind': 2, 'bsize': bsize, 'gaps': [], 'p0': 0,
                      'ops': gen_history(rng, rng.choice([1, 3, 8, 21]),
                                         rng.choice([2, 4, 9, 28]),
                                         rng.choice([0.0, 0.3, 0.6]),
                                         big=big)})
    rng.shuffle(cases)          # spread the expensive ones over the shards
    return cases


# ------------------------------------------------------------ real code
def items_sorted(d, cl, rev=False):
    """ canonical dump of a store dict: rev maps are keyed by values """
    def cid(x):
        return -1 if x is None else cl.id(x)      # None must never be there

    def num(x):
        return -1 if x is None else x
    if rev:
        return sorted([cid(k), num(v)] for k, v in d.items())
    return sorted([num(k), cid(v)] for k, v in d.items())


def run_impl(case, mgr=None):
    from searchkit.results_store import (ResultStoreSimple,
                                         ResultStoreParallel)
    cl = Classes()
    kind, bsize = case['kind'], case['bsize']
    granter = None
    if kind == 0:
        st = ResultStoreSimple()
        local = st
    elif kind == 1:
        granter = Granter(case['p0'], case['gaps'])
        st = ResultStoreSimple(f_preallocator=granter,
                               prealloc_block_size=bsize)
        local = st
    else:
        st = ResultStoreParallel(mgr, prealloc_block_size=bsize)
        granter = Granter(0, [])
        real = st.preallocate

        def wrapped(size):
            blk = real(size)
            granter.starts.append(blk[0] if blk else None)
            return blk
        st.preallocate = wrapped
        local = st.local
    steps = []
    events = []         # (python value, index) for every non-skipped component
    problems = []       # property clauses violated by the implementation
    small = len(case['ops']) <= 60
    for n_op, (tag, sq, value) in enumerate(case['ops']):
        try:
            ti, si, vi = st.add(tag, sq, value)
        except Exception as exc:  # pylint: disable=broad-except
            problems.append(f"add raised {type(exc).__name__}: {exc} at "
                            f"op {n_op}")
            steps.append([-1])
            break
        for x, i in ((value, vi), (tag, ti), (sq, si)):
            events.append((x, i))
        ngr = len(granter.starts) if granter else 0
        steps.append([[None if i is None else [i] for i in (ti, si, vi)],
                      ngr, len(local.data)])
        # (plain store: index = |data| is a model-level fact, compared
        # through the model only - not a clause of the property)
        if kind != 0 and ngr != math.ceil(len(local.data) / bsize):
            problems.append(f"blocks requested {ngr} != ceil("
                            f"{len(local.data)}/{bsize}) at op {n_op}")
        if small:
            problems += lookups(local, events, f"after op {n_op}")
    if not small:
        problems += lookups(local, events, "at the end")
    problems += judge_events(events)
    if None in list(local.data.values()):
        problems.append("None stored in data")
    if local.get(10 ** 9) is not None:
        problems.append("get() of an index never handed out is not None")
    starts = list(granter.starts) if granter else []
    if kind != 0:
        order = []
        for _, i in events:
            if i is not None and i not in order:
                order.append(i)
        want = [p + o for p in starts for o in range(bsize)][:len(order)]
        if order != want:
            problems.append("indices not taken from the granted blocks in "
                            f"order: {order[:12]} vs {want[:12]}")
    out = {'steps': steps,
           'final': [items_sorted(local.data, cl),
                     items_sorted(local.value_store, cl, True),
                     items_sorted(local.tag_store, cl, True),
                     items_sorted(local.sequence_id_store, cl, True),
                     starts]}
    if kind == 2:
        st.sync()
        problems += lookups(st, events, "after sync")
        shared = [items_sorted(dict(st.data), cl),
                  items_sorted(dict(st.value_store), cl, True),
                  items_sorted(dict(st.tag_store), cl, True),
                  items_sorted(dict(st.sequence_id_store), cl, True)]
        st.unproxy_results()
        problems += lookups(st, events, "after unproxy_results")
        unprox = [items_sorted(st.data, cl),
                  items_sorted(st.value_store, cl, True),
                  items_sorted(st.tag_store, cl, True),
                  items_sorted(st.sequence_id_store, cl, True)]
        if not all(isinstance(d, dict) for d in
                   (st.data, st.value_store, st.tag_store,
                    st.sequence_id_store)):
            problems.append("unproxy_results left a proxy behind")
        out['final'] += [shared, unprox]
    out['ops_ids'] = [(cl.id(t), cl.id(s), cl.id(v))
                      for (t, s, v) in case['ops']]
    return out, problems


def lookups(store, events, when):
    bad = []
    for x, i in events:
        if i is None:
            continue
        try:
            got = store[i]
            got2 = store.get(i)
        except KeyError:
            bad.append(f"index {i} (value {x!r}) does not resolve {when}")
            continue
        if not (got == x and got2 == x):
            bad.append(f"index {i} resolves to {got!r}, stored {x!r} {when}")
    return bad[:3]


def judge_events(events):
    """ the injective-table clauses, on the implementation's own outputs """
    bad = []
    by_val, by_idx = {}, {}
    for x, i in events:
        if (x is None) != (i is None):
            bad.append(f"None/index mismatch: value {x!r} got index {i!r}")
            continue
        if x is None:
            continue
        if by_val.setdefault(x, i) != i:
            bad.append(f"equal values, different indices: {x!r} -> "
                       f"{by_val[x]} and {i}")
        if i in by_idx and not by_idx[i] == x:
            bad.append(f"different values share index {i}: {by_idx[i]!r} "
                       f"and {x!r}")
        by_idx.setdefault(i, x)
    return bad[:5]


# ------------------------------------------------------------ model side
PREAMBLE = r"""
From SK Require Import Model.Store Spec.Store.
Fixpoint ins (p : Z * Z) (l : list (Z * Z)) : list (Z * Z) :=
  match l with
  | [] => [p]
  | q :: r => if fst p <=? fst q then p :: l else q :: ins p r
  end.
Definition dsort (d : list (Z * Z)) : list (Z * Z) := fold_right ins [] d.
Definition jd (d : list (Z * Z)) : jv :=
  JL (map (fun p => JL [JZ (fst p); JZ (snd p)]) (dsort d)).
Definition jo (o : option Z) : jv := JO JZ o.
Definition jret (r : ret) : jv :=
  let '(a, b, c) := r in JL [jo a; jo b; jo c].
Fixpoint trace (s : store) (ops : list op) : store * list jv :=
  match ops with
  | [] => (s, [])
  | o :: r =>
      match add s o with
      | ErrAlloc => (s, [JL [JZ (-1)]])
      | Ok (s1, x) =>
          let '(s2, js) := trace s1 r in
          (s2, JL [jret x; JZ (Z.of_nat (ngrants s1)); JZ (lenZ (data s1))]
               :: js)
      end
  end.
Definition case_t := (Z * Z * Z * list Z * list op)%type.
Definition run_case (c : case_t) : jv :=
  let '(kind, bsize, p0, gaps, ops) := c in
  let s0 := if kind =? 0 then init_plain
            else init_pre bsize (start_of p0 bsize gaps) in
  let '(s, js) := trace s0 ops in
  let starts := map (pstart s) (seq 0 (ngrants s)) in
  let local := [jd (data s); jd (vstore s); jd (tstore s); jd (sstore s);
                JZs starts] in
  let sh := sync s shared_empty in
  let shj := JL [jd (sh_data sh); jd (sh_vstore sh); jd (sh_tstore sh);
                 jd (sh_sstore sh)] in
  let shu := unproxy sh in
  let shuj := JL [jd (sh_data shu); jd (sh_vstore shu); jd (sh_tstore shu);
                  jd (sh_sstore shu)] in
  JL [JL js; JL (local ++ (if kind =? 2 then [shj; shuj] else []))].
"""


def coq_opt(x):
    return "None" if x is None else f"Some {x}"


def coq_case(case, ids):
    ops = "; ".join(f"({coq_opt(t)}, {coq_opt(s)}, {coq_opt(v)})"
                    for (t, s, v) in ids)
    return (f"({case['kind']}, {case['bsize']}, {case['p0']}, "
            f"{vlib.zl(case['gaps'])}, [{ops}])")


def run(chk):
    chk.prove(PROPS)
    import multiprocessing
    chk.coverage['rule'] = (
        "case = (store kind, block size, allocator gaps, history of "
        "add(tag, seq, value)); components drawn from one small pool shared "
        "by the three namespaces (incl. ==-equal values of different type "
        "and None), plus histories with exactly k*bsize-1 / k*bsize / "
        "k*bsize+1 distinct values; non-trivial = at least two distinct "
        "values and one repeated value; distinct = different (kind, bsize, "
        "gaps, id history)")
    mgr_n = 40 if chk.quick else 300
    cases = gen_cases(chk, mgr_n)
    mgr = None
    outs, coq_cases, wants, ran = [], [], [], []
    seen = set()
    try:
        for c in cases:
            if c['kind'] == 2 and mgr is None:
                mgr = multiprocessing.Manager()
            try:
                out, problems = run_impl(c, mgr)
            except Exception as exc:  # pylint: disable=broad-except
                chk.violation(
                    f"store-raised kind={c['kind']} bsize={c['bsize']}: "
                    f"{type(exc).__name__}",
                    {'exception': repr(exc)[:300], 'kind': c['kind'],
                     'prealloc_block_size': c['bsize'], 'gaps': c['gaps'],
                     'history': [list(map(repr, o)) for o in c['ops']][:200]})
                outs.append(None)
                continue
            outs.append(out)
            ran.append(c)
            ids = out['ops_ids']
            coq_cases.append(coq_case(c, ids))
            wants.append([out['steps'], out['final']])
            for p in problems[:1]:
                chk.violation(
                    f"store-clause kind={c['kind']} bsize={c['bsize']}: "
                    f"{p.split(':')[0][:60]}",
                    {'clause_violated': problems[:5], 'kind': c['kind'],
                     'prealloc_block_size': c['bsize'], 'gaps': c['gaps'],
                     'p0': c['p0'], 'history': [list(map(repr, o))
                                                for o in c['ops']][:200]})
            flat = [x for o in ids for x in o if x is not None]
            key = (c['kind'], c['bsize'], tuple(c['gaps']), tuple(ids))
            if key not in seen:
                seen.add(key)
                if len(set(flat)) >= 2 and len(flat) > len(set(flat)):
                    chk.coverage['distinct_nontrivial'] += 1
            nd = len(set(flat))
            chk.dist(f"kind{c['kind']}")
            chk.dist(f"bsize{c['bsize']}")
            if c['kind'] and nd and nd % c['bsize'] == 0:
                chk.dist('ends-exactly-on-block-boundary')
            if c['kind'] and nd > c['bsize']:
                chk.dist('rolled-over')
            if any(o[2] is not None and (o[2] == o[0] or o[2] == o[1])
                   for o in ids):
                chk.dist('value-equals-own-tag-or-seq')
            if any(x is None for o in ids for x in o):
                chk.dist('has-None-component')
    finally:
        if mgr is not None:
            mgr.shutdown()
    mism, errs = vlib.eval_cases(chk.work, 'hist', '', PREAMBLE, 'run_case',
                                 coq_cases, wants, shard=120, timeout=1200)
    chk.coverage['evaluations'] += len(cases)
    chk.coverage['traces_validated_against_impl'] += len(cases)
    for e in errs:
        chk.broken.append({'obligation': 'correspondence histories (coqc)',
                           'why': e})
    for i, v in mism:
        c = ran[i] if i >= 0 else {}
        chk.violation(
            f"model-vs-impl kind={c.get('kind')} bsize={c.get('bsize')}",
            {'case': coq_cases[i] if i >= 0 else None,
             'history': [list(map(repr, o)) for o in c.get('ops', [])][:60],
             'impl': wants[i] if i >= 0 else None, 'model': v},
            witness=False)
    for c, o in list(zip(ran, [o for o in outs if o is not None]))[:3]:
        chk.sample({'kind': c['kind'], 'bsize': c['bsize'],
                    'gaps': c['gaps'], 'history': [list(map(repr, x))
                                                   for x in c['ops']][:8],
                    'returns': o['steps'][:8]})
    chk.assumptions += [
        "Python == / hash on the stored values is an equivalence consistent "
        "between dict lookup and the linear == scan (true for str, bytes, "
        "int, float (not NaN), bool, tuples of those); the harness maps "
        "values to those classes with a dict",
        "the pre-allocator hands out pairwise disjoint blocks in increasing "
        "order (ResultStoreParallel.preallocate under its lock: C06)",
        "multiprocessing.Manager dict / Value proxies behave as dict / int "
        "cells; copy.deepcopy of a DictProxy yields its contents"]
