"""C15 - Result store is an append-only injective table for every addition
history.

T1: Props/C15.v proves the model's roll-over test equal to the expression
    generated from ResultStoreBase.allocations and instantiates the block
    size hypothesis with the extracted PREALLOC_BLOCK_SIZE.
T2: random addition histories run through the REAL ResultStoreSimple,
    ResultStoreSimple(f_preallocator=<local block granter with gaps>) and the
    manager-backed ResultStoreParallel (followed by sync / unproxy_results);
    every step's return value, grant count and store size, and the final
    contents of data / value_store / tag_store / sequence_id_store / list of
    granted blocks are compared with Model/Store.v evaluated inside Coq.
    Independently of the model, the property's clauses are asserted directly
    on the implementation's outputs (judge()); only such a failure is a
    witness.
"""
import math

import vlib

PROPS = ['Props/C15.v']

# Python values; several are ==/hash-equal to each other (1, 1.0, True ...)
POOL = ['a', 'b', 'c', 'd', 'e', '1', '0', '', 'tag', 'seq', 1, 1.0, True, 0,
        False, 0.0, 2, 2.0, -1, 3.5, b'a', (1, 'a'), (1.0, 'a'), 10 ** 20,
        float(10 ** 20), 'A', 'a ', None.__class__.__name__]


class Classes:
    """ maps Python values to ==/hash classes, exactly as a dict does """
    def __init__(self):
        self.d = {}

    def id(self, v):
        if v is None:
            return None
        return self.d.setdefault(v, len(self.d))


class Granter:
    """ local pre-allocator: a pointer that only grows; before the j-th
    request `gaps[j]` indices are taken by somebody else """
    def __init__(self, p0, gaps):
        self.ptr = p0
        self.gaps = list(gaps)
        self.starts = []
        self.blocks = []

    def __call__(self, size):
        g = self.gaps.pop(0) if self.gaps else 0
        p = self.ptr + g
        self.ptr = p + size
        self.starts.append(p)
        self.blocks.append(list(range(p, p + size)))
        return list(range(p, p + size))


class StripedGranter(Granter):
    """ a pre-allocator whose blocks are NOT contiguous ranges: the k-th
    block is [k, k + STRIDE, k + 2*STRIDE, ...] (pairwise disjoint; what a
    free-list or a striping allocator would hand out) """
    STRIDE = 64

    def __call__(self, size):
        k = len(self.starts)
        blk = [self.ptr + k + j * self.STRIDE for j in range(size)]
        self.starts.append(blk[0] if blk else None)
        self.blocks.append(blk)
        return list(blk)


# ------------------------------------------------------------ generators
def gen_history(rng, n_ops, n_vals, p_none, big=None):
    """ ops over a small pool (heavy repetition); all three components are
    drawn from the SAME pool so values collide across namespaces """
    if big is not None:
        # `big` distinct values, in order, each also repeated now and then
        ops = []
        for i in range(big):
            v = f"v{i}"
            which = i % 3
            ops.append((v if which == 1 else ('t' if i % 7 else None),
                        v if which == 2 else None,
                        v if which == 0 else (f"v{i // 2}" if i % 5 else None)))
        return ops
    pool = rng.sample(POOL, min(n_vals, len(POOL)))

    def comp():
        if rng.random() < p_none:
            return None
        return rng.choice(pool)
    return [(comp(), comp(), comp()) for _ in range(n_ops)]


def gen_cases(chk, mgr_cases):
    rng = chk.rng
    cases = []
    n = 900 if chk.quick else 9000
    for _ in range(n):
        kind = rng.choice([0, 1, 1, 1])
        bsize = rng.choice([1, 2, 3, 3, 4, 1000])
        n_ops = rng.choice([0, 1, 2, 3, 5, 8, 13, 21, 34])
        n_vals = rng.choice([1, 2, 3, 4, 6, 9, 14, 28])
        gaps = [rng.choice([0, 0, 1, 2, bsize, 2 * bsize, 7])
                for _ in range(rng.randrange(0, 6))]
        cases.append({'kind': kind, 'bsize': bsize, 'gaps': gaps, 'p0':
                      rng.choice([0, 0, 5, 1000]),
                      'ops': gen_history(rng, n_ops, n_vals,
                                         rng.choice([0.0, 0.2, 0.5, 0.9]))})
    # exact roll-over boundaries: k*bsize-1, k*bsize, k*bsize+1 distinct values
    for bsize in (1, 2, 3, 5):
        for k in (1, 2, 3):
            for d in (-1, 0, 1):
                m = k * bsize + d
                if m < 0:
                    continue
                cases.append({'kind': 1, 'bsize': bsize, 'p0': 0,
                              'gaps': [0, 3, 0, bsize],
                              'ops': gen_history(rng, 0, 0, 0, big=m)})
    for m in ((999, 1000, 1001) if chk.quick else
              (999, 1000, 1001, 1999, 2000, 2001, 2600)):
        cases.append({'kind': 1, 'bsize': 1000, 'gaps': [0, 17], 'p0': 0,
                      'ops': gen_history(rng, 0, 0, 0, big=m)})
    cases.append({'kind': 0, 'bsize': 1000, 'gaps': [], 'p0': 0,
                  'ops': gen_history(rng, 0, 0, 0, big=1200)})
    for i in range(mgr_cases):
        bsize = rng.choice([1, 2, 3, 1000])
        big = None
        if i < 3:
            bsize, big = [(2, 6), (3, 7), (1000, 1001)][i]
        ops = gen_history(rng, rng.choice([1, 3, 8, 21]),
                          rng.choice([2, 4, 9, 28]),
                          rng.choice([0.0, 0.3, 0.6]), big=big)
        # add .., sync, add .., sync: sync() may be called any number of
        # times; `syncs` = numbers of adds after which one happens
        syncs = sorted(set(rng.randrange(0, len(ops) + 1)
                           for _ in range(rng.choice([0, 1, 1, 2, 3]))))
        if i in (0, 1):
            syncs = [len(ops) // 2]          # new values after a sync, small blocks
        cases.append({'kind': 2, 'bsize': bsize, 'gaps': [], 'p0': 0,
                      'ops': ops, 'syncs': syncs})
    # pre-allocator with non-contiguous blocks (judged directly; the Coq
    # model is stated for range blocks)
    for _ in range(40 if chk.quick else 300):
        bsize = rng.choice([2, 3, 4, 5])
        cases.append({'kind': 4, 'bsize': bsize, 'gaps': [], 'p0':
                      rng.choice([0, 1000]),
                      'ops': gen_history(rng, rng.choice([3, 8, 21]),
                                         rng.choice([3, 6, 9, 14]),
                                         rng.choice([0.0, 0.3]))})
    rng.shuffle(cases)          # spread the expensive ones over the shards
    return cases


# ------------------------------------------------------------ real code
def items_sorted(d, cl, rev=False):
    """ canonical dump of a store dict: rev maps are keyed by values """
    def cid(x):
        return -1 if x is None else cl.id(x)      # None must never be there

    def num(x):
        return -1 if x is None else x
    if rev:
        return sorted([cid(k), num(v)] for k, v in d.items())
    return sorted([num(k), cid(v)] for k, v in d.items())


def run_impl(case, mgr=None):
    from searchkit.results_store import (ResultStoreSimple,
                                         ResultStoreParallel)
    cl = Classes()
    kind, bsize = case['kind'], case['bsize']
    granter = None
    if kind == 0:
        st = ResultStoreSimple()
        local = st
    elif kind in (1, 4):
        granter = (Granter if kind == 1 else StripedGranter)(case['p0'],
                                                            case['gaps'])
        st = ResultStoreSimple(f_preallocator=granter,
                               prealloc_block_size=bsize)
        local = st
    else:
        st = ResultStoreParallel(mgr, prealloc_block_size=bsize)
        granter = Granter(0, [])
        real = st.preallocate

        def wrapped(size):
            blk = real(size)
            granter.starts.append(blk[0] if blk else None)
            granter.blocks.append(list(blk))
            return blk
        st.preallocate = wrapped
        local = st.local
    steps = []
    events = []         # (python value, index) for every non-skipped component
    problems = []       # property clauses violated by the implementation
    small = len(case['ops']) <= 60
    syncs = list(case.get('syncs', []))
    mids = []           # shared dicts after every sync()

    def do_sync(when):
        st.sync()
        problems.extend(lookups(st, events, when))
        mids.append([items_sorted(dict(st.data), cl),
                     items_sorted(dict(st.value_store), cl, True),
                     items_sorted(dict(st.tag_store), cl, True),
                     items_sorted(dict(st.sequence_id_store), cl, True)])
    for n_op, (tag, sq, value) in enumerate(case['ops']):
        if n_op in syncs:
            do_sync(f"after the sync() that follows {n_op} adds")
        try:
            ti, si, vi = st.add(tag, sq, value)
        except Exception as exc:  # pylint: disable=broad-except
            problems.append(f"add raised {type(exc).__name__}: {exc} at "
                            f"op {n_op}")
            steps.append([-1])
            break
        for x, i in ((value, vi), (tag, ti), (sq, si)):
            events.append((x, i))
        ngr = len(granter.starts) if granter else 0
        steps.append([[None if i is None else [i] for i in (ti, si, vi)],
                      ngr, len(local.data)])
        # (plain store: index = |data| is a model-level fact, compared
        # through the model only - not a clause of the property)
        if kind != 0 and ngr != math.ceil(len(local.data) / bsize):
            problems.append(f"blocks requested {ngr} != ceil("
                            f"{len(local.data)}/{bsize}) at op {n_op}")
        if small:
            problems += lookups(local, events, f"after op {n_op}")
    if not small:
        problems += lookups(local, events, "at the end")
    problems += judge_events(events)
    if None in list(local.data.values()):
        problems.append("None stored in data")
    if local.get(10 ** 9) is not None:
        problems.append("get() of an index never handed out is not None")
    starts = list(granter.starts) if granter else []
    if kind != 0:
        order = []
        for _, i in events:
            if i is not None and i not in order:
                order.append(i)
        want = [i for blk in granter.blocks for i in blk][:len(order)]
        if order != want:
            problems.append("indices not taken from the granted blocks in "
                            f"order: {order[:12]} vs {want[:12]}")
    out = {'steps': steps,
           'final': [items_sorted(local.data, cl),
                     items_sorted(local.value_store, cl, True),
                     items_sorted(local.tag_store, cl, True),
                     items_sorted(local.sequence_id_store, cl, True),
                     starts]}
    if kind == 2:
        if len(case['ops']) in syncs:
            do_sync("after a sync() following all adds")
        do_sync("after the final sync()")
        st.unproxy_results()
        problems += lookups(st, events, "after unproxy_results")
        unprox = [items_sorted(st.data, cl),
                  items_sorted(st.value_store, cl, True),
                  items_sorted(st.tag_store, cl, True),
                  items_sorted(st.sequence_id_store, cl, True)]
        if not all(isinstance(d, dict) for d in
                   (st.data, st.value_store, st.tag_store,
                    st.sequence_id_store)):
            problems.append("unproxy_results left a proxy behind")
        out['final'] += [mids, unprox]
    out['ops_ids'] = [(cl.id(t), cl.id(s), cl.id(v))
                      for (t, s, v) in case['ops']]
    # the history cut at the syncs: one segment per sync() (kind 2 ends with
    # a final sync, so the last segment may be empty)
    cuts = [0] + [k for k in syncs] + [len(case['ops'])]
    out['segs'] = [out['ops_ids'][a:b] for a, b in zip(cuts, cuts[1:])]
    return out, problems


# ------------------------------------------------------------ hang guard
class Hung(Exception):
    pass


class deadline:
    """ the real RESULTS_STORE_LOCK is not re-entrant: code that asks for it
    while holding it blocks for ever.  Turn that into an exception, and
    leave the lock free for whatever runs next. """
    def __init__(self, seconds, what):
        self.seconds, self.what = seconds, what

    def __enter__(self):
        import signal

        def on_alarm(*_a):
            raise Hung(f"{self.what}: no progress for {self.seconds} s "
                       "(blocked on the results-store lock?)")
        self.old = signal.signal(signal.SIGALRM, on_alarm)
        signal.alarm(self.seconds)
        return self

    def __exit__(self, etype, *_a):
        import signal
        signal.alarm(0)
        signal.signal(signal.SIGALRM, self.old)
        if etype is not None:
            free_store_lock()
        return False


def free_store_lock():
    import searchkit.results_store as RS
    lock = RS.RESULTS_STORE_LOCK
    if lock.acquire(timeout=0.2):
        lock.release()
        return
    try:
        lock.release()          # left behind by a blocked / killed holder
    except ValueError:
        pass


# ------------------------------------------------------------ real forks
def fork_scenario(rng, n):
    bsize = [4, 2, 1000][n % 3] if n < 3 else rng.choice([2, 3, 4, 1000])
    names = [f"w{i}" for i in range(40)]
    rng.shuffle(names)
    return {'bsize': bsize,
            'pre': names[:rng.choice([1, 1, 2])],          # parent, before the fork
            'children': [names[5 + 4 * k: 5 + 4 * k + rng.choice([2, 3])]
                         for k in range(rng.choice([2, 2, 3]))],
            'post': names[30:30 + rng.choice([1, 2, 3])]}  # parent, after


def fork_after_use(mgr, bsize, pre, children, post):
    """ the creating process adds `pre` to a manager-backed store, THEN forks
    one worker per entry of `children`; every worker adds its values and
    syncs, the parent adds `post` and syncs.  Returns what every process was
    handed and the shared table afterwards. """
    import multiprocessing
    import os
    import queue
    from searchkit.results_store import (ResultStoreParallel,
                                         ResultStoreException)
    ctx = multiprocessing.get_context('fork')
    st = ResultStoreParallel(mgr, prealloc_block_size=bsize)
    handed = [[st.add(None, None, v)[2], v] for v in pre]
    q = ctx.Queue()

    def worker(k, vals):
        got = []
        try:
            for v in vals:
                got.append([st.add(None, None, v)[2], v])
            st.sync()
            q.put((k, 'ok', got, ''))
        except ResultStoreException as exc:
            q.put((k, 'refused', got, str(exc)))
        except Exception as exc:  # pylint: disable=broad-except
            q.put((k, 'error', got, repr(exc)))
        finally:
            q.close()
            q.join_thread()
            os._exit(0)
    procs = [ctx.Process(target=worker, args=(k, vals))
             for k, vals in enumerate(children)]
    for p in procs:
        p.start()
    parent_error = None
    try:
        with deadline(20, "creator's adds + sync"):
            for v in post:
                handed.append([st.add(None, None, v)[2], v])
            st.sync()
    except Exception as exc:  # pylint: disable=broad-except
        parent_error = f"{type(exc).__name__}: {exc}"
    kids = {}
    try:
        for _ in procs:
            k, status, got, msg = q.get(timeout=30)
            kids[k] = {'status': status, 'handed': got, 'message': msg}
    except queue.Empty:
        pass
    for p in procs:
        p.join(timeout=10)
        if p.is_alive():
            p.kill()
    for k in range(len(children)):
        kids.setdefault(k, {'status': 'no-answer', 'handed': [],
                            'message': ''})
    free_store_lock()
    return {'parent': handed, 'parent_error': parent_error,
            'children': [kids[k] for k in range(len(children))],
            'shared': dict(st.data)}


def judge_fork(obs):
    """ no index handed out twice for different values; every index a
    process that synchronised handed out resolves to its value.  A late
    worker that is REFUSED (ResultStoreException) was handed nothing and is
    fine. """
    bad = []
    if obs.get('parent_error'):
        bad.append(f"creating process: {obs['parent_error']}")
    owners = {}
    who = [('parent', obs['parent'])] + [
        (f"worker {k}", c['handed']) for k, c in enumerate(obs['children'])]
    for name, pairs in who:
        for idx, v in pairs:
            if idx in owners and owners[idx][1] != v:
                bad.append(f"index {idx} handed out twice: to "
                           f"{owners[idx][0]} for {owners[idx][1]!r} and to "
                           f"{name} for {v!r}")
            owners.setdefault(idx, (name, v))
    for k, c in enumerate(obs['children']):
        if c['status'] not in ('ok', 'refused'):
            bad.append(f"worker {k}: {c['status']} {c['message'][:120]}")
        if c['status'] == 'refused' and c['handed']:
            bad.append(f"worker {k} was refused after being handed "
                       f"{c['handed']}")
    done = ([] if obs.get('parent_error') else [('parent', obs['parent'])]) + [
        (f"worker {k}", c['handed']) for k, c in enumerate(obs['children'])
        if c['status'] == 'ok']
    for name, pairs in done:
        for idx, v in pairs:
            if obs['shared'].get(idx) != v:
                bad.append(f"after all syncs shared[{idx}] = "
                           f"{obs['shared'].get(idx)!r}, {name} stored "
                           f"{v!r} under it")
    return bad


def lookups(store, events, when):
    bad = []
    for x, i in events:
        if i is None:
            continue
        try:
            got = store[i]
            got2 = store.get(i)
        except KeyError:
            bad.append(f"index {i} (value {x!r}) does not resolve {when}")
            continue
        if not (got == x and got2 == x):
            bad.append(f"index {i} resolves to {got!r}, stored {x!r} {when}")
    return bad[:3]


def judge_events(events):
    """ the injective-table clauses, on the implementation's own outputs """
    bad = []
    by_val, by_idx = {}, {}
    for x, i in events:
        if (x is None) != (i is None):
            bad.append(f"None/index mismatch: value {x!r} got index {i!r}")
            continue
        if x is None:
            continue
        if by_val.setdefault(x, i) != i:
            bad.append(f"equal values, different indices: {x!r} -> "
                       f"{by_val[x]} and {i}")
        if i in by_idx and not by_idx[i] == x:
            bad.append(f"different values share index {i}: {by_idx[i]!r} "
                       f"and {x!r}")
        by_idx.setdefault(i, x)
    return bad[:5]


# ------------------------------------------------------------ model side
PREAMBLE = r"""
From SK Require Import Model.Store Spec.Store.
Fixpoint ins (p : Z * Z) (l : list (Z * Z)) : list (Z * Z) :=
  match l with
  | [] => [p]
  | q :: r => if fst p <=? fst q then p :: l else q :: ins p r
  end.
Definition dsort (d : list (Z * Z)) : list (Z * Z) := fold_right ins [] d.
Definition jd (d : list (Z * Z)) : jv :=
  JL (map (fun p => JL [JZ (fst p); JZ (snd p)]) (dsort d)).
Definition jo (o : option Z) : jv := JO JZ o.
Definition jret (r : ret) : jv :=
  let '(a, b, c) := r in JL [jo a; jo b; jo c].
Fixpoint trace (s : store) (ops : list op) : store * list jv :=
  match ops with
  | [] => (s, [])
  | o :: r =>
      match add s o with
      | ErrAlloc => (s, [JL [JZ (-1)]])
      | Ok (s1, x) =>
          let '(s2, js) := trace s1 r in
          (s2, JL [jret x; JZ (Z.of_nat (ngrants s1)); JZ (lenZ (data s1))]
               :: js)
      end
  end.
Definition jsh (sh : shared) : jv :=
  JL [jd (sh_data sh); jd (sh_vstore sh); jd (sh_tstore sh); jd (sh_sstore sh)].
(* the history cut at the sync() calls: after every segment the local store
   is merged into the shared dicts (and left as it is) *)
Fixpoint run_segs (s : store) (sh : shared) (segs : list (list op))
  : store * list jv * shared * list jv :=
  match segs with
  | [] => (s, [], sh, [])
  | seg :: r =>
      let '(s1, js) := trace s seg in
      let sh1 := sync s1 sh in
      let '(s2, js2, sh2, ms) := run_segs s1 sh1 r in
      (s2, js ++ js2, sh2, jsh sh1 :: ms)
  end.
Definition case_t := (Z * Z * Z * list Z * list (list op))%type.
Definition run_case (c : case_t) : jv :=
  let '(kind, bsize, p0, gaps, segs) := c in
  let s0 := if kind =? 0 then init_plain
            else init_pre bsize (start_of p0 bsize gaps) in
  let '(s, js, sh, mids) := run_segs s0 shared_empty segs in
  let starts := map (pstart s) (seq 0 (ngrants s)) in
  let local := [jd (data s); jd (vstore s); jd (tstore s); jd (sstore s);
                JZs starts] in
  JL [JL js; JL (local ++ (if kind =? 2 then [JL mids; jsh (unproxy sh)]
                           else []))].
"""


def coq_opt(x):
    return "None" if x is None else f"Some {x}"


def coq_case(case, segs):
    def seg(ids):
        return "[" + "; ".join(
            f"({coq_opt(t)}, {coq_opt(s)}, {coq_opt(v)})"
            for (t, s, v) in ids) + "]"
    return (f"({case['kind']}, {case['bsize']}, {case['p0']}, "
            f"{vlib.zl(case['gaps'])}, "
            f"([{'; '.join(seg(x) for x in segs)}] : list (list op)))")


def run(chk):
    chk.prove(PROPS)
    import multiprocessing
    chk.coverage['rule'] = (
        "case = (store kind, block size, allocator gaps, history of "
        "add(tag, seq, value)); components drawn from one small pool shared "
        "by the three namespaces (incl. ==-equal values of different type "
        "and None), plus histories with exactly k*bsize-1 / k*bsize / "
        "k*bsize+1 distinct values; manager-backed histories with sync() "
        "calls in between; a striping pre-allocator; real fork-after-use "
        "runs; non-trivial = at least two distinct "
        "values and one repeated value; distinct = different (kind, bsize, "
        "gaps, id history)")
    mgr_n = 40 if chk.quick else 300
    cases = gen_cases(chk, mgr_n)
    mgr = None
    outs, coq_cases, wants, ran = [], [], [], []
    seen = set()
    hangs = 0
    try:
        for c in cases:
            if c['kind'] == 2 and mgr is None:
                mgr = multiprocessing.Manager()
            try:
                if c['kind'] == 2:
                    if hangs >= 2:          # do not wait for the same hang
                        chk.dist('manager-backed-histories-skipped-after-hangs')
                        continue
                    with deadline(10 if len(c['ops']) < 200 else 60,
                                  "manager-backed history"):
                        out, problems = run_impl(c, mgr)
                else:
                    out, problems = run_impl(c, mgr)
            except Exception as exc:  # pylint: disable=broad-except
                hangs += isinstance(exc, Hung)
                chk.violation(
                    f"store-raised kind={c['kind']} bsize={c['bsize']}: "
                    f"{type(exc).__name__}",
                    {'exception': repr(exc)[:300], 'kind': c['kind'],
                     'prealloc_block_size': c['bsize'], 'gaps': c['gaps'],
                     'history': [list(map(repr, o)) for o in c['ops']][:200]})
                outs.append(None)
                continue
            ids = out['ops_ids']
            if c['kind'] != 4:          # striped blocks: judged directly only
                outs.append(out)
                ran.append(c)
                coq_cases.append(coq_case(c, out['segs']))
                wants.append([out['steps'], out['final']])
            if c.get('syncs'):
                chk.dist('histories-with-intermediate-sync')
            for p in problems[:1]:
                chk.violation(
                    f"store-clause kind={c['kind']} bsize={c['bsize']}: "
                    f"{p.split(':')[0][:60]}",
                    {'clause_violated': problems[:5], 'kind': c['kind'],
                     'prealloc_block_size': c['bsize'], 'gaps': c['gaps'],
                     'p0': c['p0'],
                     'sync_called_after_n_adds': c.get('syncs', []),
                     'preallocator': {0: None, 1: 'pointer with gaps',
                                      2: 'ResultStoreParallel.preallocate',
                                      4: 'striped blocks k, k+64, ..'}
                     [c['kind']],
                     'history': [list(map(repr, o))
                                 for o in c['ops']][:200]})
            flat = [x for o in ids for x in o if x is not None]
            key = (c['kind'], c['bsize'], tuple(c['gaps']), tuple(ids))
            if key not in seen:
                seen.add(key)
                if len(set(flat)) >= 2 and len(flat) > len(set(flat)):
                    chk.coverage['distinct_nontrivial'] += 1
            nd = len(set(flat))
            chk.dist(f"kind{c['kind']}")
            chk.dist(f"bsize{c['bsize']}")
            if c['kind'] and nd and nd % c['bsize'] == 0:
                chk.dist('ends-exactly-on-block-boundary')
            if c['kind'] and nd > c['bsize']:
                chk.dist('rolled-over')
            if any(o[2] is not None and (o[2] == o[0] or o[2] == o[1])
                   for o in ids):
                chk.dist('value-equals-own-tag-or-seq')
            if any(x is None for o in ids for x in o):
                chk.dist('has-None-component')
        # two local stores on ONE manager-backed pointer, stepped through
        # adversarial interleavings by C06's cooperative scheduler: every
        # index handed out must come from a block granted to THAT store only
        from c06 import run_real as sched_run, judge as sched_judge
        two = [(1, [[(0, 4), (0, 5)], [(0, 6), (0, 7)]]),
               (2, [[(0, 4), (1, 5), (0, 6)], [(0, 7), (0, 8), (2, 9)]]),
               (3, [[(0, 0), (0, 1)], [(0, 5), (0, 1), (0, 6), (0, 7)]])]
        for b, progs in two:
            scheds = [[0, 1] * 40, [1, 0] * 40, [0, 0, 1, 1] * 20]
            scheds += [[0] * k + [1] * 8 + [0] * 8 for k in range(1, 7)]
            for sc_ in scheds:
                try:
                    o = sched_run(b, progs, sc_)
                    bad = sched_judge(b, o)
                except Exception as exc:  # pylint: disable=broad-except
                    o, bad = {}, [f"run raised {type(exc).__name__}: {exc}"]
                chk.coverage['evaluations'] += 1
                chk.dist('two-stores-one-pointer-schedules')
                for x in bad[:1]:
                    chk.violation(
                        f"store-two-workers bsize={b}: "
                        f"{x.split(':')[0].split(' [')[0][:50]}",
                        {'clause_violated': bad[:5],
                         'prealloc_block_size': b,
                         'programs (namespace, value id) per store': progs,
                         'schedule': o.get('schedule'),
                         'blocks': o.get('blocks'),
                         'handed (index, value)': o.get('handed'),
                         'shared_data': (o.get('shared') or [None])[0]})
        # a manager-backed store used by its creator BEFORE worker
        # processes are forked (real processes)
        if mgr is None:
            mgr = multiprocessing.Manager()
        for n in range(3 if chk.quick else 12):
            sc = fork_scenario(chk.rng, n)
            try:
                obs = fork_after_use(mgr, **sc)
                bad = judge_fork(obs)
            except Exception as exc:  # pylint: disable=broad-except
                obs, bad = {}, [f"run raised {type(exc).__name__}: {exc}"]
            chk.coverage['evaluations'] += 1
            chk.dist('fork-after-use-runs')
            chk.dist('late-workers-refused',
                     sum(1 for c in obs.get('children', [])
                         if c['status'] == 'refused'))
            for b in bad[:1]:
                chk.violation(
                    f"store-fork-after-use bsize={sc['bsize']}: "
                    f"{b.split(':')[0][:50]}",
                    {'clause_violated': bad[:5], 'scenario': sc,
                     'observed': obs})
    finally:
        if mgr is not None:
            mgr.shutdown()
    mism, errs = vlib.eval_cases(chk.work, 'hist', '', PREAMBLE, 'run_case',
                                 coq_cases, wants, shard=120, timeout=1200)
    chk.coverage['evaluations'] += len(cases)
    chk.coverage['traces_validated_against_impl'] += len(cases)
    for e in errs:
        chk.broken.append({'obligation': 'correspondence histories (coqc)',
                           'why': e})
    for i, v in mism:
        c = ran[i] if i >= 0 else {}
        chk.violation(
            f"model-vs-impl kind={c.get('kind')} bsize={c.get('bsize')}",
            {'case': coq_cases[i] if i >= 0 else None,
             'history': [list(map(repr, o)) for o in c.get('ops', [])][:60],
             'impl': wants[i] if i >= 0 else None, 'model': v},
            witness=False)
    for c, o in list(zip(ran, [o for o in outs if o is not None]))[:3]:
        chk.sample({'kind': c['kind'], 'bsize': c['bsize'],
                    'gaps': c['gaps'], 'history': [list(map(repr, x))
                                                   for x in c['ops']][:8],
                    'returns': o['steps'][:8]})
    chk.assumptions += [
        "Python == / hash on the stored values is an equivalence consistent "
        "between dict lookup and the linear == scan (true for str, bytes, "
        "int, float (not NaN), bool, tuples of those); the harness maps "
        "values to those classes with a dict",
        "the pre-allocator hands out pairwise disjoint blocks in increasing "
        "order (ResultStoreParallel.preallocate under its lock: C06)",
        "multiprocessing.Manager dict / Value proxies behave as dict / int "
        "cells; copy.deepcopy of a DictProxy yields its contents"]
