"""E2E (capstone) - correspondence of the COMPOSED whole-run model
(coq/Model/Run.v [run_simple]: Gzip.execute -> Task.apply_global with
SinceSeek.apply_to_file on the BYTES -> Lines.lines_from -> Task.execute ->
Stats.run_stats) with the real single-file `FileSearcher.run()`.

Not a property check of its own: `e2e_cases(chk, n)` returns (cases, wants,
metas) for `vlib.eval_cases(chk.work, 'e2e', IMPORTS, PREAMBLE, RUNNER, ...)`
(harness/c17.py imports it).  `run_e2e(chk, n)` does the evaluation and
reports through chk.

Per case: a time-ordered log (undated / empty lines anywhere, with or without
final line feed, sometimes empty, sometimes gzip), 1-3 simple definitions
(hints, several patterns, own since constraints, store on/off, one registered
twice), an optional file-level since constraint whose boundary falls inside
the log, sometimes one definition registered with
allow_global_constraints=False, the real or small patched flush thresholds.
The REAL run gives results per definition (line number, values) and the
statistics; the Coq side evaluates the composed model on the file's BYTES
with oracle tables made here by plain `re` / `datetime` (never through
searchkit): per distinct line what every pattern / hint / line-level
constraint answers, per 64-byte window at a line start the timestamp.  The
model's third output says whether it equals Spec/Run.v [spec_run] on the
case (theorem E2E_single_file_run_exact, evaluated)."""
import os
import re
import tempfile

import gen_logs as G
import recipes as RC
import skrun
import vlib

PROPS = ['Props/E2E.v']
IMPORTS = ''
RUNNER = 'e2e_run'

PREAMBLE = r"""
From SK Require Import Model.Seek Model.SinceSeek Model.Lines Model.Task
     Model.Stats Model.Gzip Model.Run Spec.Task Spec.Run Gen.Params.
Open Scope Z_scope.

Fixpoint bytes_eqb (a b : list Z) : bool :=
  match a, b with
  | [], [] => true
  | x :: a', y :: b' => (x =? y) && bytes_eqb a' b'
  | _, _ => false
  end.
Fixpoint lookup {V} (k : list Z) (t : list (list Z * V)) : option V :=
  match t with
  | [] => None
  | (k', v) :: r => if bytes_eqb k k' then Some v else lookup k r
  end.
(* oracle tables: line bytes -> what re / the constraints answer on the
   decoded line; window bytes -> timestamp (seconds) *)
Definition e2e_classify (tab : list (list Z * tline)) (l : list Z) : tline :=
  match lookup l tab with Some t => t | None => mkTline [] [] [] end.
Definition e2e_tsw (tab : list (list Z * option Z)) (w : list Z) : option Z :=
  match lookup w tab with Some v => v | None => None end.

Definition e2e_case : Type :=
  Z * Z * (Z * bool * list Z) * option Z * list Z * list sdef
  * list (list Z * tline) * list (list Z * option Z).

Definition view_jv (v : list (Z * list (Z * list (Z * Z)))) : jv :=
  JL (map (fun kv => JL [JZ (fst kv);
            JL (map (fun o => JL [JZ (fst o); JZs (map snd (snd o))])
                    (snd kv))]) v).
Definition stats_jv (s : stats) : jv :=
  JL [JZ (st_searches s); JZs (st_by_job s); JZ (st_lines s);
      JZ (st_completed s); JZ (st_total s); JZ (st_results s)].
Definition full_jv (v : list (Z * list (Z * list (Z * Z)))) : jv :=
  JL (map (fun kv => JL [JZ (fst kv);
            JL (map (fun o => JL [JZ (fst o);
                      JL (map (fun p => JL [JZ (fst p); JZ (snd p)]) (snd o))])
                    (snd kv))]) v).

(* [results per distinct definition; statistics; model = spec_run ?] *)
Definition e2e_run (c : e2e_case) : jv :=
  let '(mx, nb, (rs, gz, bytes), since, restr, ds, ltab, wtab) := c in
  let f := mkFile rs (if gz then Gz else Plain) bytes in
  let cl := e2e_classify ltab in
  let tw := e2e_tsw wtab in
  match run_simple SEEK_HORIZON MAX_SEEK_HORIZON_EXPAND
                   MAX_TRY_FIND_WITH_DATE_ATTEMPTS MAX_DATETIME_READ_BYTES
                   tw tline cl t_omatch t_ohint t_ocon mx nb
                   (mkStats 5 [5] 5 5 5 5) f since restr ds with
  | RunOk coll st =>
      let spec := spec_run MAX_DATETIME_READ_BYTES tw tline cl t_omatch
                           t_ohint t_ocon since restr ds bytes in
      JL [view_jv (simple_view (distinct ds) coll); stats_jv st;
          JB (jv_eqb (JL [full_jv (simple_view ds coll); stats_jv st])
                     (JL [full_jv (fst spec); stats_jv (snd spec)]))]
  | RunHangs => JL [JZ (-2)]
  | RunRaises => JL [JZ (-3)]
  end.
"""


# ------------------------------------------------------------------ cases
BROAD_POOL = [
    ([r'(?:\S+ \S+ )?(\w+)(?: (\d+))?'], None),
    ([r'^\d{4}-\d{2}-\d{2} \S+ (\w+)', r'(\w+)'], None),
    ([r'.*?(\d+)?$'], None),
    ([r'.*(a)'], 'a'),
]


def gen_case(rng, base, idx):
    d = os.path.join(base, f"e2e{idx}")
    r = rng.random()
    if r < 0.06:
        data = b''
    else:
        data = G.gen_log(rng, rng.choice([1, 2, 3, 5, 8, 13, 21]),
                         undated_p=rng.choice([0.0, 0.2, 0.4]),
                         final_newline=rng.random() < 0.7, long_p=0.0)
    gz = None
    if rng.random() < 0.2:
        gz = {'level': rng.choice([1, 6, 9]), 'cuts': [], 'mtime': 0}
        if len(data) > 4 and rng.random() < 0.5:
            gz['cuts'] = [rng.randrange(1, len(data))]      # two members
    skrun.materialise(d, {'f.log': (data, gz)})
    use_global = rng.random() < 0.75
    cons = RC.gen_constraints(rng, 3)
    if use_global and data and rng.random() < 0.7:
        # put the boundary ON / just around one of the timestamps
        stamps = [G.line_ts(ln.decode()) for ln in G.split_lines(data)]
        stamps = [s for s in stamps if s is not None]
        if stamps:
            from datetime import datetime, timedelta
            s = rng.choice(stamps[1:] or stamps) + rng.choice([-1, 0, 0, 1])
            cur = datetime.fromordinal(s // 86400) + timedelta(
                seconds=s % 86400, hours=24)
            cons[0] = {'current': cur.strftime(G.TS_FMT), 'days': 0,
                       'hours': 24}
    defs = RC.gen_defs(rng, 3, nsimple=rng.choice([1, 2, 3]), nseq=0,
                       allow_cons=True)
    if rng.random() < 0.6:
        # one definition that matches most lines (dated or not), so that
        # skipped / gated lines show in the results
        pats, hint = rng.choice(BROAD_POOL)
        defs[0]['patterns'], defs[0]['hint'] = list(pats), hint
    for dd in defs:
        # own constraints never the file-level object (C08's business)
        dd['constraints'] = [c for c in dd['constraints'] if c != 0]
    adds, restricted = [], set()
    for di in range(len(defs)):
        allow = True
        if use_global and rng.random() < 0.12:
            allow = False
            restricted.add(di)
        adds.append([di, 'f.log', allow])
    if rng.random() < 0.3:
        di = rng.randrange(len(defs))
        adds.append([di, 'f.log', di not in restricted])    # registered twice
    rng.shuffle(adds)
    run = {'global': 0 if use_global else None, 'decode_errors': None,
           'max_parallel_tasks': rng.choice([0, 1, 8]), 'adds': adds,
           'new_searcher': True}
    recipe = {'dir': d, 'constraints': cons, 'defs': defs, 'runs': [run]}
    if rng.random() < 0.5:
        recipe['patch'] = {'NUM_BUFFERED_RESULTS': rng.choice([1, 2, 5]),
                           'TRANSIT_MAX': rng.choice([1, 2, 3])}
    return recipe, data, gz, restricted


def con_outcome(since, text):
    ts = G.line_ts(text)
    if ts is None:
        return None
    return 'Pass' if ts >= since else 'Fail'


def tables(recipe, data, vals):
    """ (line table, window table) as Coq text, by plain re / datetime;
    `data`: the bytes of the file, or a list of them (multi-file runs) """
    datas = data if isinstance(data, list) else [data]
    defs = recipe['defs']
    sinces = [G.since_secs(c) for c in recipe['constraints']]
    comp = [RC.compile_def(d) for d in defs]
    ltab, seen = [], set()
    for raw in [ln for dt in datas for ln in G.split_lines(dt)]:
        if raw in seen:
            continue
        seen.add(raw)
        text = raw.decode('utf-8')
        ms, hs, cs = [], [], []
        for i, cd in enumerate(comp):
            for j, p in enumerate(cd['pats']):
                m = p.match(text)
                if m:
                    ms.append((10 * (i + 1) + j,
                               [vals(m.group(0))] + [vals(g)
                                                     for g in m.groups()]))
            if cd['hint'] is not None and cd['hint'].search(text):
                hs.append(i + 1)
        for ci, s in enumerate(sinces):
            o = con_outcome(s, text)
            if o is not None:
                cs.append((ci + 1, o))
        ltab.append(f"({vlib.zl(list(raw))}, mkTline ["
                    + "; ".join(f"({p}, {vlib.zl(g)})" for p, g in ms)
                    + f"] {vlib.zl(hs)} ["
                    + "; ".join(f"({c}, {o})" for c, o in cs) + "])")
    wtab, seen = [], set()
    for dt in datas:
        off = 0
        for raw in G.split_lines(dt):
            w = dt[off:off + 64]
            off += len(raw)
            if w in seen:
                continue
            seen.add(w)
            ts = G.line_ts(w.decode('utf-8', errors='backslashreplace'))
            wtab.append(f"({vlib.zl(list(w))}, "
                        + ("None" if ts is None else f"Some {ts}") + ")")
    return ("[" + "; ".join(ltab) + "]") if ltab else "[]", \
           ("[" + "; ".join(wtab) + "]") if wtab else "[]"


def coq_sdef(defs, di):
    d = defs[di]
    k = di + 1
    return (f"mkSdef {k} "
            f"{vlib.zl([10 * k + j for j in range(len(d['patterns']))])} "
            + (f"(Some {k})" if d.get('hint') else "None")
            + f" {'true' if d['store'] else 'false'} {k} "
            + vlib.zl([c + 1 for c in d['constraints']]))


def coq_case(recipe, data, gz, vals):
    defs = recipe['defs']
    run = recipe['runs'][0]
    pt = recipe.get('patch') or {}
    mx = pt.get('TRANSIT_MAX', 'TRANSIT_MAX')
    nb = pt.get('NUM_BUFFERED_RESULTS', 'NUM_BUFFERED_RESULTS')
    path = os.path.join(recipe['dir'], 'f.log')
    raw_size = os.path.getsize(path)
    since = 'None'
    if run['global'] is not None:
        since = f"(Some {G.since_secs(recipe['constraints'][run['global']])})"
    restr = []
    for di, _, allow in run['adds']:
        if not allow:
            restr.insert(0, di + 1)          # add_restriction conses
    sdefs = [coq_sdef(defs, di) for di, _, _ in run['adds']]
    ltab, wtab = tables(recipe, data, vals)
    return (f"({mx}, {nb}, ({raw_size}, {'true' if gz else 'false'}, "
            f"{vlib.zl(list(data))}), {since}, {vlib.zl(restr)}, "
            "[" + "; ".join(sdefs) + f"], {ltab}, {wtab})")


def impl_want(recipe, obs, vals):
    """ canonical observation of the real run, in the model's shape """
    run = recipe['runs'][0]
    rows = obs['results'].get('f.log', [])
    order = []
    for di, _, _ in run['adds']:
        if di not in order:
            order.append(di)
    per = []
    for di in order:
        tag = recipe['defs'][di]['tag']
        per.append([di + 1, [[r[0], [vals(v) for v in r[2]]]
                             for r in rows if r[1] == tag]])
    st = obs['stats']
    return [per, [st['searches'], st['searches_by_job'], st['lines_searched'],
                  st['jobs_completed'], st['total_jobs'], st['results']], 1]


def e2e_cases(chk, n=50):
    """ -> (cases, wants, metas); evaluate with
    vlib.eval_cases(chk.work, 'e2e', IMPORTS, PREAMBLE, RUNNER, cases, wants) """
    base = tempfile.mkdtemp(prefix='e2e_', dir=chk.work)
    cases, wants, metas = [], [], []
    for idx in range(n):
        recipe, data, gz, restricted = gen_case(chk.rng, base, idx)
        obs = skrun.run_here(recipe)[0]
        meta = {'idx': idx, 'bytes': len(data), 'gzip': bool(gz),
                'lines': len(G.split_lines(data)),
                'global': recipe['runs'][0]['global'] is not None,
                'restricted': bool(restricted),
                'own_constraints': any(d['constraints']
                                       for d in recipe['defs']),
                'patch': recipe.get('patch'), 'exc': obs['exc'],
                'content_hex': data.hex(),
                'recipe': {k: recipe[k] for k in ('constraints', 'defs',
                                                  'runs')}}
        vals = RC.Interner()
        cases.append(coq_case(recipe, data, gz, vals))
        if obs['exc']:
            wants.append([-9])       # the model never raises here
            meta['impl'] = None
        else:
            want = impl_want(recipe, obs, vals)
            wants.append(want)
            meta['impl'] = {'stats': obs['stats'],
                            'results': obs['results'].get('f.log', [])}
            meta['skipped_lines'] = meta['lines'] - obs['stats'][
                'lines_searched']
            meta['nresults'] = obs['stats']['results']
        metas.append(meta)
    return cases, wants, metas


def run_e2e(chk, n=50, tag='e2e'):
    """ generate, evaluate in Coq, report through chk; returns the number of
    disagreeing cases """
    cases, wants, metas = e2e_cases(chk, n)
    mism, errs = vlib.eval_cases(chk.work, tag, IMPORTS, PREAMBLE, RUNNER,
                                 cases, wants)
    for e in errs:
        chk.broken.append({'obligation': 'e2e cases evaluation', 'why': e})
    chk.coverage['evaluations'] += len(cases)
    chk.coverage['distinct_nontrivial'] += sum(
        1 for m in metas if m.get('nresults') and m['global']
        and m.get('skipped_lines'))
    for i, got in mism:
        m = metas[i] if i >= 0 else {}
        # the implementation's own output against the specification is what
        # the composed theorem is about: a disagreement of the real run with
        # a model that equals spec_run on the case (third output 1) is a
        # concrete input on which the implementation differs from the spec
        agrees = isinstance(got, list) and len(got) == 3 and got[2] == 1
        chk.violation('e2e-model-differs ' + (
            'results' if isinstance(got, list) and len(got) == 3
            and got[0] != wants[i][0] else 'stats-or-outcome'),
            {'case': m, 'model': got, 'impl': wants[i] if i >= 0 else None},
            witness=agrees)
    for m in metas[:3]:
        chk.sample({k: m[k] for k in ('idx', 'bytes', 'lines', 'global',
                                      'gzip', 'restricted', 'patch')
                    if k in m})
    for m in metas:
        chk.dist('e2e-global' if m['global'] else 'e2e-whole-file')
        if m['gzip']:
            chk.dist('e2e-gzip')
        if m['restricted']:
            chk.dist('e2e-restricted')
        if m['own_constraints']:
            chk.dist('e2e-own-constraints')
        if m.get('skipped_lines'):
            chk.dist('e2e-seek-skips-lines')
    return len(mism)


# ===================================================== multi-file runs (C02)
RUNNER_MP = 'e2e_run_mp'

PREAMBLE_MP = PREAMBLE + r"""
From SK Require Import Model.Pipeline Model.RunMp Spec.RunMp.
From SK Require Gen.Exprs.

(* a schedule that returns, for any batch structure and any Q >= 1: every
   batch is put and collected at once, the futures complete in REVERSE
   submission order, then the purge finds the queue empty and returns *)
Definition canon_sched (P : list (list (list Z))) : list action :=
  flat_map (fun t => flat_map (fun _ => [Put t; Collect]) (nth t P []))
           (seq 0 (length P))
  ++ map Finish (rev (seq 0 (length P))) ++ [StartPurge; Return].

Definition e2e_case_mp : Type :=
  Z * Z * option Z * list Z * list ((Z * bool * list Z) * list sdef)
  * list (list Z * tline) * list (list Z * option Z).

(* [per file: results per distinct definition; statistics; model = spec ?] *)
Definition e2e_run_mp (c : e2e_case_mp) : jv :=
  let '(mx, nb, since, restr, fls, ltab, wtab) := c in
  let files := map (fun fd : (Z * bool * list Z) * list sdef =>
                     let '((rs, gz, bytes), ds) := fd in
                     mkMfile (mkFile rs (if gz then Gz else Plain) bytes) ds)
                   fls in
  let cl := e2e_classify ltab in
  let tw := e2e_tsw wtab in
  match file_tasks SEEK_HORIZON MAX_SEEK_HORIZON_EXPAND
                   MAX_TRY_FIND_WITH_DATE_ATTEMPTS MAX_DATETIME_READ_BYTES
                   tw tline cl t_omatch t_ohint t_ocon mx nb since restr
                   files with
  | GDone l =>
      let sched := canon_sched (payloads l) in
      match run_files SEEK_HORIZON MAX_SEEK_HORIZON_EXPAND
                      MAX_TRY_FIND_WITH_DATE_ATTEMPTS MAX_DATETIME_READ_BYTES
                      tw tline cl t_omatch t_ohint t_ocon mx nb
                      Gen.Exprs.run_uses_pool 1 sched (mkStats 5 [5] 5 5 5 5)
                      since restr files with
      | MpOk coll st =>
          let spec := spec_run_mp MAX_DATETIME_READ_BYTES tw tline cl
                                  t_omatch t_ohint t_ocon since restr files in
          JL [JL (map (fun tm => view_jv (simple_view (distinct (mf_defs
                                   (snd tm))) (mp_find (fst tm) coll)))
                      (combine (seq 0 (length files)) files));
              stats_jv st;
              JB (match observe_mp files (MpOk coll st) with
                  | Some (v, s) =>
                      jv_eqb (JL [JL (map full_jv v); stats_jv s])
                             (JL [JL (map full_jv (fst spec));
                                  stats_jv (snd spec)])
                  | None => false
                  end)]
      | MpNotReturned => JL [JZ (-4)]
      | MpHangs => JL [JZ (-2)]
      | MpRaises => JL [JZ (-3)]
      end
  | GHangs => JL [JZ (-2)]
  | GRaises => JL [JZ (-3)]
  end.
"""


def gen_case_mp(rng, base, idx):
    d = os.path.join(base, f"e2emp{idx}")
    nfiles = rng.choice([2, 2, 3, 4])
    files, datas, gzs = {}, {}, {}
    for i in range(nfiles):
        if rng.random() < 0.1:
            data = b''
        else:
            data = G.gen_log(rng, rng.choice([1, 3, 5, 8, 13]),
                             undated_p=rng.choice([0.0, 0.2, 0.4]),
                             final_newline=rng.random() < 0.7, long_p=0.0)
        gz = None
        if rng.random() < 0.2:
            gz = {'level': 6, 'cuts': [], 'mtime': 0}
        name = f"f{i}.log"
        files[name] = (data, gz)
        datas[name], gzs[name] = data, gz
    skrun.materialise(d, files)
    use_global = rng.random() < 0.7
    cons = RC.gen_constraints(rng, 3)
    if use_global and rng.random() < 0.7:
        stamps = [s for s in (G.line_ts(ln.decode())
                              for dt in datas.values()
                              for ln in G.split_lines(dt)) if s is not None]
        if stamps:
            from datetime import datetime, timedelta
            s = rng.choice(sorted(stamps)[1:] or stamps)
            cur = datetime.fromordinal(s // 86400) + timedelta(
                seconds=s % 86400, hours=24)
            cons[0] = {'current': cur.strftime(G.TS_FMT), 'days': 0,
                       'hours': 24}
    defs = RC.gen_defs(rng, 3, nsimple=rng.choice([2, 3]), nseq=0,
                       allow_cons=True)
    for dd in defs:
        dd['constraints'] = [c for c in dd['constraints'] if c != 0]
    pats, hint = rng.choice(BROAD_POOL)
    defs[0]['patterns'], defs[0]['hint'] = list(pats), hint
    adds = []
    restricted = set()
    if use_global and rng.random() < 0.25:
        restricted.add(rng.randrange(len(defs)))
    for name in files:
        picked = [i for i in range(len(defs)) if rng.random() < 0.7] or [0]
        for di in picked:
            adds.append([di, name, di not in restricted])
        if rng.random() < 0.2:
            adds.append([picked[0], name, picked[0] not in restricted])
    run = {'global': 0 if use_global else None, 'decode_errors': None,
           'max_parallel_tasks': rng.choice([1, 2, 8]), 'adds': adds,
           'new_searcher': True}
    recipe = {'dir': d, 'constraints': cons, 'defs': defs, 'runs': [run]}
    if rng.random() < 0.5:
        recipe['patch'] = {'NUM_BUFFERED_RESULTS': rng.choice([1, 2, 5]),
                           'TRANSIT_MAX': rng.choice([1, 2, 3])}
    return recipe, datas, gzs, restricted


def coq_case_mp(recipe, order, datas, gzs, vals):
    defs = recipe['defs']
    run = recipe['runs'][0]
    pt = recipe.get('patch') or {}
    mx = pt.get('TRANSIT_MAX', 'TRANSIT_MAX')
    nb = pt.get('NUM_BUFFERED_RESULTS', 'NUM_BUFFERED_RESULTS')
    since = 'None'
    if run['global'] is not None:
        since = f"(Some {G.since_secs(recipe['constraints'][run['global']])})"
    restr = []
    for di, _, allow in run['adds']:
        if not allow:
            restr.insert(0, di + 1)
    fls = []
    for name in order:
        raw_size = os.path.getsize(os.path.join(recipe['dir'], name))
        sdefs = [coq_sdef(defs, di) for di, nm, _ in run['adds']
                 if nm == name]
        fls.append(f"(({raw_size}, {'true' if gzs[name] else 'false'}, "
                   f"{vlib.zl(list(datas[name]))}), ["
                   + "; ".join(sdefs) + "])")
    ltab, wtab = tables(recipe, [datas[n] for n in order], vals)
    return (f"({mx}, {nb}, {since}, {vlib.zl(restr)}, ["
            + "; ".join(fls) + f"], {ltab}, {wtab})")


def impl_want_mp(recipe, obs, order, vals):
    run = recipe['runs'][0]
    per_file = []
    for name in order:
        rows = obs['results'].get(name, [])
        ds = []
        for di, nm, _ in run['adds']:
            if nm == name and di not in ds:
                ds.append(di)
        per_file.append([[di + 1, [[r[0], [vals(v) for v in r[2]]]
                                   for r in rows
                                   if r[1] == recipe['defs'][di]['tag']]]
                         for di in ds])
    st = obs['stats']
    return [per_file,
            [st['searches'], st['searches_by_job'], st['lines_searched'],
             st['jobs_completed'], st['total_jobs'], st['results']], 1]


def e2e_cases_mp(chk, n=7):
    """ multi-file runs, each in a fresh interpreter (own process group,
    hard time limit) -> (cases, wants, metas) for
    vlib.eval_cases(chk.work, 'e2emp', IMPORTS, PREAMBLE_MP, RUNNER_MP, ..) """
    base = tempfile.mkdtemp(prefix='e2emp_', dir=chk.work)
    cases, wants, metas = [], [], []
    for idx in range(n):
        recipe, datas, gzs, restricted = gen_case_mp(chk.rng, base, idx)
        r = skrun.run_fresh(recipe, timeout=120, workdir=base)
        meta = {'idx': idx, 'files': len(datas),
                'global': recipe['runs'][0]['global'] is not None,
                'restricted': bool(restricted),
                'patch': recipe.get('patch'),
                'workers': recipe['runs'][0]['max_parallel_tasks'],
                'recipe': {k: recipe[k] for k in ('constraints', 'defs',
                                                  'runs')},
                'contents_hex': {k: v.hex() for k, v in datas.items()}}
        if r['obs'] is None:
            meta['failed'] = {'timeout': r['timeout'], 'err': r['err']}
            metas.append(meta)
            cases.append(None)
            wants.append(None)
            continue
        obs = r['obs'][0]
        meta['exc'] = obs['exc']
        order = obs['files']
        vals = RC.Interner()
        cases.append(coq_case_mp(recipe, order, datas, gzs, vals))
        if obs['exc']:
            wants.append([-9])
        else:
            wants.append(impl_want_mp(recipe, obs, order, vals))
            meta['impl_stats'] = obs['stats']
            meta['nresults'] = obs['stats']['results']
            meta['skipped_lines'] = sum(
                len(G.split_lines(dt)) for dt in datas.values()
            ) - obs['stats']['lines_searched']
        metas.append(meta)
    return cases, wants, metas


def run_e2e_mp(chk, n=7, tag='e2emp'):
    """ generate, run for real, evaluate the composed multi-file model in
    Coq, report through chk; returns the number of disagreeing cases """
    cases, wants, metas = e2e_cases_mp(chk, n)
    bad = 0
    keep = [i for i, c in enumerate(cases) if c is not None]
    for i, m in enumerate(metas):
        if 'failed' in m:
            bad += 1
            chk.violation('e2emp-run-did-not-complete',
                          {'case': m}, witness=bool(m['failed']['timeout']))
    mism, errs = vlib.eval_cases(chk.work, tag, IMPORTS, PREAMBLE_MP,
                                 RUNNER_MP, [cases[i] for i in keep],
                                 [wants[i] for i in keep])
    for e in errs:
        chk.broken.append({'obligation': 'e2e multi-file cases evaluation',
                           'why': e})
    chk.coverage['evaluations'] += len(keep)
    chk.coverage['distinct_nontrivial'] += sum(
        1 for i in keep if metas[i].get('nresults'))
    for j, got in mism:
        i = keep[j] if j >= 0 else -1
        m = metas[i] if i >= 0 else {}
        agrees = isinstance(got, list) and len(got) == 3 and got[2] == 1
        bad += 1
        chk.violation('e2emp-model-differs ' + (
            'results' if isinstance(got, list) and len(got) == 3
            and got[0] != wants[i][0] else 'stats-or-outcome'),
            {'case': m, 'model': got, 'impl': wants[i] if i >= 0 else None},
            witness=agrees)
    for m in metas:
        chk.dist(f"e2emp-files-{m['files']}")
        if m['global']:
            chk.dist('e2emp-global')
        if m.get('skipped_lines'):
            chk.dist('e2emp-seek-skips-lines')
        if m['restricted']:
            chk.dist('e2emp-restricted')
    return bad
