"""C17 - run statistics describe exactly the run that just finished.

T1: increments and merge discipline from the source (Gen/Exprs.v,
    Gen/Skeleton.v) - Props/C17.v.
T2: real runs (single file in-process, several files in a fresh interpreter,
    repeated runs of one searcher) whose FileSearcher.stats are compared with
    Model/Stats.v's run_stats evaluated inside Coq on (registrations per
    file, lines read per file by an independent reference, results delivered
    per file), and with the spec directly.
"""
import os
import shutil
import tempfile

import gen_logs as G
import recipes as RC
import skrun
import vlib

PROPS = ['Props/C17.v', 'Props/E2E.v']   # E2E: the end-to-end composition


def make_case(rng, base, idx, multi):
    d = os.path.join(base, f"case{idx}")
    nfiles = rng.choice([2, 3, 5, 9]) if multi else 1
    use_global = rng.random() < 0.5 and idx != 2
    ncons = 1 if use_global else 0
    cons = RC.gen_constraints(rng, ncons)
    defs = RC.gen_defs(rng, 0, allow_cons=False)
    files, contents = {}, {}
    for i in range(nfiles):
        r = rng.random()
        if idx == 2 and i == 0:
            # a line longer than 1 MiB is still a line that was read
            data = (b'2022-01-12 00:00:00 alpha 1\n' + b'2022-01-12 00:00:01 '
                    + b'Z' * ((1 << 20) + 17) + b'\n'
                    + b'2022-01-12 00:00:02 alpha 2\nend 3\n')
        elif r < 0.15:
            data = b''
        else:
            data = G.gen_log(rng, rng.choice([1, 3, 12, 40, 120]),
                             undated_p=rng.choice([0.0, 0.2, 0.4]),
                             final_newline=rng.random() < 0.8)
        name = f"f{i}.log"
        gz = None
        if data and rng.random() < 0.2:
            gz = {'level': rng.choice([1, 6, 9]), 'cuts': []}
        files[name] = (data, gz)
        contents[name] = data
    skrun.materialise(d, files)
    broken = None
    if multi and idx % 5 == 1:
        # one file is a gzip stream cut in the middle: the task fails, run()
        # must raise (it must not return statistics of a half-done run)
        import gzip as _gz
        victim = sorted(files)[0]
        blob = _gz.compress(b''.join(b'2022-01-12 00:00:%02d alpha %d\n'
                                     % (i % 60, i) for i in range(4000)))
        with open(os.path.join(d, victim), 'wb') as f:
            f.write(blob[:len(blob) // 2])
        broken = victim
    adds = []
    restricted = set()
    # directory / glob registrations first (they create the catalog entries
    # of several files at once), then per-file registrations over them
    if rng.random() < 0.5:
        for di in range(len(defs)):
            if rng.random() < 0.5:
                adds.append([di, rng.choice(['*.log', '', 'f*']), True])
    for name in files:
        picked = [i for i in range(len(defs)) if rng.random() < 0.8] or [0]
        for di in picked:
            allow = True
            if use_global and rng.random() < 0.1:
                allow = False
                restricted.add(di)
            adds.append([di, name, allow])
            if rng.random() < 0.15:
                adds.append([di, name, allow])     # registered twice
    run = {'global': 0 if use_global else None, 'decode_errors': None,
           'max_parallel_tasks': rng.choice([0, 1, 2, 8]), 'adds': adds,
           'new_searcher': True}
    nruns = rng.choice([1, 1, 2, 3])
    runs = [run] + [dict(run, new_searcher=False) for _ in range(nruns - 1)]
    if not multi and rng.random() < 0.4:
        # a history on ONE searcher: run on one file, register more paths,
        # run again (the file list must be taken afresh on every run)
        more = {}
        for i in range(1, rng.choice([2, 3])):
            data = G.gen_log(rng, rng.choice([3, 12, 40]))
            more[f"f{i}.log"] = (data, None)
            contents[f"f{i}.log"] = data
        skrun.materialise(d, more)
        extra = [[di, nm, True] for nm in more for di in range(len(defs))
                 if rng.random() < 0.8] or [[0, list(more)[0], True]]
        runs = [run, dict(run, new_searcher=False, extra_adds=extra)]
        if rng.random() < 0.5:
            runs.append(dict(run, new_searcher=False))
    recipe = {'dir': d, 'constraints': cons, 'defs': defs, 'runs': runs,
              'expect_failure': broken is not None}
    if rng.random() < 0.5:
        # small thresholds: mid-file flushes and several batches per flush
        recipe['patch'] = {'NUM_BUFFERED_RESULTS': rng.choice([1, 2, 5, 7]),
                           'TRANSIT_MAX': rng.choice([1, 2, 3, 10])}
    return recipe, contents, restricted


def expected_lines(recipe, contents, restricted, files, adds=None):
    """ lines read per file, by the independent reference """
    run = recipe['runs'][0]
    out = []
    for name in files:
        data = contents[name]
        if not data:
            out.append(0)
            continue
        lines = G.split_lines(data)
        on_file = {a[0] for a in (adds if adds is not None else run['adds'])
                   if reaches(a[1], name)}
        if run['global'] is not None and not (on_file & restricted):
            since = G.since_secs(recipe['constraints'][run['global']])
            pos = G.first_in_window(data, since)
            n, off = 0, 0
            for ln in lines:
                if off >= pos:
                    n += 1
                off += len(ln)
            out.append(n)
        else:
            out.append(len(lines))
    return out


def run(chk):
    chk.prove(PROPS)
    chk.coverage['rule'] = (
        "random file sets (1..9 files; empty, gzip and plain files; "
        "time-ordered logs with undated lines), 1-5 definitions incl. "
        "sequence searches, registrations repeated, optional file-level "
        "constraint (some searches restricted), 1-3 consecutive run() calls; "
        "stats compared with Model/Stats.run_stats in Coq and with the spec; "
        "non-trivial = at least one result and (several files or a "
        "constraint that skips lines or a repeated run)")
    base = tempfile.mkdtemp(prefix='c17_', dir=chk.work)
    nsingle, nmulti = (30, 8) if chk.quick else (150, 40)
    cases, wants, metas = [], [], []
    nontrivial = set()
    try:
        for idx in range(nsingle + nmulti):
            multi = idx >= nsingle
            recipe, contents, restricted = make_case(chk.rng, base, idx,
                                                     multi)
            if multi:
                r = skrun.run_fresh(recipe, timeout=120, workdir=base)
                if r['obs'] is None:
                    chk.violation(
                        'run-did-not-complete', {'recipe': recipe_brief(
                            recipe), 'timeout': r['timeout'],
                            'err': r['err']}, witness=r['timeout'])
                    continue
                obs = r['obs']
            else:
                obs = skrun.run_here(recipe)
            adds_so_far = []
            for k, o in enumerate(obs):
                rk = recipe['runs'][k]
                adds_so_far = (list(rk['adds']) if rk.get('new_searcher', True)
                               else adds_so_far) + list(rk.get('extra_adds')
                                                        or [])
                chk.coverage['evaluations'] += 1
                if recipe.get('expect_failure'):
                    chk.dist('failing_task_case')
                    if o['exc'] != 'FileSearchException':
                        chk.violation(
                            "run-with-failed-task-did-not-raise "
                            f"({o['exc']})",
                            {'recipe': recipe_brief(recipe), 'obs': {
                                'exc': o['exc'], 'stats': o['stats'],
                                'len': o.get('len')}})
                    continue
                if o['exc']:
                    chk.violation(f"unexpected-exception {o['exc']}",
                                  {'recipe': recipe_brief(recipe), 'obs': o})
                    continue
                files = o['files']
                st = o['stats']
                if len(st['searches_by_job']) > 4 * len(files) + 64:
                    # keep witnesses and the generated Coq cases small when
                    # the observed list is absurdly long (it is wrong anyway)
                    st = dict(st, searches_by_job=st['searches_by_job'][:64]
                              + [-len(st['searches_by_job'])])
                regs = [sum(1 for a in adds_so_far
                            if reaches(a[1], f)) for f in files]
                nres = [len(o['results'].get(f, [])) for f in files]
                nlines = expected_lines(recipe, contents, restricted, files,
                                        adds_so_far)
                n = len(files)
                spec = {'searches': sum(regs), 'searches_by_job': regs,
                        'lines_searched': sum(nlines),
                        'jobs_completed': 0 if n == 0 else (1 if n == 1
                                                            else n),
                        'total_jobs': 0 if n == 0 else (1 if n == 1 else n),
                        'results': sum(nres)}
                if st['results'] != o['len'] or any(
                        st[k_] != spec[k_] for k_ in spec):
                    chk.violation(
                        "stats-differ " + ",".join(
                            k_ for k_ in spec if st[k_] != spec[k_]),
                        {'recipe': recipe_brief(recipe), 'run_index': k,
                         'impl_stats': st, 'expected': spec,
                         'collection_len': o['len']})
                # model evaluation in Coq: tasks completed in reverse order
                tasks = list(zip(nlines, nres))[::-1]
                cases.append(
                    "(" + vlib.zl(regs) + ", [" + "; ".join(
                        f"mkStats 0 [] {a} 0 0 {b}" for a, b in tasks)
                    + "])")
                wants.append([st['searches'], st['searches_by_job'],
                              st['lines_searched'], st['jobs_completed'],
                              st['total_jobs'], st['results']])
                metas.append({'files': n, 'run_index': k, 'stats': st})
                if sum(nres) > 0 and (n > 1 or k > 0 or
                                      sum(nlines) < sum(
                                          len(G.split_lines(contents[f]))
                                          for f in files)):
                    nontrivial.add((idx, k))
                chk.dist('multi' if n > 1 else 'single')
                if k > 0:
                    chk.dist('repeat_run')
                if rk.get('extra_adds'):
                    chk.dist('adds_between_runs')
            if idx in (0, nsingle):
                chk.sample({'recipe': recipe_brief(recipe),
                            'stats': obs[0]['stats']})
    finally:
        shutil.rmtree(base, ignore_errors=True)
    pre = ("From SK Require Import Model.Stats.\n"
           "Definition garbage := mkStats 7 [7] 7 7 7 7.\n"
           "Definition runner (c : list Z * list stats) : jv :=\n"
           "  let s := run_stats garbage (fst c) (snd c) in\n"
           "  JL [JZ (st_searches s); JZs (st_by_job s); JZ (st_lines s);\n"
           "      JZ (st_completed s); JZ (st_total s); JZ (st_results s)].\n")
    mism, errs = vlib.eval_cases(chk.work, 'stats', '', pre, 'runner', cases,
                                 wants, shard=400)
    for e in errs:
        chk.broken.append({'obligation': 'correspondence (coqc)', 'why': e})
    for i, v in mism:
        chk.violation('model-vs-impl-stats',
                      {'case': metas[i] if i >= 0 else None, 'model': v},
                      witness=False)
    chk.coverage['distinct_nontrivial'] = len(nontrivial)
    chk.coverage['traces_validated_against_impl'] = len(cases)
    # the end-to-end composition (Props/E2E.v): real single-file runs against
    # the COMPOSED model (seek position -> lines -> per-definition results ->
    # statistics) evaluated in Coq on the file's bytes
    import e2e
    e2e.run_e2e(chk, 50 if chk.quick else 300)
    chk.assumptions += [
        "lines read per file are computed by an independent Python reference "
        "of the file-level constraint's position (first line with timestamp "
        ">= since; the C04 spec) on time-ordered logs",
        "results delivered per file are taken from the returned collection "
        "(C01/C02/C03 are about their correctness)"]


def reaches(path, name):
    """ does registering against `path` (file name, '' = the directory, or
    a glob) reach file `name` (all files are called f<i>.log) """
    return path == name or path in ('', '*.log', 'f*')


def recipe_brief(recipe):
    return {'dir': os.path.basename(recipe['dir']),
            'constraints': recipe['constraints'],
            'defs': [(d['kind'], d.get('patterns') or d.get('tag'))
                     for d in recipe['defs']],
            'patch': recipe.get('patch'),
            'runs': [{k: v for k, v in r.items()} for r in recipe['runs']]}
