"""C13 - content alone cannot make a search fail or hang; decode policy
honoured.

T1: exception-flow theorems over the tree skeletons regenerated from the
    source + loop variants (Props/C13.v).
T2: hostile contents x decode policies x constraint placements, each batch
    in a fresh interpreter under a hard wall-clock limit (a hang is an
    outcome).  Oracle (plain Python, never searchkit): with strict decoding
    run() must raise UnicodeDecodeError iff a SEARCHED line is not valid
    UTF-8; with a lenient policy it must return, and simple-search results
    must be those of the line-by-line reading of the searched suffix; no
    other exception class, ever.  The outcome spec (Spec/C13.spec_outcome)
    is evaluated in Coq on the same cases.
"""
import os
import shutil
import tempfile
from concurrent.futures import ThreadPoolExecutor

import gen_logs as G
import recipes as RC
import skrun
import vlib

PROPS = ['Props/C13.v']
POLICIES = [None, 'ignore', 'replace', 'backslashreplace']
LOOKALIKES = [b'2023-02-30 00:00:00 x', b'0000-00-00 00:00:00 y',
              b'2022-13-01 10:00:00 z', b'2022-01-01 24:00:00 w',
              b'2022-01-01 23:59:60 v', b'99999-01-01 00:00:00 u',
              b'2021-02-29 12:00:00 t', b'2022-04-31 01:02:03 s',
              b'2022-00-10 01:02:03 r', b'1' * 5000, b'2022-01-1',
              b'2022-01-10 05:0',
              b'99999999999999999999-01-01 00:00:00 huge year',
              b'2022-01-09 10:00:99999999999999999999 huge seconds',
              b'2022-1-9 1:2:3 narrow fields', b'02022-001-011 010:000:000 p']
BAD = [b'\xff', b'\xc3', b'\xe2\x82', b'\xf0\x9f\x98', b'\x80abc',
       b'\xed\xa0\x80', b'\xc0\xaf']


def hostile(rng, big=False):
    """ returns (bytes, class) """
    k = rng.randrange(14)
    if k == 12:
        # first byte 0x1f (half of the gzip magic) - plain text all the same
        tail = rng.choice([b'', b'\x8a', b'\x00', b'abc\n',
                           G.gen_log(rng, 4)])
        return b'\x1f' + tail, 'starts-with-1f'
    if k == 13:
        data = bytearray(G.gen_log(rng, rng.choice([150, 300])))
        for _ in range(rng.randint(1, 4)):
            data[rng.choice([10, 600, 4000, 4100, 5000, 8000, 8200,
                             len(data) - 2]) % len(data)] = 0
        return bytes(data), 'nul-bytes-in-log'
    if k == 0:
        n = rng.choice([1, 7, 64, 300, 2000])
        return bytes(rng.randrange(256) for _ in range(n)), 'random-bytes'
    if k == 1:
        n = rng.choice([1, 50, 700])
        return bytes(rng.choice([10, 10, 0, 13, 65, 0xff, 0xe2])
                     for _ in range(n)), 'lf-nul-cr-mix'
    if k == 2:
        return b'\n' * rng.choice([1, 2, 17, 600]), 'only-linefeeds'
    if k == 3:
        n = rng.choice([1, 255, 256, 257, 5000])
        return b'q' * n, 'no-linefeed'
    if k == 4:
        lines = [rng.choice(LOOKALIKES) for _ in range(rng.randint(1, 9))]
        return b'\n'.join(lines) + rng.choice([b'', b'\n']), 'lookalikes'
    if k == 5:
        # valid multi-byte characters straddling the 32/64-byte windows
        out = []
        for _ in range(rng.randint(2, 8)):
            pre = rng.choice([30, 31, 61, 62, 63])
            ts = b'2022-01-%02d 10:00:00 ' % rng.randint(9, 12)
            body = b'a' * max(0, pre - len(ts))
            out.append(ts + body + rng.choice(
                ['€', '\U0001f600', 'é']).encode() + b' alpha 3')
        return b'\n'.join(out) + b'\n', 'multibyte-at-window-edge'
    if k == 6:
        # a log with invalid bytes in old lines / new lines / at the end
        data = G.gen_log(rng, rng.choice([5, 20, 80]))
        ls = G.split_lines(data)
        for _ in range(rng.randint(1, 3)):
            i = rng.randrange(len(ls))
            pos = rng.choice([0, 5, 25, 40, len(ls[i]) - 1])
            pos = max(0, min(pos, len(ls[i]) - 1))
            ls[i] = ls[i][:pos] + rng.choice(BAD) + ls[i][pos:]
        return b''.join(ls), 'log-with-invalid-bytes'
    if k == 7:
        # a long run of undated lines between dated ones (> 500 either side)
        n = rng.choice([520, 1100]) if big else rng.choice([3, 40])
        head = G.gen_log(rng, 30, undated_p=0.0)
        mid = b''.join(('dump \u20ac\u20ac line %d \u20ac\n' % i).encode()
                       for i in range(n))
        tail = G.gen_log(rng, 3, undated_p=0.0,
                         t0=G.datetime(2022, 1, 13, 0, 0, 0))
        return head + mid + tail, f'undated-run-{n}'
    if k == 8:
        n = (1 << 20) + rng.choice([-300, -1, 0, 1, 5000]) if big \
            else rng.choice([4000, 70000])
        pre = G.gen_log(rng, 5, undated_p=0.0)
        return (pre + b'2022-01-12 00:00:00 ' + b'L' * n + b'\n'
                + b'2022-01-12 00:00:01 end alpha 1\n'), f'long-line-{n}'
    if k == 9:
        return b'', 'empty-file'
    if k == 10:
        return G.gen_log(rng, rng.choice([1, 10, 60]), ordered=False), \
            'unordered-log'
    data = G.gen_log(rng, rng.choice([3, 30]))
    return data.replace(b'\n', b'\r\n'), 'crlf-log'


def fixed_case(rng, base, idx):
    """ deterministic cases the random classes reach too rarely """
    d = os.path.join(base, f"c{idx}")
    sdef = {'kind': 'simple', 'patterns': [r'.+ alpha (\d+)'], 'tag': 's0',
            'hint': None, 'store': True, 'constraints': []}
    if idx == 1:
        # invalid bytes on exactly the FIRST line inside the window of a
        # file-level constraint (the line the seek lands on), lenient policy
        t0 = G.datetime(2022, 1, 10, 0, 0, 0)
        ls = [(t0 + G.timedelta(hours=i)).strftime(G.TS_FMT).encode()
              + b' alpha %d\n' % i for i in range(72)]
        ls[36] = ls[36][:24] + b'\xff\xfe' + ls[36][24:]
        data = b''.join(ls)
        cons = [{'current': '2022-01-12 12:00:00', 'days': 0, 'hours': 24}]
        policy = rng.choice(['ignore', 'replace', 'backslashreplace'])
        cls, glob = 'invalid-bytes-on-first-in-window-line', 0
    elif idx == 5:
        # one line longer than 1 MiB (no constraint): it is ONE line - the
        # lines after it keep their numbers, and a multi-byte character
        # sitting across the 1 MiB mark is still valid UTF-8
        big = (b'2022-01-12 00:00:00 ' + b'L' * ((1 << 20) - 21)
               + '\u20ac'.encode() + b'L' * 90 + b' alpha 7\n')
        data = b'alpha 1\n' + big + b'alpha 2\nalpha 3\n'
        skrun.materialise(d, {'x.log': data})
        run = {'global': None, 'decode_errors': None,
               'max_parallel_tasks': 4, 'adds': [[0, 'x.log', True]],
               'new_searcher': True}
        recipe = {'dir': d, 'constraints': [], 'defs': [sdef], 'runs': [run]}
        return recipe, {'class': 'line-longer-than-1MiB-no-constraint',
                        'data': data, 'policy': None, 'wide': False,
                        'global': False, 'nfiles': 1}
    elif idx == 7:
        # a TYPED field on an optional group that does not take part in the
        # match on some lines (value None must stay None, never be cast):
        # deterministic since the random typed definitions meet such lines
        # only by chance (seeded C13-7)
        tdef = {'kind': 'simple', 'patterns': [r'^\S+ \S+ (\w+) (\d+)?'],
                'tag': 's0', 'hint': None, 'store': True, 'constraints': [],
                'field_types': {'word': 'str',
                                'num': rng.choice(['int', 'float'])}}
        data = (b'2022-01-10 00:00:00 alpha 1\n'
                b'2022-01-10 01:00:00 beta x\n'
                b'2022-01-10 02:00:00 gamma \n'
                b'2022-01-10 03:00:00 delta 0\n')
        skrun.materialise(d, {'x.log': data})
        run = {'global': None, 'decode_errors': None,
               'max_parallel_tasks': 4, 'adds': [[0, 'x.log', True]],
               'new_searcher': True}
        recipe = {'dir': d, 'constraints': [], 'defs': [tdef], 'runs': [run]}
        return recipe, {'class': 'typed-field-on-absent-optional-group',
                        'data': data, 'policy': None, 'wide': False,
                        'global': False, 'nfiles': 1}
    elif idx == 6:
        # timestamp look-alikes whose FIELDS overflow datetime() (a seconds /
        # year field of 20 digits under a matcher with fields of any width):
        # OverflowError, not ValueError, inside the timestamp extraction -
        # on lines the file-level seek probes (around the window boundary)
        # and on the lines a search's own constraint reads before it
        # activates (seeded C13-16)
        t0 = G.datetime(2022, 1, 10, 0, 0, 0)
        ls = [(t0 + G.timedelta(hours=i)).strftime(G.TS_FMT).encode()
              + b' alpha %d\n' % i for i in range(48)]
        huge_s = b'2022-01-09 10:00:99999999999999999999 alpha 777\n'
        huge_y = b'99999999999999999999-01-01 00:00:00 alpha 778\n'
        for at in (37, 36, 35, 12, 0):
            ls.insert(at, huge_s if at % 2 else huge_y)
        ls.insert(0, huge_s)
        data = b''.join(ls)
        cons = [{'current': '2022-01-12 12:00:00', 'days': 0, 'hours': 24},
                {'current': '2022-01-12 12:00:00', 'days': 0, 'hours': 30}]
        cdef = dict(sdef, tag='s1', constraints=[1])
        skrun.materialise(d, {'x.log': data})
        policy = rng.choice(POLICIES)
        run = {'global': 0, 'decode_errors': policy,
               'max_parallel_tasks': 4,
               'adds': [[0, 'x.log', True], [1, 'x.log', True]],
               'new_searcher': True}
        recipe = {'dir': d, 'constraints': cons, 'defs': [sdef, cdef],
                  'runs': [run], 'matcher': 'wide'}
        return recipe, {'class': 'timestamp-fields-overflowing-datetime',
                        'data': data, 'policy': policy, 'wide': True,
                        'global': True, 'nfiles': 1}
    elif idx == 4:
        # EVERY search carries its own since constraint and an OLD line
        # (read while no search is enabled yet) is not valid UTF-8: under
        # strict decoding the run must still raise
        t0 = G.datetime(2022, 1, 10, 0, 0, 0)
        ls = [(t0 + G.timedelta(hours=i)).strftime(G.TS_FMT).encode()
              + b' alpha %d\n' % i for i in range(48)]
        ls[3] = ls[3][:24] + b'\xff' + ls[3][24:]
        data = b''.join(ls)
        cons = [{'current': '2022-01-12 12:00:00', 'days': 0, 'hours': 24}]
        cdef = dict(sdef, constraints=[0])
        skrun.materialise(d, {'x.log': data})
        run = {'global': None, 'decode_errors': None,
               'max_parallel_tasks': 4, 'adds': [[0, 'x.log', True]],
               'new_searcher': True}
        recipe = {'dir': d, 'constraints': cons, 'defs': [cdef],
                  'runs': [run]}
        return recipe, {'class': 'invalid-old-line-all-searches-constrained',
                        'data': data, 'policy': None, 'wide': False,
                        'global': False, 'nfiles': 1}
    elif idx == 3:
        # invalid bytes in one of TWO files under a lenient policy (the
        # worker path must honour the policy like the in-process path)
        data = (b'2022-01-10 00:00:00 alpha 1\n'
                b'2022-01-10 01:00:00 alpha \xff\xfe 2\n'
                b'2022-01-10 02:00:00 alpha 3\n')
        policy = rng.choice(['ignore', 'replace', 'backslashreplace'])
        skrun.materialise(d, {'x.log': data, 'y.log': G.gen_log(rng, 5)})
        run = {'global': None, 'decode_errors': policy,
               'max_parallel_tasks': 4,
               'adds': [[0, 'x.log', True], [0, 'y.log', True]],
               'new_searcher': True}
        recipe = {'dir': d, 'constraints': [], 'defs': [sdef], 'runs': [run]}
        return recipe, {'class': 'invalid-bytes-two-files-lenient',
                        'data': data, 'policy': policy, 'wide': False,
                        'global': False, 'nfiles': 2}
    else:
        # more lines than the progress-report interval of the read loop
        data = b''.join(b'alpha %d\n' % i if i % 1000 == 0 else b'x\n'
                        for i in range(100003))
        cons, policy, cls, glob = [], None, 'hundred-thousand-lines', None
    skrun.materialise(d, {'x.log': data})
    run = {'global': glob, 'decode_errors': policy, 'max_parallel_tasks': 4,
           'adds': [[0, 'x.log', True]], 'new_searcher': True}
    recipe = {'dir': d, 'constraints': cons, 'defs': [sdef], 'runs': [run]}
    return recipe, {'class': cls, 'data': data, 'policy': policy,
                    'wide': False, 'global': glob is not None, 'nfiles': 1}


def make_case(rng, base, idx, big):
    if idx in (1, 2, 3, 4, 5, 6, 7):
        return fixed_case(rng, base, idx)
    data, cls = hostile(rng, big)
    if data[:2] == b'\x1f\x8b':
        data = b'a' + data          # gzip magic is outside the property
    ncons = rng.choice([0, 1, 2])
    cons = RC.gen_constraints(rng, ncons)
    defs = RC.gen_defs(rng, ncons, typed=True)
    if ncons and rng.random() < 0.3:
        # EVERY search carries its own constraint: lines before the first
        # passing one are read (and must decode) although nothing searches
        # them
        for d_ in defs:
            d_['constraints'] = [rng.randrange(ncons)]
    use_global = ncons > 0 and rng.random() < 0.7
    d = os.path.join(base, f"c{idx}")
    nfiles = 1 if rng.random() < 0.8 else 2
    files = {'x.log': data}
    if nfiles == 2:
        files['y.log'] = G.gen_log(rng, 5)
    skrun.materialise(d, files)
    adds = []
    restricted = False
    for name in files:
        for di in range(len(defs)):
            allow = not (use_global and rng.random() < 0.1)
            restricted = restricted or (not allow and name == 'x.log')
            adds.append([di, name, allow])
    policy = rng.choice(POLICIES)
    run = {'global': 0 if use_global else None, 'decode_errors': policy,
           'max_parallel_tasks': 4, 'adds': adds, 'new_searcher': True}
    recipe = {'dir': d, 'constraints': cons, 'defs': defs, 'runs': [run]}
    if rng.random() < 0.4:
        recipe['matcher'] = 'wide'      # timestamp fields of any width
    return recipe, {'class': cls, 'data': data, 'policy': policy,
                    'wide': recipe.get('matcher') == 'wide',
                    'global': use_global and not restricted,
                    'nfiles': nfiles}


def well_formed_for_seek(data, since, wide=False):
    """ inside C04's hypotheses: dated lines non-decreasing, short undated
    runs, short lines -> the position is pinned by the reference """
    last, run_ = None, 0
    for ln in G.split_lines(data):
        if len(ln) > 10000:
            return False
        ts = G.line_ts(ln[:64].decode('utf-8', errors='backslashreplace'),
                       wide)
        if ts is None:
            run_ += 1
            if run_ > 100:
                return False
        else:
            run_ = 0
            if last is not None and ts < last:
                return False
            last = ts
    return True


def judge(chk, recipe, meta, o, cases, wants, metas):
    data, policy = meta['data'], meta['policy']
    lines = G.split_lines(data)
    valid = [G.decode(ln, None)[0] for ln in lines]
    brief = {'class': meta['class'], 'policy': policy,
             'content_head': data[:200].decode('latin-1'),
             'content_len': len(data), 'constraints': recipe['constraints'],
             'defs': recipe['defs'], 'run': recipe['runs'][0]}
    exc = o['exc']
    if exc not in (None, 'UnicodeDecodeError'):
        chk.violation(f"other-failure {exc} class={meta['class']}",
                      dict(brief, impl=o))
        return
    # which lines are searched?  pinned only without a file-level constraint
    # or inside C04's hypotheses
    pinned = None
    if not meta['global']:
        pinned = 0
    else:
        since = G.since_secs(recipe['constraints'][0])
        if well_formed_for_seek(data, since, meta['wide']):
            pos = G.first_in_window(data, since, meta['wide'])
            off, pinned = 0, len(lines)
            for i, ln in enumerate(lines):
                if off >= pos:
                    pinned = i
                    break
                off += len(ln)
    strict = policy is None
    if exc == 'UnicodeDecodeError':
        if not strict:
            chk.violation(f"decode-error-under-lenient-policy "
                          f"class={meta['class']}", dict(brief, impl=o))
        elif all(valid) or (pinned is not None and all(valid[pinned:])) \
                and meta['nfiles'] == 1:
            chk.violation(f"decode-error-without-invalid-searched-line "
                          f"class={meta['class']}", dict(brief, impl=o))
        if pinned is not None and meta['nfiles'] == 1:
            cases.append(f"(true, {vlib.zl([int(v) for v in valid[pinned:]])})")
            wants.append([-1])
            metas.append(brief)
        return
    # returned normally
    nread = o['stats']['lines_searched']
    if meta['nfiles'] == 1:
        if pinned is not None:
            if strict and not all(valid[pinned:]):
                chk.violation(f"no-decode-error-although-invalid-searched-"
                              f"line class={meta['class']}",
                              dict(brief, impl_stats=o['stats']))
                return
            if nread != len(lines) - pinned:
                chk.violation(f"lines-read-differ class={meta['class']}",
                              dict(brief, impl_lines=nread,
                                   expected=len(lines) - pinned))
                return
            if len(lines) - pinned <= 20000:    # keep Coq literals small
                cases.append(f"({'true' if strict else 'false'}, "
                             f"{vlib.zl([int(v) for v in valid[pinned:]])})")
                wants.append([nread])
                metas.append(brief)
        searched = lines[len(lines) - nread:] if nread <= len(lines) else None
        if searched is None:
            chk.violation("more-lines-read-than-exist", dict(brief, impl=o))
            return
        if strict and not all(valid[len(lines) - nread:]):
            chk.violation(f"invalid-line-searched-without-error "
                          f"class={meta['class']}", dict(brief, impl=o))
            return
        # line-by-line reading of the searched suffix: unconstrained simple
        # searches only (constrained / sequence ones are C07 / C03's business)
        got = o['results'].get('x.log', [])
        for d in recipe['defs']:
            if d['kind'] != 'simple' or d['constraints']:
                continue
            cd = RC.compile_def(d)
            exp = []
            for i, ln in enumerate(searched, 1):
                txt = G.decode(ln, policy)[1]
                m = RC.sd_run(cd, txt)
                if m:
                    exp.append([i, d['tag'],
                                RC.cast_parts(d, RC.parts_of(m, d['store']))])
            mine = [r[:3] for r in got if r[1] == d['tag']]
            if mine != exp:
                chk.violation(f"results-differ-from-line-by-line-reading "
                              f"class={meta['class']}",
                              dict(brief, tag=d['tag'], impl=mine[:20],
                                   expected=exp[:20]))
                return


def position_probe(chk, items):
    """ C11's third clause on hostile content: whatever the content, a since
    constraint leaves the file at 0, at EOF, or just after a line feed """
    import io
    import sk_child
    sk_child._setup()
    from searchkit.constraints import SearchConstraintSearchSince
    n = 0
    # contents built to drive the seek through each of its fallback paths
    # (too many undated lines after a date was seen, no timestamp at all,
    # nothing in the window, an over-long line, undated lines at both ends)
    old = b''.join(b'2022-01-09 %02d:%02d:00 old \xe2\x82\xac line\n'
                   % (i // 60, i % 60) for i in range(300))
    new = b''.join(b'2022-01-13 00:%02d:00 new \xe2\x82\xac line\n' % i
                   for i in range(5))
    junk = b''.join(('dump \u20ac\u20ac %d \u20ac\n' % i).encode()
                    for i in range(1300))
    fixed = [('too-many-undated-after-date', old + junk + new),
             ('too-many-undated-first', junk + old + new),
             ('no-timestamps', junk), ('all-old', old),
             ('undated-both-ends', junk[:900] + old + new + junk[:900]),
             ('long-line-in-window', old + b'2022-01-13 00:00:00 '
              + b'L' * 1100000 + b'\n' + new)]
    # lines longer than the 256-byte read horizon that start inside the first
    # horizon (the shape of the repaired defect D1), in-window
    for ln_ in (300, 723, 1023, 5023):
        fixed.append((f'long-second-line-{ln_}',
                      b'2022-01-09 00:00:00 A\n' + b'2022-01-13 00:00:01 B '
                      + b'b' * ln_ + b'\n2022-01-13 00:00:02 C\n'))
    c1 = {'current': '2022-01-13 12:00:00', 'days': 0, 'hours': 24}
    items = list(items) + [
        ({'constraints': [c1]},
         {'class': nm, 'data': data, 'wide': False}) for nm, data in fixed]
    for recipe, meta in items:
        if not recipe['constraints'] or not meta['data']:
            continue
        M = sk_child._matcher_wide() if meta['wide'] else sk_child._matcher()
        c0 = recipe['constraints'][0]
        kw = {} if c0.get('use_defaults') else {
            'days': c0.get('days', 0), 'hours': c0.get('hours', 24)}
        c = SearchConstraintSearchSince(current_date=c0['current'],
                                        ts_matcher_cls=M, **kw)
        fd = io.BytesIO(meta['data'])
        fd.name = 'probe'
        try:
            c.apply_to_file(fd)
            pos = fd.tell()
        except Exception as exc:  # noqa
            chk.violation(f"other-failure {type(exc).__name__} in "
                          f"apply_to_file class={meta['class']}",
                          {'class': meta['class'], 'constraint': c0,
                           'content_head': meta['data'][:200].decode(
                               'latin-1')})
            continue
        n += 1
        data = meta['data']
        since_ = G.since_secs(c0)
        if well_formed_for_seek(data, since_, meta['wide']):
            want = G.first_in_window(data, since_, meta['wide'])
            if pos != want:
                chk.violation(
                    f"since-position-not-first-in-window class={meta['class']}",
                    {'class': meta['class'], 'constraint': c0,
                     'position': pos, 'expected': want, 'length': len(data),
                     'content_head': data[:300].decode('latin-1')})
                continue
        if not (pos == 0 or pos == len(data) or data[pos - 1:pos] == b'\n'):
            chk.violation(f"position-not-a-line-start class={meta['class']}",
                          {'class': meta['class'], 'constraint': c0,
                           'position': pos, 'length': len(data),
                           'bytes_around': data[max(0, pos - 20):pos + 20]
                           .decode('latin-1'),
                           'content_head': data[:200].decode('latin-1')})
    chk.dist('position_probes', n)


def run(chk):
    chk.prove(PROPS)
    chk.coverage['rule'] = (
        "hostile contents (random bytes, NUL/CR/LF mixes, no LF, only LFs, "
        "timestamp look-alikes that are not dates, multi-byte characters at "
        "the 32/64-byte window edges, logs with invalid UTF-8 in old/new "
        "lines, long undated runs, very long lines, unordered logs, CRLF, "
        "empty) x 4 decode policies x file-level / per-search constraints x "
        "1-2 files, each batch in a fresh interpreter with a hard timeout; "
        "non-trivial = content has >= 2 lines and (an invalid line or a "
        "look-alike or a constraint)")
    n = 72 if chk.quick else 600
    nbig = 6 if chk.quick else 40
    base = tempfile.mkdtemp(prefix='c13_', dir=chk.work)
    items = []
    for idx in range(n):
        items.append(make_case(chk.rng, base, idx, big=idx < nbig))
    position_probe(chk, items)
    batches = [items[i:i + 6] for i in range(0, len(items), 6)]
    cases, wants, metas = [], [], []
    nontrivial = 0

    def run_batch(b):
        r = skrun.run_fresh({'batch': [x[0] for x in b]}, timeout=150,
                            workdir=base)
        if r['obs'] is not None:
            return [(x, o[0], None) for x, o in zip(b, r['obs'])]
        out = []
        for x in b:              # attribute the hang / crash
            r1 = skrun.run_fresh(x[0], timeout=90, workdir=base)
            out.append((x, r1['obs'][0] if r1['obs'] else None, r1))
        return out
    try:
        with ThreadPoolExecutor(max_workers=6) as ex:
            for res in ex.map(run_batch, batches):
                for (recipe, meta), o, r1 in res:
                    chk.coverage['evaluations'] += 1
                    chk.dist(meta['class'].split('-')[0] + '...' if
                             meta['class'][-1].isdigit() else meta['class'])
                    chk.dist('policy_' + str(meta['policy']))
                    if o is None:
                        kind = 'hang' if r1['timeout'] else 'crash'
                        chk.violation(
                            f"{kind} class={meta['class']}",
                            {'class': meta['class'], 'policy': meta['policy'],
                             'content_len': len(meta['data']),
                             'content_head': meta['data'][:200].decode(
                                 'latin-1'), 'recipe_runs': recipe['runs'],
                             'constraints': recipe['constraints'],
                             'defs': recipe['defs'], 'err': r1['err']})
                        continue
                    judge(chk, recipe, meta, o, cases, wants, metas)
                    if len(G.split_lines(meta['data'])) >= 2 and (
                            meta['class'] in ('lookalikes',
                                              'log-with-invalid-bytes',
                                              'random-bytes',
                                              'multibyte-at-window-edge')
                            or recipe['constraints']):
                        nontrivial += 1
                    if chk.coverage['evaluations'] in (1, 9):
                        chk.sample({'class': meta['class'],
                                    'policy': meta['policy'],
                                    'content_head':
                                        meta['data'][:80].decode('latin-1'),
                                    'outcome': o['exc'] or o['stats']})
    finally:
        shutil.rmtree(base, ignore_errors=True)
    pre = ("From SK Require Import Spec.C13.\n"
           "Definition runner (c : bool * list Z) : jv :=\n"
           "  match spec_outcome (fst c) (fun v => negb (v =? 0)) "
           "(fun l => Model.Base.lenZ l) (snd c) with\n"
           "  | Returns n => JL [JZ n] | RaisesDecode => JL [JZ (-1)] end.\n")
    mism, errs = vlib.eval_cases(chk.work, 'outcome', '', pre, 'runner',
                                 cases, wants, shard=200)
    for e in errs:
        chk.broken.append({'obligation': 'correspondence (coqc)', 'why': e})
    for i, v in mism:
        chk.violation('outcome-differs-from-spec',
                      {'case': metas[i] if i >= 0 else None, 'spec': v,
                       'impl': wants[i] if i >= 0 else None})
    chk.coverage['distinct_nontrivial'] = nontrivial
    chk.coverage['traces_validated_against_impl'] = len(cases)
    chk.assumptions += [
        "termination of the real code is observed under a wall-clock limit "
        "(150 s per batch of 6 runs), not proved; the proved loop bounds are "
        "about the counters translated from the source",
        "re matching, the 64-byte window decode (errors='backslashreplace'), "
        "seek/read/tell do not raise because of content (trusted origins of "
        "the exception-flow analysis)",
        "where a file-level constraint is applied to content outside C04's "
        "hypotheses the searched suffix is taken from lines_searched"]
