"""C10 - task failure or worker death: prompt exception, no hang, no leftovers.

T1: Props/C10.v - the life-cycle model's theorems, instantiated with the
    facts extracted from the current source's skeletons (execute()'s handler
    table, _run_mp's handler tables and finally, where sync/purge/unproxy
    sit).
T2: fault-injection sweep on the REAL code.  Every fault plan runs in its
    own interpreter (harness/c10_child.py) in its own session under a hard
    wall-clock limit; the whole process group is killed afterwards and
    strays are swept.  Observed: outcome class of run 1, leftovers
    (processes, threads), a non-blocking probe of both module-level locks,
    outcome + results of a second fault-free run in the same process.  The
    model maps each plan to the SET of outcomes it allows (Spec.allowed,
    proved sound for the model in C10_observe_allowed); membership is
    evaluated inside Coq.
"""
import json
import os
import signal
import subprocess
import sys
import time
from concurrent.futures import ThreadPoolExecutor

import psutil

import vlib

PROPS = ['Props/C10.v']
HERE = os.path.dirname(os.path.abspath(__file__))
CHILD = os.path.join(HERE, 'c10_child.py')
PY = '/venv/bin/python'
MARK = '@@C10 '
MAXPAR = 6

# harness point -> model point (Model/Lifecycle.v `point`)
POINTS = {
    'before_open': 'PtBeforeOpen', 'line': 'PtLine',
    'before_put': 'PtBeforePut', 'after_put': 'PtAfterPut',
    'queue_put': 'PtBeforePut',
    'before_alloc': 'PtBeforeAlloc', 'alloc_inside_lock': 'PtAllocInside',
    'alloc_before_write': 'PtAllocInside',
    'alloc_after_write': 'PtAllocInside', 'after_alloc': 'PtAfterAlloc',
    'before_sync': 'PtBeforeSync', 'sync_inside_lock': 'PtSyncInside',
    'sync_add_inside_lock': 'PtSyncInside', 'after_sync': 'PtAfterSync',
    'after_last': 'PtAfterLast'}
SYNC_POINTS = ('before_sync', 'sync_inside_lock', 'sync_add_inside_lock',
               'after_sync')
KMAX = {'line': 65, 'before_put': 7, 'after_put': 7, 'queue_put': 5,
        'sync_add_inside_lock': 20, 'sync_inside_lock': 20,
        'alloc_inside_lock': 2}
# exceptions a failing hand-over to the manager's queue raises, injected
# below the library (BaseProxy._callmethod for put / put_nowait)
QUEUE_KINDS = {'raise_conn': 'ConnectionResetError',
               'raise_pipe': 'BrokenPipeError', 'raise_eof': 'EOFError',
               'raise_os': 'OSError'}
# input that cannot be searched: the fault is in the data, nothing is injected
DATA_KINDS = ('bad_utf8', 'bad_gzip_crc', 'gzip_junk', 'seq_midsection')
CLASSES = {'FileSearchException': 'E_FSE', 'UnicodeDecodeError': 'E_UDE',
           'BrokenProcessPool': 'E_BPP'}
OK_CLASSES = ('FileSearchException', 'UnicodeDecodeError')


# ------------------------------------------------------------------ plans
def base_points():
    return ['before_open', 'line', 'before_put', 'after_put', 'before_alloc',
            'alloc_inside_lock', 'after_alloc', 'before_sync',
            'sync_inside_lock', 'sync_add_inside_lock', 'after_sync',
            'after_last']


def mkplan(rng, point, kind, nfiles, workers, file=None, **extra):
    k = 1
    if point in KMAX:
        k = rng.randint(1, KMAX[point])
    p = {'nfiles': nfiles, 'workers': workers,
         'file': rng.randrange(nfiles) if file is None else file,
         'point': point, 'kind': kind, 'k': k, 't1': 12, 't2': 6}
    p.update(extra)
    return p


def plans(chk):
    rng = chk.rng
    out = []
    pts = base_points()
    if chk.quick:
        for pt in pts:
            for kind in ('raise', 'exit'):
                if pt == 'after_last' and kind == 'raise':
                    continue       # outside execute(): not a task failure
                out.append(mkplan(rng, pt, kind, rng.choice([2, 3, 4]),
                                  rng.choice([2, 3])))
    else:
        extra = ['alloc_before_write', 'alloc_after_write']
        idx = 0
        for pt in pts + extra:
            for kind in ('raise', 'exit', 'raise_ude'):
                if pt == 'after_last' and kind != 'exit':
                    continue
                combos = [(n, w) for n in (2, 3, 4, 5) for w in (1, 2, 3, 4)]
                rng.shuffle(combos)
                take = 10 if kind != 'raise_ude' else 3
                for (n, w) in combos[:take]:
                    files = [0, n - 1, rng.randrange(n)]
                    out.append(mkplan(rng, pt, kind, n, w,
                                      file=files[idx % 3]))
                    idx += 1
    # the hand-over of the k-th and every later batch fails inside the
    # queue proxy (connection to the manager reset / broken / closed)
    for kind in QUEUE_KINDS:
        combos = [(3, 2)] if chk.quick else [(2, 1), (3, 2), (4, 3), (5, 4)]
        for (n, w) in combos:
            out.append(mkplan(rng, 'queue_put', kind, n, w))
    # a task fails while a sibling is still busy with its file
    out.append(mkplan(rng, 'before_open', 'raise', 2, 2, file=0,
                      slow={'file': 1, 'secs': 2}))
    out.append(mkplan(rng, 'line', 'raise_ude', 3, 2, file=0,
                      slow={'file': 2, 'secs': 2}))
    # a single worker is still a separate process
    out.append(mkplan(rng, 'line', 'exit', 3, 1))
    out.append(mkplan(rng, 'before_sync', 'raise', 3, 1))
    # a task failing with an exception OBJECT that cannot be pickled
    out.append(mkplan(rng, 'line', 'raise_unpicklable', 3, 2))
    out.append(mkplan(rng, 'before_put', 'raise_local', 2, 2))
    # a gzip file with a valid header whose stream is damaged further on
    # (wrong CRC in the trailer / junk after the member): the failure comes
    # from the reader, at the end of the file
    out.append(mkplan(rng, 'line', 'bad_gzip_crc', 3, 2))
    out.append(mkplan(rng, 'line', 'gzip_junk', 2, 2,
                      decode_errors='backslashreplace'))
    if not chk.quick:
        out.append(mkplan(rng, 'line', 'bad_gzip_crc', 4, 1,
                          decode_errors='ignore'))
        out.append(mkplan(rng, 'line', 'gzip_junk', 5, 3))
        out.append(mkplan(rng, 'sync_inside_lock', 'raise_unpicklable', 4,
                          3))
        out.append(mkplan(rng, 'queue_put', 'raise_local', 3, 2))
    # a single-file search failing inside an open section of a sequence
    # definition that the next search in this process uses again (fixed
    # history, nothing random)
    out.append({'nfiles': 1, 'workers': 1, 'file': 0, 'point': 'line',
                'kind': 'seq_midsection', 'k': 1, 't1': 12, 't2': 6})
    # undecodable input and injected UnicodeDecodeError
    out.append(mkplan(rng, 'line', 'raise_ude', 3, 2))
    out.append(mkplan(rng, 'sync_inside_lock', 'raise_ude', 3, 2))
    out.append(mkplan(rng, 'line', 'bad_utf8', 3, 2))
    # fault-free control
    out.append(mkplan(rng, 'line', 'none', 3, 2))
    # a worker dying / failing while the parent is still submitting
    # (schedule steering: the parent pauses after each submit of run 1)
    out.append(mkplan(rng, 'before_open', 'exit', 3, 2, file=0,
                      slow_submit=0.5))
    out.append(mkplan(rng, 'before_open', 'raise', 3, 2, file=0,
                      slow_submit=0.5))
    # sibling parked inside preallocate's locked region while another
    # worker exits outside any lock
    out.append(mkplan(rng, 'before_open', 'exit', 2, 2, file=0,
                      hold=0.7, park={'file': 1, 'secs': 4}))
    # D8 (b): the worker stays inside the locked region past the info
    # thread's 5 s poll, then exits
    out.append(mkplan(rng, 'alloc_inside_lock', 'exit', 2, 2, file=0,
                      hold=6.5, t1=16))
    if not chk.quick:
        for n in (3, 5):
            out.append(mkplan(rng, 'before_open', 'exit', n, 2, file=0,
                              slow_submit=0.4))
            out.append(mkplan(rng, 'line', 'bad_utf8', n, 3))
    # exactly ONE file: the task runs in the calling process (_run_single),
    # nothing between execute() and the caller may need to translate its
    # exception (fixed plans, no randomness)
    out.append({'nfiles': 1, 'workers': 1, 'file': 0, 'point': 'line',
                'kind': 'raise', 'k': 10, 't1': 12, 't2': 6})
    out.append({'nfiles': 1, 'workers': 2, 'file': 0, 'point': 'line',
                'kind': 'bad_gzip_crc', 'k': 1, 't1': 12, 't2': 6})
    out.append({'nfiles': 1, 'workers': 1, 'file': 0, 'point': 'line',
                'kind': 'raise_ude', 'k': 3, 't1': 12, 't2': 6})
    for i, p in enumerate(out):
        p['id'] = i
    return out


# ------------------------------------------------------------ one child
def kill_session(sid):
    """ SIGKILL the child's process group and anything still in its session;
    returns how many strays were found after the group kill """
    try:
        os.killpg(sid, signal.SIGKILL)
    except (ProcessLookupError, PermissionError):
        pass
    strays = 0
    for _ in range(20):
        left = []
        for p in psutil.process_iter(['pid', 'status']):
            try:
                if p.pid != sid and os.getsid(p.pid) == sid and \
                        p.info['status'] != psutil.STATUS_ZOMBIE:
                    left.append(p.pid)
            except (ProcessLookupError, PermissionError, psutil.Error):
                pass
        if not left:
            break
        strays = max(strays, len(left))
        for pid in left:
            try:
                os.kill(pid, signal.SIGKILL)
            except (ProcessLookupError, PermissionError):
                pass
        time.sleep(0.05)
    return strays


def session_alive(sid):
    for p in psutil.process_iter(['pid', 'status']):
        try:
            if os.getsid(p.pid) == sid and \
                    p.info['status'] != psutil.STATUS_ZOMBIE:
                return True
        except (ProcessLookupError, PermissionError, psutil.Error):
            pass
    return False


def run_child(work, plan):
    d = os.path.join(work, f"plan{plan['id']:04d}")
    subprocess.run(['rm', '-rf', d], check=False)
    os.makedirs(d, exist_ok=True)
    plan = dict(plan, dir=os.path.join(d, 'files'))
    limit = plan['t1'] + plan['t2'] + 10 + plan.get('hold', 0)
    env = dict(os.environ, PYTHONPATH=vlib.REPO, PYTHONHASHSEED='0')
    outp, errp = os.path.join(d, 'out'), os.path.join(d, 'err')
    t0 = time.time()
    res = {'plan': plan, 'sid': None}
    with open(outp, 'wb') as fo, open(errp, 'wb') as fe:
        proc = subprocess.Popen([PY, CHILD, json.dumps(plan)], stdout=fo,
                                stderr=fe, stdin=subprocess.DEVNULL,
                                env=env, cwd=d, start_new_session=True)
        sid = proc.pid
        res['sid'] = sid
        try:
            proc.wait(timeout=limit)
            res['timed_out'] = False
        except subprocess.TimeoutExpired:
            res['timed_out'] = True
        res['strays'] = kill_session(sid)
        try:
            proc.wait(timeout=5)
        except subprocess.TimeoutExpired:
            pass
    res['wall'] = round(time.time() - t0, 2)
    obs = None
    try:
        with open(outp, encoding='utf-8', errors='replace') as f:
            for ln in f:
                if ln.startswith(MARK):
                    obs = json.loads(ln[len(MARK):])
    except OSError:
        pass
    res['obs'] = obs
    if obs is None:
        try:
            with open(errp, encoding='utf-8', errors='replace') as f:
                res['stderr_tail'] = f.read()[-600:]
        except OSError:
            res['stderr_tail'] = ''
    subprocess.run(['rm', '-rf', plan['dir']], check=False)
    return res


# ------------------------------------------------------- classification
def short(plan):
    s = f"point={plan['point']} kind={plan['kind']}"
    if plan.get('slow_submit'):
        s += ' during-submit'
    if plan['nfiles'] == 1:
        s += ' single-file'
    if plan.get('slow'):
        s += ' sibling-busy'
    if plan.get('park'):
        s += ' sibling-in-lock'
    return s


def classify(chk, r):
    """ property-level judgement of ONE observation; returns the list of
    (signature, witness) it produced """
    plan, o = r['plan'], r['obs']
    found = []

    def viol(sig, witness=True):
        found.append(sig)
        chk.violation(sig, {'plan': {k: v for k, v in plan.items()
                                     if k != 'dir'}, 'observed': o},
                      witness=witness)
    kind = plan['kind']
    tag = short(plan)
    left1 = o.get('left1') or {}
    has_left1 = bool(left1.get('active_children') or
                     left1.get('live_child_pids') or left1.get('threads'))
    if kind == 'none':
        if o['run1'] != 'returned' or not o.get('run1_complete') or \
                has_left1 or o['run2'] != 'returned' or \
                not o.get('run2_equal') or o['store_lock_held'] or \
                o['collection_lock_held']:
            viol('fault-free-run-not-clean')
        return found
    fired = o.get('fired') or kind in DATA_KINDS
    if not fired:
        chk.broken.append({'obligation': f'fault injection ({tag})',
                           'why': 'the fault plan did not fire: ' +
                           json.dumps(o)[:300]})
        return found
    held = bool(o.get('store_lock_held'))
    if o['run1'] == 'caller-killed':
        # the task ran inside the calling process (no worker process at
        # all): the injected abrupt exit would have been the caller's
        viol(f"worker-exit-kills-caller workers={plan['workers']} "
             f"files={plan['nfiles']} {tag}")
        return found
    if o['run1'] == 'returned':
        viol(f'partial-results {tag}')
    elif o['run1'] == 'hang':
        if kind == 'exit' and held:
            viol(f'worker-exit-store-lock-held-run1-blocks {tag}')
        else:
            viol(f'run1-hang {tag}')
        return found
    elif o['run1'] == 'UnicodeDecodeError' and \
            kind not in ('raise_ude', 'bad_utf8', 'seq_midsection'):
        # UnicodeDecodeError is for undecodable INPUT under strict decoding
        viol(f'unicode-error-for-decodable-input {tag}')
    elif o['run1'] not in OK_CLASSES:
        if kind == 'raise' and plan['point'] in SYNC_POINTS and \
                o['run1'] == 'RuntimeError':
            viol(f'unmapped-exception-from-sync {tag}')
        elif kind == 'exit' and plan.get('slow_submit') and \
                o['run1'] == 'BrokenProcessPool':
            viol('worker-exit-during-submit-unmapped-brokenprocesspool '
                 + tag)
        else:
            viol(f"unexpected-exception-class class={o['run1']} {tag}")
    now = o.get('left1_now') or {}
    if has_left1:
        viol(f'leftovers-after-run1 {tag}')
    elif now.get('active_children') or now.get('live_child_pids') or \
            now.get('threads'):
        # gone a moment later, but still there when run() raised
        viol(f'leftovers-when-run1-ended {tag}')
    if o.get('collection_lock_held'):
        viol(f'collection-lock-held-after-run1 {tag}')
    run2_ok = (o.get('run2') == 'returned' and o.get('run2_equal'))
    if not run2_ok:
        if held and kind == 'exit':
            viol(f'worker-exit-store-lock-held-run2-blocks {tag}')
        elif held:
            viol(f'task-exception-left-store-lock-held {tag}')
        else:
            viol(f"run2-failed-with-locks-free run2={o.get('run2')} {tag}")
    else:
        left2 = o.get('left2') or {}
        if left2.get('active_children') or left2.get('live_child_pids') or \
                left2.get('threads'):
            viol(f'leftovers-after-run2 {tag}')
    return found


def coq_case(plan, o):
    """ (Coq term of the case, key) for the allowed-set membership test """
    pt = POINTS[plan['point']]
    kind = plan['kind']
    if kind == 'exit':
        k = 'KExit'
    elif kind in ('raise_ude', 'bad_utf8', 'seq_midsection'):
        k = '(KRaise E_UDE)'
    elif kind in QUEUE_KINDS:
        k = f'(KRaise "{QUEUE_KINDS[kind]}"%string)'
    elif kind in ('bad_gzip_crc', 'gzip_junk'):
        k = '(KRaise "OSError"%string)'          # gzip.BadGzipFile
    elif kind in ('raise_unpicklable', 'raise_local'):
        k = '(KRaise "Exception"%string)'
    else:
        k = '(KRaise "RuntimeError"%string)'
    if o['run1'] == 'returned':
        out = 'OReturned'
    elif o['run1'] == 'hang':
        out = 'OHang'
    else:
        cls = CLASSES.get(o['run1'])
        out = f'(ORaised {cls})' if cls else \
            f'(ORaised "{o["run1"]}"%string)'
    held = 'true' if o.get('store_lock_held') else 'false'
    return f"({pt}, {k}, ({out}, {held}))"


PREAMBLE = """From SK Require Import Model.Lifecycle Spec.Lifecycle Props.C10.
Definition allowed_here (x : point * kind * (outcome * bool)) : jv :=
  let '(pt, k, o) := x in
  let '(i, j) := point_pos AL SY SO 1 2 pt in
  let p := mkPlan 0 i j k in
  JB (obs_mem o (allowed F (mkCfg [P; P] 2 (Some p) 0 0) p)).
"""


# ------------------------------------------------------------------ run
def sweep(chk, todo):
    work = os.path.join(chk.work, 'sweep')
    os.makedirs(work, exist_ok=True)
    with ThreadPoolExecutor(max_workers=MAXPAR) as ex:
        return list(ex.map(lambda p: run_child(work, p), todo))


def judge(chk, results):
    cases, wants, idx = [], [], []
    per_plan = {}
    lat = []
    for r in results:
        plan, o = r['plan'], r['obs']
        chk.dist('children', 1)
        if r.get('strays'):
            chk.dist('strays_swept_after_group_kill', r['strays'])
        if o is None:
            chk.broken.append({
                'obligation': f"fault sweep child ({short(plan)})",
                'why': ('no result within the hard limit' if r['timed_out']
                        else 'child ended without a result') + ': ' +
                r.get('stderr_tail', '')[-300:]})
            continue
        chk.coverage['evaluations'] += 1
        chk.coverage['traces_validated_against_impl'] += 1
        chk.dist(f"kind={plan['kind']}", 1)
        chk.dist(f"run1={o['run1']}", 1)
        chk.dist(f"store_lock_held={bool(o.get('store_lock_held'))}", 1)
        if o.get('run1_latency') is not None:
            lat.append(o['run1_latency'])
        per_plan[plan['id']] = classify(chk, r)
        if o.get('fired') or plan['kind'] in DATA_KINDS:
            chk.coverage['distinct_nontrivial'] += 1
        if plan['kind'] != 'none' and \
                (o.get('fired') or plan['kind'] in DATA_KINDS):
            cases.append(coq_case(plan, o))
            wants.append(True)
            idx.append(r)
        chk.sample({'plan': {k: v for k, v in plan.items() if k != 'dir'},
                    'run1': o['run1'], 'latency': o.get('run1_latency'),
                    'store_lock_held': o.get('store_lock_held'),
                    'run2': o.get('run2'), 'run2_equal': o.get('run2_equal'),
                    'left1': o.get('left1')})
    if lat:
        chk.coverage['distribution']['run1_latency_max_s'] = max(lat)
    if cases:
        mism, errs = vlib.eval_cases(chk.work, 'allowed', '', PREAMBLE,
                                     'allowed_here', cases, wants)
        for e in errs:
            chk.broken.append({'obligation': 'allowed-outcome evaluation '
                               '(coqc)', 'why': e})
        for i, _v in mism:
            r = idx[i]
            if not per_plan.get(r['plan']['id']):
                # the implementation's outcome satisfies the property but is
                # not one the model allows
                chk.violation(
                    f"outcome-not-allowed-by-model {short(r['plan'])}",
                    {'plan': {k: v for k, v in r['plan'].items()
                              if k != 'dir'}, 'observed': r['obs'],
                     'case': cases[i]}, witness=False)
        chk.dist('allowed_set_checks', len(cases))


def final_sweep(chk, results):
    """ nothing may be left running """
    alive = [r['sid'] for r in results if r['sid'] and
             session_alive(r['sid'])]
    for sid in alive:
        kill_session(sid)
    kids = [p for p in psutil.Process().children(recursive=True)]
    for p in kids:
        try:
            p.kill()
        except psutil.Error:
            pass
    chk.coverage['distribution']['sessions_alive_at_end'] = len(alive)
    chk.coverage['distribution']['descendants_alive_at_end'] = len(kids)
    if alive or kids:
        chk.notes.append(f"killed {len(alive)} sessions / {len(kids)} "
                         "descendants at the end of the check")


def run(chk):
    ok = chk.prove(PROPS)
    chk.coverage['rule'] = (
        "one child interpreter per fault plan (point x kind x which of N "
        "files x worker count; counted points get a random ordinal k); "
        "non-trivial = the fault fired in a worker (or the input was "
        "undecodable); each such observation is judged against the property "
        "directly and its (run-1 outcome, store-lock-held) pair is tested "
        "for membership in the model's allowed set inside Coq")
    todo = plans(chk)
    results = sweep(chk, todo)
    try:
        if ok:
            judge(chk, results)
        else:
            # the proof side is broken: still judge the implementation
            # against the property itself (search for a witness)
            for r in results:
                if r['obs'] is not None:
                    chk.coverage['evaluations'] += 1
                    classify(chk, r)
    finally:
        final_sweep(chk, results)
    chk.assumptions += [
        "process teardown, signal delivery and ProcessPoolExecutor's "
        "breakage detection (all pending futures get BrokenProcessPool, "
        "every worker is terminated) are the runtime's, modelled not proved",
        "multiprocessing.Lock is a semaphore without owner tracking: a dead "
        "process keeps it (observed by the non-blocking probe)",
        "'within bounded time' is a bound on the number of moves in the "
        "model (C10_moves_bounded) and a wall-clock limit in the sweep "
        "(run 1: 12 s, run 2: 6 s)",
        "fairness of the OS scheduler (every enabled actor eventually "
        "moves) turns C10_raise_is_clean's 'can always move / can always "
        "be completed' into termination"]


def replay(chk, path):
    with open(path, encoding='utf-8') as f:
        rec = json.load(f)
    plan = (rec.get('witness') or {}).get('plan')
    if not plan:
        print("replay file has no fault plan (nothing to re-run): "
              + json.dumps(rec.get('no_longer_checks', rec))[:600])
        return 1
    plan = dict(plan, id=0)
    res = sweep(chk, [plan])
    r = res[0]
    final_sweep(chk, res)
    print(json.dumps(r['obs'], indent=1, sort_keys=True))
    if r['obs'] is None:
        print("child produced no result")
        return 1
    sigs = classify(chk, r)
    known = vlib.load_known()
    rc = 0
    for s in sigs:
        k = vlib.match_known(known, chk.prop, s)
        print(('KNOWN-FINDING: ' if k else 'VIOLATION reproduced: ') + s)
        if not k:
            rc = 1
    if not sigs:
        print("no violation on this run")
    return rc
