"""C06 - Concurrent workers never share a store index, for every interleaving.

T1: Props/C06.v instantiates the parametric safety theorem with the lock
    skeletons of preallocate / sync generated from the current source
    (well_locked_pre / well_locked_sync by vm_compute).
T2: the REAL ResultStoreParallel code is driven under chosen schedules with no
    real processes: one ResultStoreParallel object per simulated task (as
    pickling into a worker creates), all sharing fake `alloc_pointer` / dict
    "proxies" and a fake lock patched in place of
    results_store.RESULTS_STORE_LOCK.  Every task is a thread that parks
    before each access to the pointer / lock / shared dicts until the
    scheduler grants it one step.  The trace of shared accesses, the blocks
    each task received, the indices each add returned and the final shared
    store are compared with Model/Par.v evaluated inside Coq on the same
    schedule.  Exhaustive over all (stutter-free) schedules for 2 tasks x
    <= 2 block requests; random schedules (with stutters) for 3-4 tasks x 0-3
    requests; adversarial patterns (round-robin, k steps of A then B).
    Independently of the model the property is judged on the real outputs:
    blocks pairwise disjoint, indices inside own blocks, shared[idx] == value
    after the syncs, some task enabled whenever one is unfinished.
    Plus real multi-process FileSearcher runs (observable claim) and real
    fork-after-use runs (creator adds, THEN forks workers: they are refused
    by ResultStoreParallel.local and must never share the creator's block).
"""
import os
import re
import shutil
import signal
import tempfile
import threading
import time

import vlib

PROPS = ['Props/C06.v']
NSNAME = {0: 'value_store', 1: 'tag_store', 2: 'sequence_id_store'}
DICTS = ['data', 'value_store', 'tag_store', 'sequence_id_store']


class Deadlock(Exception):
    pass


class Sched:
    """ deterministic cooperative scheduler: exactly one task thread runs at
    any time, and only between two scheduling points """
    def __init__(self, n):
        self.n = n
        self.cv = threading.Condition()
        self.turn = None
        self.parked = {}
        self.done = set()
        self.trace = []
        self.holder = None          # fake RESULTS_STORE_LOCK
        self.timed = {}             # task -> its pending acquire has a timeout
        self.expired = set()        # tasks whose timed acquire just timed out
        self.tls = threading.local()

    def me(self):
        return self.tls.task

    def point(self, desc):
        task = self.me()
        with self.cv:
            self.parked[task] = desc
            self.cv.notify_all()
            while self.turn != task:
                self.cv.wait()
            self.turn = None

    def finish(self, task):
        with self.cv:
            self.done.add(task)
            self.cv.notify_all()

    def quiesce(self):
        with self.cv:
            end = time.time() + 20
            while len(self.parked) + len(self.done) < self.n:
                if not self.cv.wait(timeout=1) and time.time() > end:
                    raise RuntimeError("scheduler: a task neither parked "
                                       "nor finished")

    def enabled(self):
        self.quiesce()
        return [t for t in range(self.n) if t not in self.done and
                not (self.parked[t] == 'acq' and self.holder is not None)]

    def unfinished(self):
        self.quiesce()
        return [t for t in range(self.n) if t not in self.done]

    def step(self, task):
        """ one schedule entry; returns False for a stutter.  An entry
        100 + p means "time passes for task p": if p waits for the held lock
        in an acquire that HAS a timeout, the acquire gives up (returns
        False); in every other situation it is a stutter (as it is in the
        model, where 100 + p names no task). """
        self.quiesce()
        if task >= 100:
            t = task - 100
            if t < self.n and t not in self.done and \
                    self.parked.get(t) == 'acq' and \
                    self.holder is not None and self.timed.get(t):
                self.expired.add(t)
                with self.cv:
                    del self.parked[t]
                    self.turn = t
                    self.cv.notify_all()
                self.quiesce()
                return True
            return False
        if task >= self.n or task in self.done:
            return False
        if self.parked[task] == 'acq' and self.holder is not None:
            return False
        with self.cv:
            del self.parked[task]
            self.turn = task
            self.cv.notify_all()
        self.quiesce()
        return True


class FakeLock:
    def __init__(self, sched):
        self.s = sched

    def acquire(self, block=True, timeout=None):
        me = self.s.me()
        while True:
            self.s.timed[me] = (timeout is not None) or not block
            self.s.point('acq')
            if self.s.holder is None:
                self.s.holder = me
                self.s.trace.append([me, 0])
                return True
            if me in self.s.expired:          # waited longer than `timeout`
                self.s.expired.discard(me)
                return False

    def release(self):
        self.s.point('rel')
        self.s.holder = None
        self.s.trace.append([self.s.me(), 1])

    def __enter__(self):
        self.acquire()
        return self

    def __exit__(self, *a):
        self.release()


class FakeValue:
    def __init__(self, sched):
        self.s = sched
        self._v = 0

    @property
    def value(self):
        self.s.point('rd_ptr')
        self.s.trace.append([self.s.me(), 2, self._v])
        return self._v

    @value.setter
    def value(self, v):
        self.s.point('wr_ptr')
        self._v = v
        self.s.trace.append([self.s.me(), 3, v])


# model value id -> the Python values of that ==/hash class.  Ids 0..3 are
# FALSY values (0 == False == 0.0 is one class; '', () and b'' are three
# more): legal stored values that a worker must still find in the shared
# store after its sync.
FALSY = {0: [0, False, 0.0], 1: [''], 2: [()], 3: [b'']}


def pyval(n, task=0):
    """ the Python value task `task` uses for model value n """
    if n in FALSY:
        return FALSY[n][task % len(FALSY[n])]
    return f"v{n}"


_VID = {}
for _n, _reps in FALSY.items():
    for _r in _reps:
        _VID[_r] = _n            # dict lookup = Python's own ==/hash classes


def vid(x):
    """ Python value (a stored value or a store index) -> model number.
    Only called on values, or on indices of data; an index is an int that
    is returned unchanged by the callers that know it is an index. """
    if isinstance(x, str) and x.startswith('v'):
        return int(x[1:])
    return _VID[x]


class FakeDict:
    def __init__(self, sched, code):
        self.s = sched
        self.code = code
        self.d = {}

    # data (code 0): index -> value; reverse maps: value -> index
    def kid(self, k):
        return k if self.code == 0 else vid(k)

    def xid(self, v):
        return vid(v) if self.code == 0 else v

    def __setitem__(self, k, v):
        self.s.point('set')
        self.d[k] = v
        self.s.trace.append([self.s.me(), 4, self.code, self.kid(k),
                             self.xid(v)])

    def __contains__(self, k):
        self.s.point('contains')
        r = k in self.d
        self.s.trace.append([self.s.me(), 5, self.code, self.kid(k), int(r)])
        return r

    def __getitem__(self, k):
        self.s.point('get')
        r = self.d[k]
        self.s.trace.append([self.s.me(), 6, self.code, self.kid(k),
                             self.xid(r)])
        return r

    def dump(self):
        return sorted([self.kid(k), self.xid(v)] for k, v in self.d.items())

    def __len__(self):
        return len(self.d)


class FakeMgr:
    def __init__(self, shared):
        self.shared = shared
        self.n = 0

    def Value(self, _t, _v):  # noqa pylint: disable=invalid-name
        return self.shared['ptr']

    def dict(self):
        d = self.shared[DICTS[self.n]]
        self.n += 1
        return d


def run_real(bsize, progs, schedule, complete=True, explore=False):
    """ run the real code under `schedule` (list of task numbers).  Returns a
    dict with the effective schedule (stutters kept), the trace, per task
    results and the shared state. """
    import searchkit.results_store as RS
    n = len(progs)
    sched = Sched(n)
    shared = {'ptr': FakeValue(sched)}
    for i, name in enumerate(DICTS):
        shared[name] = FakeDict(sched, i)
    real_lock = RS.RESULTS_STORE_LOCK
    RS.RESULTS_STORE_LOCK = FakeLock(sched)
    handed = [[] for _ in progs]
    blocks = [[] for _ in progs]
    status = [0] * n
    errors = []
    stores = []
    for t in range(n):
        st = RS.ResultStoreParallel(FakeMgr(shared), prealloc_block_size=bsize)
        real_pre = st.preallocate

        def pre(size, real_pre=real_pre, t=t):
            blk = real_pre(size)
            blocks[t].append(blk[0] if blk else None)
            return blk
        st.preallocate = pre
        stores.append(st)

    def body(t):
        sched.tls.task = t
        try:
            for (ns, v) in progs[t]:
                val = pyval(v, t)
                args = [None, None, None]
                args[{0: 2, 1: 0, 2: 1}[ns]] = val
                r = stores[t].add(*args)
                handed[t].append([r[{0: 2, 1: 0, 2: 1}[ns]], v])
            stores[t].sync()
            status[t] = 1
        except RS.ResultStoreException:
            status[t] = 2
        except Exception as exc:  # pylint: disable=broad-except
            status[t] = 3
            errors.append(f"task {t}: {type(exc).__name__}: {exc}")
        finally:
            sched.finish(t)
    threads = [threading.Thread(target=body, args=(t,), daemon=True)
               for t in range(n)]
    eff = []
    deadlock = None
    try:
        for th in threads:
            th.start()
        for p in schedule:
            sched.step(p)
            eff.append(p)
        branch = None
        if explore:
            # follow forced moves; stop at the next branching point
            while True:
                en = sched.enabled()
                if len(en) != 1:
                    branch = en
                    break
                sched.step(en[0])
                eff.append(en[0])
        if complete or (explore and not branch and sched.unfinished()):
            rr = 0
            while sched.unfinished():
                en = sched.enabled()
                if not en:
                    deadlock = {'unfinished': sched.unfinished(),
                                'parked': dict(sched.parked),
                                'lock_holder': sched.holder}
                    break
                p = en[rr % len(en)]
                rr += 1
                sched.step(p)
                eff.append(p)
    finally:
        # let every thread run to its end so that nothing is left parked
        for _ in range(100000):
            un = [t for t in range(n) if t not in sched.done]
            if not un:
                break
            sched.quiesce()
            sched.holder = None
            with sched.cv:
                t = un[0]
                sched.parked.pop(t, None)
                sched.turn = t
                sched.cv.notify_all()
        for th in threads:
            th.join(timeout=5)
        RS.RESULTS_STORE_LOCK = real_lock
    if explore and deadlock is None:
        return {'schedule': eff, 'branch': branch}
    return {'schedule': eff, 'trace': [list(x) for x in sched.trace],
            'handed': handed, 'blocks': blocks, 'status': status,
            'errors': errors, 'deadlock': deadlock,
            'ptr': shared['ptr']._v,  # noqa pylint: disable=protected-access
            'lock_free': sched.holder is None,
            'shared': [shared[name].dump() for name in DICTS]}


def judge(bsize, out):
    """ the property, asserted on the real code's own outputs """
    bad = []
    if out['deadlock']:
        bad.append(f"deadlock: unfinished tasks {out['deadlock']}")
    # (a None entry = preallocate returned an empty block)
    allb = [(t, c) for t, bl in enumerate(out['blocks']) for c in bl
            if c is not None]
    for a in range(len(allb)):
        for b_ in range(a + 1, len(allb)):
            (t1, c1), (t2, c2) = allb[a], allb[b_]
            if c1 < c2 + bsize and c2 < c1 + bsize:
                bad.append(f"overlapping blocks: task {t1} [{c1},{c1 + bsize})"
                           f" and task {t2} [{c2},{c2 + bsize})")
    data = dict(map(tuple, out['shared'][0]))
    for t, hs in enumerate(out['handed']):
        for idx, v in hs:
            if not any(c <= idx < c + bsize for c in out['blocks'][t]
                       if c is not None):
                bad.append(f"task {t} handed out index {idx} outside its "
                           f"blocks {out['blocks'][t]}")
            if out['status'][t] == 1 and data.get(idx) != v:
                bad.append(f"after sync shared[{idx}] = {data.get(idx)!r}, "
                           f"task {t} stored value {v} under it")
    for t, s in enumerate(out['status']):
        if s != 1 and not out['deadlock']:
            bad.append(f"task {t} did not complete (status {s}) "
                       f"{out['errors'][:1]}")
    if not out['lock_free'] and not out['deadlock']:
        bad.append("lock still held after all tasks finished")
    return bad


# ------------------------------------------------------------ model side
PREAMBLE = r"""
From SK Require Import Model.Skel Model.Store Model.Par Gen.Skeleton.
Definition pa := expand_pre 0 sk_preallocate.
Definition sa := expand_sync sk_sync.
Fixpoint ins (p : Z * Z) (l : list (Z * Z)) : list (Z * Z) :=
  match l with
  | [] => [p]
  | q :: r => if Z.leb (fst p) (fst q) then p :: l else q :: ins p r
  end.
Definition jd (d : list (Z * Z)) : jv :=
  JL (map (fun p => JL [JZ (fst p); JZ (snd p)]) (fold_right ins [] d)).
(* local steps of p until its next step is a shared access / it is finished *)
Fixpoint settle (fuel : nat) (g : gstate) (p : nat) : gstate :=
  match fuel with
  | O => g
  | S f =>
      match nth_error (g_tasks g) p with
      | Some t => if is_shared_step t || finished t then g
                  else match step pa sa g p with
                       | Some g' => settle f g' p
                       | None => g
                       end
      | None => g
      end
  end.
Definition nscode (n : ns) : Z :=
  match n with NsValue => 1 | NsTag => 2 | NsSeq => 3 end.
Definition head_act (t : task) : option act :=
  match t_ctl t with
  | CPre _ _ _ (a :: _) | CSync (a :: _) => Some a
  | _ => None
  end.
Definition describe (g : gstate) (p : nat) (t : task) (a : act) : jv :=
  let P := JZ (Z.of_nat p) in
  match a with
  | AAcq => JL [P; JZ 0]
  | ARel => JL [P; JZ 1]
  | ARdCur | ARdInc => JL [P; JZ 2; JZ (g_ptr g)]
  | AWrPtr => JL [P; JZ 3; JZ (t_inc t + bsz (t_loc t))]
  | AWrData i v => JL [P; JZ 4; JZ 0; JZ i; JZ v]
  | AMergeChk n v i =>
      JL [P; JZ 5; JZ (nscode n); JZ v; JB (dmem v (sh_get (g_sh g) n))]
  | ARevGet n v =>
      JL [P; JZ 6; JZ (nscode n); JZ v;
          JZ (match dget v (sh_get (g_sh g) n) with Some i => i | None => -1 end)]
  | ARevSet n v i => JL [P; JZ 4; JZ (nscode n); JZ v; JZ i]
  end.
Fixpoint drive (fuel : nat) (g : gstate) (sched : list nat) (acc : list jv)
  : gstate * list jv :=
  match sched with
  | [] => (g, rev acc)
  | p :: r =>
      let g1 := settle fuel g p in
      match nth_error (g_tasks g1) p with
      | Some t =>
          match head_act t with
          | Some a =>
              match step pa sa g1 p with
              | Some g2 => drive fuel g2 r (describe g1 p t a :: acc)
              | None => drive fuel g1 r acc
              end
          | None => drive fuel g1 r acc
          end
      | None => drive fuel g1 r acc
      end
  end.
Definition settle_all (fuel : nat) (g : gstate) : gstate :=
  fold_left (settle fuel) (seq 0 (length (g_tasks g))) g.
Definition jpairs (l : list (Z * Z)) : jv :=
  JL (map (fun p => JL [JZ (fst p); JZ (snd p)]) l).
Definition status (t : task) : Z :=
  match t_ctl t with CDone => 1 | CFailed => 2 | _ => 0 end.
Definition case_t := (Z * list (list (ns * Z)) * list nat)%type.
Definition run_case (c : case_t) : jv :=
  let '(bsize, progs, sched) := c in
  let fuel := (4 + fold_right (fun p n => (length p + n)%nat) 0%nat progs)%nat in
  let '(g0, tr) := drive fuel (init bsize progs) sched [] in
  let g := settle_all fuel g0 in
  JL [JL tr;
      JL (map (fun t => jpairs (rev (t_handed t))) (g_tasks g));
      JL (map (fun t => JZs (rev (t_blocks t))) (g_tasks g));
      JL (map (fun t => JZ (status t)) (g_tasks g));
      JZ (g_ptr g);
      JB (match g_lock g with None => true | Some _ => false end);
      JL [jd (sh_data (g_sh g)); jd (sh_vstore (g_sh g));
          jd (sh_tstore (g_sh g)); jd (sh_sstore (g_sh g))]].
"""


def coq_case(bsize, progs, sched):
    ns = {0: 'NsValue', 1: 'NsTag', 2: 'NsSeq'}
    ps = "; ".join("[" + "; ".join(f"({ns[n]}, {v})" for n, v in p) + "]"
                   for p in progs)
    sc = "; ".join(str(p) for p in sched)
    return f"({bsize}, [{ps}], [{sc}]%nat)"


def want_of(out):
    return [out['trace'], out['handed'], out['blocks'], out['status'],
            out['ptr'], out['lock_free'], out['shared']]


# ------------------------------------------------------------ generators
def prog_for(rng, requests, bsize, pool):
    """ a program whose distinct values force `requests` block requests """
    if requests == 0:
        return []
    distinct = rng.randrange((requests - 1) * bsize + 1, requests * bsize + 1)
    vals = rng.sample(pool, distinct)
    prog = []
    for v in vals:
        prog.append((rng.choice([0, 0, 1, 2]), v))
        if rng.random() < 0.3:
            prog.append((rng.choice([0, 1, 2]), rng.choice(vals)))
    return prog


def explore_all(bsize, progs, cap):
    """ all stutter-free complete schedules (DFS by re-execution) """
    leaves, stack, capped = [], [[]], False
    while stack:
        prefix = stack.pop()
        r = run_real(bsize, progs, prefix, complete=False, explore=True)
        if 'trace' in r:              # deadlock found while exploring
            leaves.append(r['schedule'])
            continue
        if not r['branch']:
            leaves.append(r['schedule'])
        else:
            for p in reversed(r['branch']):
                stack.append(r['schedule'] + [p])
        if len(leaves) + len(stack) > cap:
            capped = True
            break
    return leaves, capped


def real_mp_runs(chk):
    """ real multi-process FileSearcher runs: every index a worker handed
    out resolves - after the run - to the value that worker stored (values
    include the falsy 0 and ''), and no two files share an index block """
    from searchkit import FileSearcher, SearchDef
    from searchkit.search import ResultFieldInfo
    bad = []
    d = tempfile.mkdtemp(prefix='c06mp_', dir=chk.work)
    n_runs = 2 if chk.quick else 6
    pat = re.compile(r'x (\d+) (\S+) e(\w*)')

    def read(g, i):
        try:
            return g.get(i)
        except Exception as exc:  # pylint: disable=broad-except
            return f"<raised {type(exc).__name__}: {exc}>"
    try:
        for r in range(n_runs):
            nfiles = chk.rng.choice([3, 5, 8])
            paths = []
            for i in range(nfiles):
                p = os.path.join(d, f"r{r}_f{i}.txt")
                nl = chk.rng.choice([1, 700, 1000, 1001, 2300])
                with open(p, 'w') as f:
                    for j in range(nl):
                        # shared and unique values; 0 and '' are legal values
                        f.write(f"x {j % 4} u{i}_{j} e"
                                f"{'' if j % 3 else 'common' + str(j % 50)}"
                                "\n")
                paths.append(p)
            s = FileSearcher(max_parallel_tasks=4)
            s.add(SearchDef(pat.pattern, tag=f"t{r}",
                            field_info=ResultFieldInfo(
                                {'n': int, 'u': None, 'e': str})),
                  os.path.join(d, f"r{r}_f*.txt"))
            old = signal.signal(signal.SIGALRM, lambda *a: (_ for _ in ()
                                                            ).throw(
                TimeoutError("multi-process run hung")))
            signal.alarm(120)
            try:
                res = s.run()
            finally:
                signal.alarm(0)
                signal.signal(signal.SIGALRM, old)
            owner = {}
            for p in paths:
                lines = open(p).read().split('\n')[:-1]
                got = sorted(res.find_by_path(p), key=lambda x: x.linenumber)
                if len(got) != len(lines):
                    bad.append(f"run {r}: {p}: {len(got)} results for "
                               f"{len(lines)} lines")
                    continue
                for ln, (line, g) in enumerate(zip(lines, got), 1):
                    m = pat.match(line)
                    want = (ln, int(m.group(1)), m.group(2), m.group(3))
                    have = (g.linenumber, read(g, 1), read(g, 2), read(g, 3))
                    if have != want:
                        bad.append(f"run {r}: {os.path.basename(p)}:{ln}: "
                                   f"line {line!r} read back {have[1:]!r}, "
                                   f"stored {want[1:]!r}")
                        break
                    for part in g.data:
                        if part[1] is None:
                            continue
                        blk = part[1] // 1000
                        if owner.setdefault(blk, p) != p:
                            bad.append(f"run {r}: index block {blk} used by "
                                       f"{owner[blk]} and {p}")
            chk.coverage['evaluations'] += 1
            chk.dist('real-multiprocess-runs')
    finally:
        shutil.rmtree(d, ignore_errors=True)
    return bad


def run(chk):
    chk.prove(PROPS)
    rng = chk.rng
    chk.coverage['rule'] = (
        "case = (block size, one add-program per task, schedule); the real "
        "ResultStoreParallel runs under that schedule in the cooperative "
        "scheduler, the model runs it inside Coq; exhaustive = every "
        "stutter-free complete schedule of 2 tasks x <=2 block requests; "
        "random = random task numbers (blocked/finished picks are stutters) "
        "for 3-4 tasks x 0-3 requests + round-robin / k-then-other patterns;"
        " non-trivial = at least two tasks requested a block")
    cases = []          # (bsize, progs, schedule, kind)
    pool = list(range(0, 12))       # 0..3 are falsy values, see FALSY
    # --- exhaustive, 2 tasks
    # (namespace, value id); value ids 0..3 are falsy Python values
    pairs = [(1, [[(0, 0)], [(0, 1)]]),
             (1, [[(0, 1), (1, 5)], [(0, 0), (0, 6)]]),
             (1, [[(0, 4), (0, 2)], [(2, 4)]]),
             (2, [[(0, 0), (1, 5), (0, 3)], [(0, 3), (0, 4), (2, 1)]]),
             (2, [[(0, 1), (0, 1), (1, 1)], [(0, 2), (0, 1), (0, 7)]]),
             (1, [[], [(0, 0), (0, 8)]]),
             (3, [[(0, 5), (0, 0), (0, 1), (0, 4)], [(1, 0)]])]
    for _ in range(6 if chk.quick else 30):
        if True:
            b = rng.choice([1, 2, 3])
            pairs.append((b, [prog_for(rng, rng.randrange(0, 3), b, pool),
                              prog_for(rng, rng.randrange(0, 3), b, pool)]))
    exhaustive_complete = 0
    for b, progs in pairs:
        try:
            leaves, capped = explore_all(b, progs, cap=400)
        except Exception as exc:  # pylint: disable=broad-except
            chk.violation(f"c06-run-raised {type(exc).__name__} (explore)",
                          {'exception': repr(exc)[:300], 'programs': progs,
                           'prealloc_block_size': b})
            continue
        if not capped:
            exhaustive_complete += 1
        chk.dist('exhaustive-schedules', len(leaves))
        for sc in leaves:
            cases.append((b, progs, sc, 'exhaustive'))
    chk.dist('exhaustive-program-pairs-fully-explored', exhaustive_complete)
    chk.dist('exhaustive-program-pairs', len(pairs))
    # --- random schedules, 3-4 tasks
    n_rand = 400 if chk.quick else 3000
    for _ in range(n_rand):
        k = rng.choice([2, 3, 3, 4, 4])
        b = rng.choice([1, 2, 3])
        progs = [prog_for(rng, rng.randrange(0, 4), b, pool)
                 for _ in range(k)]
        ln = rng.choice([0, 5, 20, 60, 150])
        sc = [rng.randrange(k + (1 if rng.random() < 0.1 else 0))
              for _ in range(ln)]
        # time passing for a waiting task (only matters to an acquire that
        # has a timeout)
        sc = [100 + rng.randrange(k) if rng.random() < 0.12 else p
              for p in sc]
        cases.append((b, progs, sc, 'random'))
    # --- adversarial patterns (the shape of the unlocked counter-schedule)
    for b, progs in pairs[:5]:
        for kk in range(0, 8):
            cases.append((b, progs, [0] * kk + [1] * 7 + [0] * 7,
                          'k-then-other'))
        cases.append((b, progs, [0, 1] * 30, 'round-robin'))
        # one task holds the lock (in preallocate or in sync) while the other
        # asks for a block and its wait "times out"
        for kk in (1, 2, 4, 8, 12, 16):
            cases.append((b, progs, [0] * kk + [1] * 3 + [101] + [1] * 9
                          + [0] * 9, 'holder-then-timeout'))
            cases.append((b, progs, [1] * kk + [0] * 3 + [100] + [0] * 9
                          + [1] * 9, 'holder-then-timeout'))
    coq_cases, wants, outs, ran = [], [], [], []
    for b, progs, sc, kind in cases:
        try:
            out = run_real(b, progs, sc)
        except Exception as exc:  # pylint: disable=broad-except
            chk.violation(f"c06-run-raised {type(exc).__name__} tasks="
                          f"{len(progs)} bsize={b}",
                          {'exception': repr(exc)[:300], 'programs': progs,
                           'prealloc_block_size': b, 'schedule': sc})
            continue
        outs.append(out)
        ran.append((b, progs, sc, kind))
        coq_cases.append(coq_case(b, progs, out['schedule']))
        wants.append(want_of(out))
        chk.dist(kind)
        chk.dist(f"tasks{len(progs)}")
        if sum(1 for bl in out['blocks'] if bl) >= 2:
            chk.coverage['distinct_nontrivial'] += 1
        if any(len(bl) >= 2 for bl in out['blocks']):
            chk.dist('a-task-with-2+-blocks')
        for e in out['errors'][:1]:
            chk.broken.append({'obligation': 'scheduler run of the real code',
                               'why': e})
        for pb in judge(b, out)[:1]:
            chk.violation(
                f"c06-{pb.split(':')[0].split(' ')[0]} tasks={len(progs)} "
                f"bsize={b}",
                {'violated': judge(b, out)[:5], 'prealloc_block_size': b,
                 'programs (namespace, value) per task': progs,
                 'schedule': out['schedule'], 'blocks': out['blocks'],
                 'handed (index, value)': out['handed'],
                 'shared_data': out['shared'][0],
                 'trace (task, access, ...)': out['trace'][:80]})
    chk.coverage['evaluations'] += len(cases)
    chk.coverage['traces_validated_against_impl'] += len(cases)
    mism, errs = vlib.eval_cases(chk.work, 'sched', '', PREAMBLE, 'run_case',
                                 coq_cases, wants, shard=60, timeout=900)
    for e in errs:
        chk.broken.append({'obligation': 'correspondence schedules (coqc)',
                           'why': e})
    for i, v in mism:
        b, progs, sc, kind = ran[i] if i >= 0 else (None, None, None, None)
        chk.violation(f"model-vs-impl {kind} tasks={len(progs or [])}",
                      {'case': coq_cases[i] if i >= 0 else None,
                       'impl': wants[i] if i >= 0 else None, 'model': v},
                      witness=False)
    for (b, progs, sc, kind), o in list(zip(ran, outs))[:2]:
        chk.sample({'kind': kind, 'bsize': b, 'programs': progs,
                    'schedule': o['schedule'][:40], 'blocks': o['blocks'],
                    'handed': o['handed']})
    # --- a store used by its creator BEFORE the workers are forked: the
    # late workers must not share the creator's block (real processes)
    import multiprocessing
    from c15 import fork_scenario, fork_after_use, judge_fork
    mgr = multiprocessing.Manager()
    try:
        for n in range(3 if chk.quick else 12):
            sc = fork_scenario(chk.rng, n)
            try:
                obs = fork_after_use(mgr, **sc)
                bad = judge_fork(obs)
            except Exception as exc:  # pylint: disable=broad-except
                obs, bad = {}, [f"run raised {type(exc).__name__}: {exc}"]
            chk.coverage['evaluations'] += 1
            chk.dist('fork-after-use-runs')
            chk.dist('late-workers-refused',
                     sum(1 for c in obs.get('children', [])
                         if c['status'] == 'refused'))
            for b in bad[:1]:
                chk.violation(
                    f"c06-fork-after-use bsize={sc['bsize']}: "
                    f"{b.split(':')[0][:50]}",
                    {'violated': bad[:5], 'scenario': sc, 'observed': obs})
    finally:
        mgr.shutdown()
    # --- real processes
    try:
        for pb in real_mp_runs(chk)[:2]:
            chk.violation("c06-multiprocess " + pb.split(':')[0][:40],
                          {'violated': pb})
    except Exception as exc:  # pylint: disable=broad-except
        chk.violation(f"c06-multiprocess run failed {type(exc).__name__}",
                      {'error': repr(exc)[:500]}, witness=True)
    chk.assumptions += [
        "multiprocessing.Lock is a mutex; Manager Value/dict proxies perform "
        "each get / set / contains / setitem atomically (the fakes used by "
        "the scheduler behave so by construction)",
        "every task runs on its own ResultStoreParallel copy (pickled into "
        "the worker), i.e. has its own local store",
        "fairness of the OS scheduler (needed for termination, not for the "
        "safety claims) is not modelled"]
