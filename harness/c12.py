"""C12 - gzip-compressed files are searched exactly like their content.

T1: the shape of execute()'s probe (Props/C12.v over Gen/SkelTree.v).
T2: every case is materialised as plain / gzip (level 1, 6 or 9) / gzip
    split into 2-3 members; the three real runs (results, line numbers,
    stats, exception class) must agree.  Model/Gzip.execute is evaluated in
    Coq on the (raw size, kind, stream) triples with `search` = number of
    lines read, against the implementation's lines_searched.
"""
import os
import shutil
import tempfile

import gen_logs as G
import recipes as RC
import skrun
import vlib

PROPS = ['Props/C12.v']


def gen_case(rng, idx):
    kind = rng.random()
    if idx in (7, 9):
        kind = 0.25          # always at least two NUL-byte contents
    if kind < 0.08:
        data = b''
    elif kind < 0.16:
        # decompressed content that itself starts with the gzip magic
        data = b'\x1f\x8b' + G.gen_log(rng, rng.randint(1, 6))
    elif kind < 0.22:
        data = G.gen_log(rng, 5, final_newline=False)
    elif kind < 0.30:
        # NUL bytes at various offsets (a NUL is an ordinary byte)
        data = bytearray(G.gen_log(rng, rng.choice([150, 300])))
        for _ in range(rng.randint(1, 3)):
            data[rng.choice([5, 700, 4090, 4100, 6000, 8100, 8200]) %
                 len(data)] = 0
        if idx == 7:
            data[6000 % len(data)] = 0     # beyond one buffer, within two
        if idx == 9:
            data[700 % len(data)] = 0
        data = bytes(data)
    elif kind < 0.40:
        # carriage returns: CRLF line ends and lone CRs inside lines
        # (progress-bar output) - only LF ends a line
        data = G.gen_log(rng, rng.choice([4, 20, 60]))
        data = data.replace(b'\n', b'\r\n') if rng.random() < 0.5 else \
            data.replace(b' alpha', b'\ralpha').replace(b' x', b'\rx')
    else:
        data = G.gen_log(rng, rng.choice([1, 2, 8, 30, 90, 200]),
                         undated_p=rng.choice([0.0, 0.2, 0.4]),
                         final_newline=rng.random() < 0.8,
                         long_p=rng.choice([0.0, 0.05, 0.2]))
    ncons = rng.choice([0, 1, 2])
    cons = RC.gen_constraints(rng, ncons)
    defs = RC.gen_defs(rng, ncons)
    use_global = ncons > 0 and rng.random() < 0.7
    adds = []
    for di in range(len(defs)):
        allow = not (use_global and rng.random() < 0.1)
        adds.append([di, 'FILE', allow])
    run = {'global': 0 if use_global else None,
           'decode_errors': rng.choice([None, None, 'backslashreplace']),
           'max_parallel_tasks': 8, 'adds': adds, 'new_searcher': True}
    return data, cons, defs, run


def variants(rng, data):
    cuts = sorted({rng.randrange(0, len(data) + 1)
                   for _ in range(rng.choice([1, 2]))}) if data else [0]
    # the gzip header's MTIME field is metadata, not content: old (year
    # 2000), zero and "now" must all behave like the plain file
    mt = rng.choice([946684800, 0, None, 1641000000])
    named = rng.random() < 0.5
    return [('plain', None),
            ('gzip', {'level': rng.choice([1, 6, 9]), 'cuts': [],
                      'mtime': mt,
                      # half of the single-member files carry the original
                      # file name in their header, as gzip(1) writes them
                      'with_name': 'x.log' if named else None}),
            ('multi', {'level': rng.choice([1, 6, 9]), 'cuts': cuts,
                       'mtime': rng.choice([946684800, None]),
                       'empty_last': rng.random() < 0.4,
                       'empty_first': rng.random() < 0.2})]


def big_case(rng):
    """ a line longer than the 1 MiB seek budget, probed by a file-level
    since constraint: plain and gzip must give up (or not) alike """
    pre = G.gen_log(rng, 6, undated_p=0.0)
    data = (pre + b'2022-01-12 00:00:00 ' + b'L' * ((1 << 20) + 5000) + b'\n'
            + G.gen_log(rng, 5, undated_p=0.0,
                        t0=G.datetime(2022, 1, 12, 1, 0, 0)))
    cons = [{'current': '2022-01-12 12:00:00', 'days': 0, 'hours': 24}]
    defs = [{'kind': 'simple', 'patterns': [r'.+ alpha (\d+)'], 'tag': 's0',
             'hint': None, 'store': True, 'constraints': []}]
    run_ = {'global': 0, 'decode_errors': None, 'max_parallel_tasks': 8,
            'adds': [[0, 'FILE', True]], 'new_searcher': True}
    return data, cons, defs, run_


def rotation_case(rng):
    """ hourly dated lines, the file-level boundary in the middle: the
    cached offset of the first run is far beyond the length of the content
    rotated in afterwards (the last lines, all inside the window) """
    t0 = G.datetime(2022, 1, 10, 0, 0, 0)
    lines = [(t0 + G.timedelta(hours=i)).strftime(G.TS_FMT).encode()
             + b' alpha %d\n' % i for i in range(72)]
    data = b''.join(lines)
    cons = [{'current': '2022-01-12 12:00:00', 'days': 0, 'hours': 24}]
    defs = [{'kind': 'simple', 'patterns': [r'.+ alpha (\d+)'], 'tag': 's0',
             'hint': None, 'store': True, 'constraints': []}]
    run_ = {'global': 0, 'decode_errors': None, 'max_parallel_tasks': 8,
            'adds': [[0, 'FILE', True]], 'new_searcher': True}
    return data, cons, defs, run_


def run(chk):
    chk.prove(PROPS)
    chk.coverage['rule'] = (
        "random logs (time-ordered, undated/empty/long lines, with/without "
        "final newline, empty content, content starting with the gzip magic) "
        "x simple and sequence searches x per-search and file-level since "
        "constraints, each materialised as plain / gzip / multi-member gzip; "
        "non-trivial = >= 1 result and (no constraint or the file-level "
        "constraint skips at least one line)")
    ncases = 40 if chk.quick else 300
    base = tempfile.mkdtemp(prefix='c12_', dir=chk.work)
    cases, wants, metas = [], [], []
    nontrivial = 0
    try:
        for idx in range(ncases):
            data, cons, defs, run_ = big_case(chk.rng) if idx == 3 \
                else rotation_case(chk.rng) if idx == 5 \
                else gen_case(chk.rng, idx)
            if idx == 11:
                # recorded finding D14 (known_findings.json): shown by every
                # run, reported as KNOWN-FINDING
                data = b'\x1f\x8b\n'
            outs = {}
            for vname, gz in variants(chk.rng, data):
                # the SAME path is rewritten with new content for every case
                # (as log rotation does): state keyed on the path only would
                # show up as stale results
                d = os.path.join(base, f"v_{vname}")
                skrun.materialise(d, {'x.log': (data, gz)})
                r = dict(run_, adds=[[a[0], 'x.log', a[2]]
                                     for a in run_['adds']])
                recipe = {'dir': d, 'constraints': cons, 'defs': defs,
                          'runs': [r]}
                o = skrun.run_here(recipe)[0]
                size = os.path.getsize(os.path.join(d, 'x.log'))
                outs[vname] = (o, size, gz)
                chk.coverage['evaluations'] += 1
            # the same case searched together with a second (plain) file, so
            # that worker processes and the shared store are used: the
            # compressed copy must read back like the plain one there too
            if idx % 5 == 0 and data:
                pouts = {}
                other = G.gen_log(chk.rng, 6)
                for vname, gz in variants(chk.rng, data)[:2]:
                    d2 = os.path.join(base, f"p_{vname}")
                    skrun.materialise(d2, {'x.log': (data, gz),
                                           'other.log': (other, None)})
                    r2 = dict(run_, adds=[[a[0], nm, a[2]]
                                          for a in run_['adds']
                                          for nm in ('x.log', 'other.log')])
                    rr = skrun.run_fresh({'dir': d2, 'constraints': cons,
                                          'defs': defs, 'runs': [r2]},
                                         timeout=120, workdir=base)
                    pouts[vname] = rr['obs'][0] if rr['obs'] else \
                        {'exc': 'no-answer', 'results': None, 'stats': None}
                    chk.coverage['evaluations'] += 1
                a, b = pouts['plain'], pouts['gzip']
                if (a['exc'], a['results'], a['stats']) != \
                        (b['exc'], b['results'], b['stats']):
                    chk.violation(
                        "gzip-differs-from-plain in a multi-file run "
                        + ("exception" if a['exc'] != b['exc'] else
                           "results" if a['results'] != b['results']
                           else "stats"),
                        {'content': data[:2000].decode('latin-1'),
                         'constraints': cons, 'defs': defs, 'run': run_,
                         'plain': a, 'compressed': b})
                chk.dist('parallel_pair')
            # the same PATH holds plain text first and a gzip file later (a
            # log compressed in place), in one process: what the path held
            # before must not decide how it is read now
            if idx % 4 == 2 and data:
                kouts = {}
                for vname, gz in (('plain', None), ('gzip', {'level': 6})):
                    d4 = os.path.join(base, f"k_{vname}")
                    skrun.materialise(d4, {'x.log': (data, None)})
                    r4 = dict(run_, adds=[[a[0], 'x.log', a[2]]
                                          for a in run_['adds']])
                    rec = {'dir': d4, 'constraints': cons, 'defs': defs,
                           'runs': [r4, dict(r4, new_searcher=True,
                                             replace={'x.log': data.decode(
                                                 'latin-1'), '_gz': gz})]}
                    kouts[vname] = skrun.run_here(rec)
                    chk.coverage['evaluations'] += 1
                pa = [(o['exc'], o['results'], o['stats'])
                      for o in kouts['plain']]
                gb = [(o['exc'], o['results'], o['stats'])
                      for o in kouts['gzip']]
                if pa != gb:
                    chk.violation(
                        "gzip-differs-from-plain after the path changed "
                        "from plain to gzip",
                        {'content': data[:1500].decode('latin-1'),
                         'constraints': cons, 'defs': defs, 'run': run_,
                         'plain': kouts['plain'][-1],
                         'compressed': kouts['gzip'][-1]})
                chk.dist('plain_then_gzip_history')
            # the path's content is REPLACED by a shorter one and the same
            # searcher (and constraint object) runs again: plain and gzip
            # must still agree with each other
            if idx % 4 == 1 and len(data) > 200 and run_['global'] is not None:
                houts = {}
                if idx % 8 == 1:
                    short = data[:len(data) // 3]
                    short = short[:short.rfind(b'\n') + 1] or short
                else:
                    # the LAST lines of the old content (a rotated-in file
                    # that is shorter than the cached offset but whose lines
                    # are all inside the window)
                    cut = data.find(b'\n', 3 * len(data) // 4) + 1
                    short = data[cut:] or data[-40:]
                for vname, gz in variants(chk.rng, data)[:2]:
                    d3 = os.path.join(base, f"h_{vname}")
                    skrun.materialise(d3, {'x.log': (data, gz)})
                    r3 = dict(run_, adds=[[a[0], 'x.log', a[2]]
                                          for a in run_['adds']])
                    first = skrun.run_here({'dir': d3, 'constraints': cons,
                                            'defs': defs, 'runs': [r3]})
                    import sk_child
                    # second run of the same objects needs one recipe:
                    skrun.materialise(d3, {'x.log': (data, gz)})
                    rec = {'dir': d3, 'constraints': cons, 'defs': defs,
                           'runs': [r3, dict(r3, new_searcher=False,
                                             replace={'x.log': short.decode(
                                                 'latin-1'),
                                                 '_gz': gz})]}
                    houts[vname] = skrun.run_here(rec)
                    chk.coverage['evaluations'] += 1
                pa = [(o['exc'], o['results'], o['stats'])
                      for o in houts['plain']]
                gb = [(o['exc'], o['results'], o['stats'])
                      for o in houts['gzip']]
                if pa != gb:
                    chk.violation(
                        "gzip-differs-from-plain after the file was replaced",
                        {'content': data[:1500].decode('latin-1'),
                         'short_len': len(short), 'constraints': cons,
                         'defs': defs, 'run': run_, 'plain': houts['plain'],
                         'compressed': houts['gzip']})
                chk.dist('replaced_content_history')
            ref = outs['plain'][0]
            for vname in ('gzip', 'multi'):
                o = outs[vname][0]
                same = (o['exc'] == ref['exc'] and
                        o['results'] == ref['results'] and
                        o['stats'] == ref['stats'])
                if not same:
                    short_magic = (
                        data[:2] == b'\x1f\x8b' and len(data) < 10 and
                        ref['exc'] == 'FileSearchException' and
                        'Compressed file ended' in (ref.get('exc_msg') or ''))
                    chk.violation(
                        # the one recorded finding (D14): a PLAIN file that
                        # begins with the gzip magic and is shorter than a
                        # gzip header is not searched as plain text
                        "plain-file-with-gzip-magic-shorter-than-header"
                        if short_magic else
                        f"{vname}-differs-from-plain "
                        + ("exception" if o['exc'] != ref['exc'] else
                           "results" if o['results'] != ref['results']
                           else "stats"),
                        {'content': data.decode('latin-1'),
                         'constraints': cons, 'defs': defs, 'run': run_,
                         'gzip': outs[vname][2], 'plain': ref,
                         'compressed': o})
            if ref['exc'] is None:
                nres = sum(len(v) for v in ref['results'].values())
                nl = ref['stats']['lines_searched']
                total = len(G.split_lines(data))
                if nres > 0 and (run_['global'] is None or nl < total):
                    nontrivial += 1
                chk.dist('with_global' if run_['global'] is not None
                         else 'no_global')
                # model: execute with search = number of lines of the part of
                # the stream that was read (suffix of nl lines)
                for vname in ('plain', 'gzip', 'multi'):
                    o, size, gz = outs[vname]
                    if o['exc'] is not None or len(data) > 200000:
                        continue
                    k = 'Plain' if gz is None else 'Gz'
                    cases.append(f"(mkFile {size} {k} {vlib.zl(list(data))},"
                                 f" {total - nl}%nat)")
                    wants.append(o['stats']['lines_searched'])
                    metas.append((idx, vname))
            else:
                chk.dist('exception_' + ref['exc'])
            if idx < 2:
                chk.sample({'content_head': data[:120].decode('latin-1'),
                            'defs': [d.get('patterns') or d['tag']
                                     for d in defs],
                            'plain_stats': ref['stats'],
                            'results': ref['results']})
    finally:
        shutil.rmtree(base, ignore_errors=True)
    pre = ("From SK Require Import Model.Gzip Model.Lines.\n"
           "Definition runner (c : bfile * nat) : jv :=\n"
           "  JZ (execute Z (fun s => Model.Base.lenZ (skipn (snd c) "
           "(split_lines s))) 0 (fst c)).\n")
    mism, errs = vlib.eval_cases(chk.work, 'gz', '', pre, 'runner', cases,
                                 wants, shard=60)
    for e in errs:
        chk.broken.append({'obligation': 'correspondence (coqc)', 'why': e})
    for i, v in mism:
        chk.violation('model-vs-impl-lines-read',
                      {'case': metas[i] if i >= 0 else None, 'model': v},
                      witness=False)
    chk.coverage['distinct_nontrivial'] = nontrivial
    chk.coverage['traces_validated_against_impl'] = len(cases)
    chk.assumptions += [
        "CPython's GzipFile (any level, multi-member) presents the "
        "decompressed stream through seek/tell/read/peek/iteration like a "
        "plain file presents its bytes; peek(1) raises OSError exactly on "
        "non-gzip input (trusted, exercised by T2)",
        "that the results of searching a stream are right is C01/C03/C04/"
        "C07's business; here the three materialisations must agree"]
