"""C14 - result-collection lookups are consistent views of one multiset.

Theorems: Props/C14.v over Model/Collection.v (every collection reachable by
add() calls, every catalog).
T2: populations of results are pushed through the REAL
SearchResultsCollection - (a) by real single- and multi-process
FileSearcher.run()s (add() is wrapped to record the batches the collection
receives), (b) by direct add() of synthetic SearchResultMinimal batches over
a small fake catalog and a real ResultStoreSimple.  Every accessor is called
with every known path / tag / definition plus unknown ones, None and '';
the canonicalised answers are compared with the model evaluated inside Coq,
and the cross-view identities of the property are asserted directly on the
implementation's answers (spec oracle: a failed identity is a witness).
"""
import json
import os
import shutil
import signal
import tempfile
import time
import traceback
from types import SimpleNamespace

import vlib

PROPS = ['Props/C14.v']

UNKNOWN_PATH = '/no/such/path'
UNKNOWN_TAG = 'no-such-tag'
UNKNOWN_DEF = 'no-such-def'


# ------------------------------------------------------------ canonicaliser
class Ids:
    """ first-occurrence ranks for strings (uuids, paths, tags) """
    def __init__(self, start=1, fixed=None):
        self.m = dict(fixed or {})
        self.next = start

    def __call__(self, s):
        if s not in self.m:
            self.m[s] = self.next
            self.next += 1
        return self.m[s]


def oz(x):
    return "None" if x is None else f"(Some {x})"


def observe(coll, source_ids, search_tags, batches, store, extra_paths=(),
            rng=None, registrations=None, seq_part_tags=None):
    """Call every accessor of the real collection `coll`; return the Coq case
    term, the canonical answers and the list of violated identities.

    source_ids : catalog._source_ids (source id -> path string)
    search_tags: catalog._search_tags (tag -> [definition id])
    batches    : the lists of result objects passed to add(), in order
    """
    pid = Ids(1, {None: 0, '': -1})
    tid = Ids(1)
    did = Ids(100)
    sid = Ids(500)
    for p in source_ids.values():
        pid(p)
    for p in extra_paths:
        pid(p)
    uid_of = {}
    tagstr = {}
    attr = {}          # uid -> (path id, tag, seq, section)
    coq_batches = []
    n = 0
    for b in batches:
        rs = []
        for r in b:
            n += 1
            uid_of[id(r)] = n
            t_ix, s_ix = r.metadata[0], r.metadata[1]
            tag = None if t_ix is None else store.get(t_ix)
            seq = None if s_ix is None else store.get(s_ix)
            t = None if tag is None else tid(tag)
            d = None if seq is None else did(seq)
            s = None if r.section_id is None else sid(r.section_id)
            path = pid(source_ids.get(r.source_id))
            attr[n] = (path, t, d, s)
            tagstr[n] = tag
            parts = "[" + "; ".join(
                f"({int(p[0])}, {-1 if p[1] is None else int(p[1])})"
                for p in r.data) + "]"
            rs.append(f"mkR {n} {int(r.linenumber)} {int(r.source_id)} "
                      f"{oz(t)} {oz(d)} {oz(s)} {parts}")
        coq_batches.append("[" + "; ".join(rs) + "]")
    # the tag table the catalog SHOULD hold: every tag resolves to all the
    # definitions ever registered with it (first-registration order), derived
    # from the registration history and not from the catalog
    if registrations is None:
        registrations = [(t, i) for t, ids in search_tags.items()
                         for i in ids]
    expected_tags = {}
    for t, i in registrations:
        if t is not None and i not in expected_tags.setdefault(t, []):
            expected_tags[t].append(i)
    impl_tags = [[tid(t), [did(i) for i in ids]]
                 for t, ids in search_tags.items()]
    tagtab = {}
    for tag, ids in expected_tags.items():
        tagtab[tid(tag)] = [did(i) for i in ids]
    coq_regs = "[" + "; ".join(f"({tid(t)}, {did(i)})"
                               for t, i in registrations
                               if t is not None) + "]"

    def U(rs):
        # an object that was never passed to add() has no uid: -1
        return [uid_of.get(id(r), -1) for r in rs]

    # ---- query universe
    paths = [p for p in pid.m if p not in (None, '')] + [UNKNOWN_PATH,
                                                         None, '']
    path_ids = [pid(p) for p in paths]
    tags = [t for t in tid.m] + [UNKNOWN_TAG, None]
    tag_ids = [None if t is None else tid(t) for t in tags]
    defs = [d for d in did.m] + [UNKNOWN_DEF]
    def_ids = [did(d) for d in defs]
    stags = list(dict.fromkeys(list(expected_tags) + list(search_tags))) \
        + [UNKNOWN_TAG]
    if rng is not None:
        # the lookups below form ONE history on the same collection object:
        # restricted / unrestricted / unknown paths in a generated order
        for lst in (paths, tags, defs, stags):
            rng.shuffle(lst)
        path_ids = [pid(p) for p in paths]
        tag_ids = [None if t is None else tid(t) for t in tags]
        def_ids = [did(d) for d in defs]
    stag_ids = [tid(t) for t in stags]
    skeys = [None] + sorted(set(sid.m.values()))
    inv_sid = {v: k for k, v in sid.m.items()}

    foreign = Ids(9000)

    def skey(k):
        # a key that is not a section id of any result (only a broken
        # implementation produces one) gets an id the model cannot produce
        if k is None:
            return None
        try:
            return sid.m[k] if k in sid.m else foreign(repr(k))
        except TypeError:
            return foreign(repr(k))

    def enc_secs(d):
        ks = {skey(k): U(v) for k, v in d.items()}
        return [len(ks), [[ks[k]] if k in ks else [] for k in skeys]], ks

    want_paths = []
    answers = {}
    for p, pi in zip(paths, path_ids):
        by_path = U(coll.find_by_path(p))
        by_tag = [U(coll.find_by_tag(t, p)) for t in tags]
        seqs = U(coll._get_all_sequence_results(p))  # noqa, pylint: disable=protected-access
        secs_enc, secs_raw = [], []
        for d in defs:
            e, raw = enc_secs(coll.find_sequence_sections(
                SimpleNamespace(id=d), p))
            secs_enc.append(e)
            secs_raw.append(raw)
        st_enc, st_raw = [], []
        for t in stags:
            try:
                e, raw = enc_secs(coll.find_sequence_by_tag(t, p))
            except KeyError:
                e, raw = -1, None
            st_enc.append(e)
            st_raw.append(raw)
        want_paths.append([by_path, by_tag, seqs, secs_enc, st_enc])
        answers[pi] = {'by_path': by_path, 'by_tag': by_tag, 'seqs': seqs,
                       'secs': secs_raw, 'stags': st_raw}
    # second pass over the same object in another order: a lookup must not
    # change what a later lookup (with another path argument) answers
    replay = []
    order = list(zip(paths, path_ids))[::-1]
    if rng is not None:
        rng.shuffle(order)
    for p, pi in order:
        a = answers[pi]
        again = {'seqs': U(coll._get_all_sequence_results(p)),  # noqa, pylint: disable=protected-access
                 'by_path': U(coll.find_by_path(p)),
                 'by_tag': [U(coll.find_by_tag(t, p)) for t in tags]}
        st = []
        for t in stags:
            try:
                st.append(enc_secs(coll.find_sequence_by_tag(t, p))[1])
            except KeyError:
                st.append(None)
        again['stags'] = st
        for k, v in again.items():
            if v != a[k]:
                replay.append({'sig': 'lookup-history-changed-answer',
                               'accessor': k, 'path': pi, 'first': a[k],
                               'later': v})
    all_ = U(list(coll.all))
    items = [[pid(k), U(v)] for k, v in coll.items()]
    files = [pid(p) for p in coll.files]
    keys = [pid(p) for p in coll.keys()]
    ln = len(coll)
    want = [ln, all_, items, files, keys, want_paths, impl_tags]

    cat = ("mkCat [" + "; ".join(f"({int(s)}, {pid(p)})"
                                 for s, p in source_ids.items()) + "] ["
           + "; ".join(f"({t}, {vlib.zl(ds)})" for t, ds in tagtab.items())
           + "]")
    case = ("((" + cat + ", [" + "; ".join(coq_batches) + "], "
            + vlib.zl(path_ids) + ", [" + "; ".join(oz(t) for t in tag_ids)
            + "], " + vlib.zl(def_ids) + ", " + vlib.zl(stag_ids) + ", ["
            + "; ".join(oz(k) for k in skeys) + "], " + coq_regs
            + ") : case_t)")

    # ---------------------------------------------------- spec oracle
    bad = list(replay)
    # every shared tag resolves to ALL definitions registered with it
    got_tags = {t: ds for t, ds in impl_tags}
    for t, ds in tagtab.items():
        if sorted(got_tags.get(t, [])) != sorted(ds):
            bad.append({'sig': 'tag-table-lost-definition', 'tag': t,
                        'catalog_resolves_to': got_tags.get(t),
                        'registered_with_tag': ds,
                        'registration_history': [
                            (tid(a), did(b)) for a, b in registrations
                            if a is not None]})

    def fail(sig, **kw):
        bad.append({'sig': sig, **kw})

    every = list(range(1, n + 1))
    per_path = {}
    for u in every:
        per_path.setdefault(attr[u][0], []).append(u)
    # one multiset: nothing lost or duplicated, per-path arrival order
    if sorted(all_) != every:
        fail('population-changed', all=all_, added=n)
    for pi in set(path_ids) | set(per_path):
        if pi in answers and pi > 0 and \
                answers[pi]['by_path'] != per_path.get(pi, []):
            fail('path-view-not-arrivals', path=pi,
                 got=answers[pi]['by_path'], arrivals=per_path.get(pi, []))
    # len = sum of per-path lists
    tot = sum(len(coll.find_by_path(p)) for p in coll.files)
    if ln != tot or ln != len(all_):
        fail('len-not-sum', len=ln, sum_per_path=tot, all=len(all_))
    # all == items() concatenated, items() pairs files with find_by_path
    if all_ != [u for _, v in items for u in v] or \
            [k for k, _ in items] != files or keys != files:
        fail('all-vs-items', all=all_, items=items, files=files, keys=keys)
    for k, v in coll.items():
        if U(coll.find_by_path(k)) != U(v) or U(coll[k]) != U(v):
            fail('items-vs-find-by-path', path=pid(k))
    unknown = pid(UNKNOWN_PATH)
    fresh = True
    owner = {}
    for u in every:
        p_, _, d_, s_ = attr[u]
        if d_ is None:
            continue
        if owner.setdefault(s_, (p_, d_)) != (p_, d_):
            fresh = False
    for p, pi in zip(paths, path_ids):
        a = answers[pi]
        base = a['by_path'] if p else all_
        if pi == unknown or (p and pi not in files):
            flat = (a['by_path'] + a['seqs'] + [u for x in a['by_tag']
                                                for u in x]
                    + [u for s in a['secs'] for v in s.values() for u in v]
                    + [u for s in a['stags'] if s for v in s.values()
                       for u in v])
            if flat:
                fail('unknown-path-nonempty', path=pi, got=flat)
        for t, ti, got in zip(tags, tag_ids, a['by_tag']):
            exp = [u for u in base if attr[u][1] == ti]
            if got != exp:
                fail('by-tag-not-exact', tag=ti, path=pi, got=got,
                     expected=exp)
        exp = [u for u in base if attr[u][2] is not None]
        if a['seqs'] != exp:
            fail('sequence-results-not-exact', path=pi, got=a['seqs'],
                 expected=exp)
        for d, di, secs in zip(defs, def_ids, a['secs']):
            got = sorted(u for v in secs.values() for u in v)
            exp = sorted(u for u in base if attr[u][2] == di)
            if got != exp or any(
                    not v or any(attr[u][2:] != (di, k) for u in v)
                    for k, v in secs.items()):
                fail('definition-sections-not-partition', definition=di,
                     path=pi, sections=secs, expected_union=exp)
        for t, ti, secs in zip(stags, stag_ids, a['stags']):
            if secs is None:
                if ti in tagtab:
                    fail('registered-tag-keyerror', tag=ti)
                continue
            ds = tagtab.get(ti, [])
            flat = [u for v in secs.values() for u in v]
            if len(set(flat)) != len(flat):
                fail('sections-overlap', tag=ti, path=pi, sections=secs)
            for k, v in secs.items():
                if not v or len({attr[u][2] for u in v}) != 1 or \
                        attr[v[0]][2] not in ds or \
                        any(attr[u][3] != k for u in v):
                    fail('section-not-one-definition', tag=ti, path=pi,
                         section=k, results=v)
                if fresh and len({attr[u][0] for u in v}) != 1:
                    fail('section-not-one-file', tag=ti, path=pi,
                         section=k, results=v)
            exp = sorted(u for u in base if attr[u][2] in ds)
            if fresh and sorted(flat) != exp:
                fail('sections-not-partition', tag=ti, path=pi,
                     sections=secs, expected_union=exp)
            if not fresh and not set(flat) <= set(exp):
                fail('sections-foreign-result', tag=ti, path=pi,
                     sections=secs, expected_union=exp)
    # results of a sequence search, known by the part tag of the search
    # that produced them, must all be in the sections of that tag
    if seq_part_tags:
        for u in every:
            if tagstr[u] in seq_part_tags and (attr[u][2] is None
                                               or attr[u][3] is None):
                fail('sequence-result-in-no-section', result=u,
                     tag=tagstr[u], sequence_id=attr[u][2],
                     section_id=attr[u][3],
                     note='a result of a sequence part carries no '
                          'sequence/section id and is skipped by the '
                          'sequence lookups')
        for t, ti, secs in zip(stags, stag_ids, answers[0]['stags']):
            if secs is None:
                continue
            exp = sorted(u for u in all_ if seq_part_tags.get(tagstr[u]) == t)
            got = sorted(u for v in secs.values() for u in v)
            if fresh and got != exp:
                fail('sequence-result-in-no-section', tag=ti, sections=secs,
                     results_of_the_sequence_searches=exp)
    # path filter commutes: lookup(path=p) = lookup() restricted to p
    glob_ = answers[0]
    for p, pi in zip(paths, path_ids):
        if not p:
            continue
        a = answers[pi]
        for i, ti in enumerate(tag_ids):
            exp = [u for u in glob_['by_tag'][i] if attr[u][0] == pi]
            if a['by_tag'][i] != exp:
                fail('path-filter-by-tag', tag=ti, path=pi,
                     got=a['by_tag'][i], expected=exp)
        if fresh:
            for i, ti in enumerate(stag_ids):
                if glob_['stags'][i] is None or a['stags'][i] is None:
                    continue
                exp = {k: v for k, v in glob_['stags'][i].items()
                       if attr[v[0]][0] == pi}
                if a['stags'][i] != exp:
                    fail('path-filter-sections', tag=ti, path=pi,
                         got=a['stags'][i], expected=exp)
    del inv_sid
    meta = {'results': n, 'paths': len(set(a[0] for a in attr.values())),
            'tags': len(set(a[1] for a in attr.values()
                            if a[1] is not None)),
            'defs': len(set(a[2] for a in attr.values()
                            if a[2] is not None)),
            'sections': len(set(a[3] for a in attr.values()
                                if a[3] is not None)),
            'seq_results': sum(1 for a in attr.values()
                               if a[2] is not None),
            'shared_seq_tag': any(len(v) > 1 for v in tagtab.values()),
            'fresh': fresh, 'batches': len(batches)}
    return {'case': case, 'want': want, 'bad': bad, 'meta': meta}


# ------------------------------------------------- (b) synthetic populations
class FakeCatalog:
    """ the two catalog methods a SearchResultsCollection uses """
    def __init__(self, source_ids, search_tags):
        self._source_ids = source_ids
        self._search_tags = search_tags

    def source_id_to_path(self, s_id):
        return self._source_ids.get(s_id)

    def resolve_from_tag(self, tag):
        return [SimpleNamespace(id=i) for i in self._search_tags[tag]]


def synthetic(rng, shape):
    from searchkit.result import SearchResultMinimal
    from searchkit.results_store import ResultStoreSimple
    from searchkit.search import SearchResultsCollection
    store = ResultStoreSimple()
    if rng.random() < 0.4:
        store.add(None, None, 'first-value')   # slot 0 holds a VALUE;
        # otherwise the first tag gets slot 0 (first result has no value)
    npaths = {'one-tag-5-paths': 5, 'single-path': 1}.get(
        shape, rng.randint(2, 5))
    source_ids = {i: f"/p/f{i}.log" for i in range(npaths)}
    simple_tags = ['A', 'B', 'C'][:rng.randint(1, 3)]
    if shape == 'one-tag-5-paths':
        simple_tags = ['A']
    ndefs = rng.randint(2, 4)
    seq_tags = ['S', 'T']
    defs = {f"def-{i}": rng.choice(seq_tags) for i in range(ndefs)}
    defs['def-0'], defs['def-1'] = 'S', 'S'    # several defs share tag S
    search_tags = {}
    for t in simple_tags:
        search_tags[t] = [f"simple-{t}-{j}" for j in range(rng.randint(1, 2))]
    for d, t in defs.items():
        search_tags.setdefault(t, []).append(d)
    if rng.random() < 0.3:      # a simple search registered under tag S too
        search_tags['S'].insert(rng.randint(0, len(search_tags['S'])),
                                'simple-S')
    if rng.random() < 0.3:
        search_tags['EMPTY'] = ['def-unused']
    collide = (shape == 'collision')
    nsec = 0
    per_path = {i: [] for i in range(npaths)}
    sec_pool = []

    def mk(src, tag, seq, sec, ln):
        noparts = (shape == 'no-parts') or rng.random() < 0.2
        t_ix, s_ix, _ = store.add(tag, seq, None)
        data = []
        if not noparts:
            for g in range(1, rng.randint(1, 3) + 1):
                val = rng.choice([None, 'v%d' % rng.randint(0, 5)])
                _, _, v_ix = store.add(tag, seq, val)
                data.append((g, v_ix))
        return SearchResultMinimal(data, [t_ix, s_ix], ln, src, sec, None)

    budget = {'forty-sections': 40}.get(shape, rng.randint(0, 8))
    for src in range(npaths):
        if shape != 'one-tag-5-paths' and npaths > 2 and \
                rng.random() < 0.15:
            continue              # a path without any result ("empty file")
        ln = 0
        for _ in range(rng.randint(1, 9)):
            ln += rng.randint(1, 3)
            kind = rng.random()
            if kind < 0.5 or budget <= 0:
                tag = rng.choice(simple_tags + [None]) \
                    if shape != 'one-tag-5-paths' else 'A'
                per_path[src].append(mk(src, tag, None, None, ln))
                continue
            budget -= 1
            d = rng.choice(list(defs))
            nsec += 1
            sec = f"sec-{nsec}"
            if collide and sec_pool and rng.random() < 0.5:
                sec = rng.choice(sec_pool)
            sec_pool.append(sec)
            stag = defs[d]
            per_path[src].append(mk(src, f"{stag}-start", d, sec, ln))
            for _ in range(rng.randint(0, 2)):
                ln += 1
                per_path[src].append(mk(src, f"{stag}-body", d, sec, ln))
            if rng.random() < 0.8:
                ln += 1
                per_path[src].append(mk(src, f"{stag}-end", d, sec, ln))
    if shape == 'unknown-source':
        per_path[99] = [mk(99, 'A', None, None, 1), mk(99, None, None, None,
                                                       2)]
    # interleave the per-file streams into batches as the collector sees them
    streams = {k: v[:] for k, v in per_path.items() if v}
    batches = []
    while streams:
        k = rng.choice(sorted(streams))
        take = rng.randint(1, 10)
        batches.append(streams[k][:take])
        streams[k] = streams[k][take:]
        if not streams[k]:
            del streams[k]
    if rng.random() < 0.2:
        batches.insert(rng.randint(0, len(batches)), [])
    cat = FakeCatalog(source_ids, search_tags)
    coll = SearchResultsCollection(cat, store)
    was_reset = rng.random() < 0.3
    if was_reset:
        # history: fill, reset(), fill again - every view (len() included)
        # must be that of the later batches alone
        coll.add([mk(0, 'A', None, None, 1) for _ in range(rng.randint(1,
                                                                       4))])
        coll.reset()
    for b in batches:
        coll.add(b)
    try:
        obs = observe(coll, source_ids, search_tags, batches, store, rng=rng)
        obs['meta']['reset_history'] = was_reset
    except Exception as exc:                                  # noqa
        return {'raised': f"{type(exc).__name__}: {exc}",
                'trace': traceback.format_exc()[-1500:],
                'meta': {'kind': 'synthetic:' + shape,
                         'batches': [[repr(r) for r in b] for b in batches],
                         'search_tags': search_tags}}
    obs['meta']['kind'] = 'synthetic:' + shape
    return obs


# ------------------------------------------------------------ (a) real runs
WORDS = ['alpha %d', 'beta %d', 'gamma', 'delta x%d', 'start s%d',
         'body b%d', 'end e%d', 'BEGIN', 'END', 'item %d', 'noise %d']


def write_files(rng, d, nfiles):
    paths = []
    for i in range(nfiles):
        p = os.path.join(d, f"f{i}.txt")
        kind = rng.random()
        lines = []
        if kind < 0.08:
            pass                           # empty file
        elif kind < 0.15:
            lines = ['noise %d' % j for j in range(rng.randint(1, 5))]
        else:
            for _ in range(rng.randint(3, 40)):
                w = rng.choice(WORDS)
                lines.append(w % rng.randint(0, 9) if '%' in w else w)
        with open(p, 'w', encoding='utf-8') as f:
            f.write(''.join(x + '\n' for x in lines))
        paths.append(p)
    return paths


def real_run(cfg, workdir):
    """ executed in a forked child: one FileSearcher.run() """
    from searchkit import FileSearcher, SearchDef, SequenceSearchDef
    import searchkit.search as S
    import random
    rng = random.Random(cfg['seed'])
    d = tempfile.mkdtemp(prefix='c14r_', dir=workdir)
    recorded = []
    real_add = S.SearchResultsCollection.add

    def add(self, results):
        recorded.append(list(results))
        return real_add(self, results)

    S.SearchResultsCollection.add = add
    try:
        paths = write_files(rng, d, cfg['nfiles'])
        if cfg['force_empty']:
            open(paths[-1], 'w').close()
        fs = FileSearcher(max_parallel_tasks=cfg['par'])
        simple = [SearchDef(r'alpha (\d+)', tag='A'),
                  SearchDef(r'beta (\d+)', tag='A'),       # same tag
                  SearchDef(r'gamma', tag='G'),
                  SearchDef(r'delta (\S+)'),                # no tag
                  SearchDef(r'item (\d+)', tag='S')]        # tag of a sequence
        def part(pattern):
            # some sequence parts do not store their contents (the result is
            # then a bare marker: no parts, but still tag / sequence id /
            # section id)
            return SearchDef(pattern,
                             store_result_contents=rng.random() < 0.6)

        seqs = [SequenceSearchDef(start=part(r'start (\S+)'),
                                  body=part(r'body (\S+)'),
                                  end=part(r'end (\S+)'), tag='S'),
                SequenceSearchDef(start=part(r'BEGIN'),
                                  body=part(r'item (\d+)'),
                                  end=part(r'END'), tag='S'),
                SequenceSearchDef(start=part(r'start (\S+)'),
                                  body=part(r'item (\d+)'), tag='T')]
        parts = {}
        for sq in seqs:
            for pt in (sq.start_tag, sq.body_tag, sq.end_tag):
                parts[pt] = sq.tag
        targets = paths if cfg['nfiles'] > 1 else paths[:1]
        regs = []

        def add(sd, p):
            regs.append((sd.tag, sd.id))
            fs.add(sd, p)

        alldefs = simple + seqs
        rng.shuffle(alldefs)
        mode = cfg.get('order', 'mixed')
        if cfg['nfiles'] == 1:
            for sd in alldefs:
                add(sd, paths[0])
        elif mode == 'search-major':
            # for each search: for each file: add()
            for sd in alldefs:
                for p in rng.sample(targets, rng.randint(2, len(targets))):
                    add(sd, p)
        elif mode == 'file-major':
            for p in targets:
                for sd in alldefs:
                    if rng.random() < 0.8:
                        add(sd, p)
        else:
            for sd in alldefs:
                if rng.random() < 0.3:
                    for p in rng.sample(targets,
                                        rng.randint(1, len(targets))):
                        add(sd, p)
                else:
                    add(sd, os.path.join(d, '*'))
        coll = fs.run()
        try:
            obs = observe_real(fs, coll, recorded, rng, regs, parts)
            obs['meta']['order'] = mode
        except Exception as exc:                              # noqa
            return {'raised': f"{type(exc).__name__}: {exc}",
                    'trace': traceback.format_exc()[-1500:],
                    'meta': {'kind': 'real', 'cfg': cfg}}
        return obs
    finally:
        S.SearchResultsCollection.add = real_add
        shutil.rmtree(d, ignore_errors=True)


def observe_real(fs, coll, recorded, rng=None, regs=None, parts=None):
    cat = fs.catalog
    obs = observe(coll, dict(cat._source_ids),               # noqa, pylint: disable=protected-access
                  {k: list(v) for k, v in cat._search_tags.items()},  # noqa, pylint: disable=protected-access
                  recorded, coll.results_store, extra_paths=fs.files,
                  rng=rng, registrations=regs, seq_part_tags=parts)
    obs['meta']['kind'] = 'real:' + ('mp' if len(fs.files) > 1 else 'single')
    obs['meta']['files'] = len(fs.files)
    obs['meta']['stats_results'] = fs.stats['results']
    if fs.stats['results'] != len(coll):
        obs['bad'].append({'sig': 'collected-count-differs',
                           'stats': fs.stats['results'], 'len': len(coll)})
    return obs


def in_child(fn, out, timeout):
    """ run fn() in a forked child with its own process group; the result is
    passed back as JSON; the whole group is killed afterwards """
    if os.path.exists(out):
        os.unlink(out)
    pid = os.fork()
    if pid == 0:
        rc = 1
        try:
            os.setsid()
            signal.alarm(int(timeout) + 10)
            try:
                import ctypes
                ctypes.CDLL(None).prctl(1, signal.SIGKILL)  # PR_SET_PDEATHSIG
            except (OSError, AttributeError):
                pass
            res = fn()
            with open(out + '.tmp', 'w', encoding='utf-8') as f:
                json.dump(res, f)
            os.replace(out + '.tmp', out)
            rc = 0
        except BaseException:                       # noqa
            with open(out + '.err', 'w', encoding='utf-8') as f:
                f.write(traceback.format_exc())
        finally:
            os._exit(rc)
    deadline = time.time() + timeout
    status = None
    while time.time() < deadline:
        r, st = os.waitpid(pid, os.WNOHANG)
        if r == pid:
            status = st
            break
        time.sleep(0.02)
    try:
        os.killpg(pid, signal.SIGKILL)
    except (ProcessLookupError, PermissionError):
        pass
    if status is None:
        try:
            os.waitpid(pid, 0)
        except ChildProcessError:
            pass
        return None, 'timeout'
    if os.path.exists(out):
        with open(out, encoding='utf-8') as f:
            return json.load(f), None
    err = ''
    if os.path.exists(out + '.err'):
        with open(out + '.err', encoding='utf-8') as f:
            err = f.read()
    return None, 'child failed: ' + err[-1500:]


PREAMBLE = r"""
From SK Require Import Model.Collection.
From SK Require Model.Catalog.
Definition uids (l : list result) : jv := JZs (map uid l).
(* _search_tags after the registration history (Model/Catalog.v) *)
Definition tag_table (regs : list (Z * Z)) : list (Z * list Z) :=
  fold_left (fun t r => SK.Model.Catalog.register_tag t (Some (fst r)) (snd r))
            regs [].
Definition enc_secs (skeys : list (option Z)) (s : sections) : jv :=
  JL [JZ (lenZ s);
      JL (map (fun k => match dget oz_eqb s k with
                        | None => JL [] | Some v => JL [uids v] end) skeys)].
Definition enc_lookup (skeys : list (option Z)) (l : lookup sections) : jv :=
  match l with KeyError => JZ (-1) | Ok s => enc_secs skeys s end.
Definition case_t : Type :=
  (catalog * list (list result) * list Z * list (option Z) * list Z * list Z *
   list (option Z) * list (Z * Z))%type.
Definition run_case (x : case_t) : jv :=
  let '(cat, bs, paths, tags, defs, stags, skeys, regs) := x in
  let c := build cat bs in
  JL [JZ (len c); uids (all c);
      JL (map (fun e => JL [JZ (fst e); uids (snd e)]) (items c));
      JZs (files c); JZs (keys c);
      JL (map (fun p =>
            JL [uids (find_by_path c p);
                JL (map (fun t => uids (find_by_tag c t p)) tags);
                uids (all_sequence_results c p);
                JL (map (fun d => enc_secs skeys
                                    (find_sequence_sections c d p)) defs);
                JL (map (fun t => enc_lookup skeys
                                    (find_sequence_by_tag cat c t p)) stags)])
          paths);
      JL (map (fun e => JL [JZ (fst e); JZs (snd e)]) (tag_table regs))].
"""


def first_diff(a, b, path=()):
    if isinstance(a, list) and isinstance(b, list):
        if len(a) != len(b):
            return {'at': list(path), 'model': a, 'impl': b}
        for i, (x, y) in enumerate(zip(a, b)):
            d = first_diff(x, y, path + (i,))
            if d:
                return d
        return None
    if a != b:
        return {'at': list(path), 'model': a, 'impl': b}
    return None


def run(chk):
    chk.prove(PROPS)
    rng = chk.rng
    chk.coverage['rule'] = (
        "a case is one population of results pushed through the real "
        "SearchResultsCollection.add(): (a) recorded from a real single- or "
        "multi-process FileSearcher.run() over generated files with simple "
        "searches sharing a tag, three sequence definitions (two sharing a "
        "tag), an untagged search and empty files; (b) synthetic "
        "SearchResultMinimal batches (shapes: mixed, one tag on 5 paths, 40 "
        "sections, no parts, unknown source id, colliding section ids, "
        "single path).  Every accessor is called for every known path / tag "
        "/ definition plus an unknown one, None and ''.  Non-trivial = the "
        "population has >= 2 paths and >= 2 tags; distinct = distinct case "
        "term")
    obs = []
    shapes = ['mixed'] * 6 + ['one-tag-5-paths', 'forty-sections',
                              'no-parts', 'unknown-source', 'collision',
                              'single-path']
    nsyn = 120 if chk.quick else 900
    for i in range(nsyn):
        obs.append(synthetic(rng, shapes[i % len(shapes)]))
    nreal = 14 if chk.quick else 70
    for i in range(nreal):
        nfiles = 1 if i % 5 == 0 else rng.randint(2, 6)
        cfg = {'seed': rng.randrange(1 << 30), 'nfiles': nfiles,
               'par': rng.choice([2, 3, 8]), 'force_empty': i % 3 == 1,
               'order': ['search-major', 'file-major', 'mixed'][i % 3]}
        res, err = in_child(lambda cfg=cfg: real_run(cfg, chk.work),
                            os.path.join(chk.work, 'real_run.json'), 40)
        if err:
            chk.broken.append({'obligation': f'real FileSearcher.run() {cfg}'
                               ' completes and its collection can be '
                               'observed', 'why': err})
            if err == 'timeout':
                chk.notes.append("a real run did not finish in 40 s; "
                                 "remaining real runs skipped")
                break
            continue
        obs.append(res)
        chk.coverage['traces_validated_against_impl'] += 1
    for o in [o for o in obs if 'raised' in o]:
        chk.violation('accessor-raised ' + o['raised'].split(':')[0],
                      {'exception': o['raised'], 'trace': o['trace'],
                       'population': o['meta']}, witness=True)
    obs = [o for o in obs if 'raised' not in o]
    cases = [o['case'] for o in obs]
    wants = [o['want'] for o in obs]
    mism, errs = vlib.eval_cases(chk.work, 'c14', '', PREAMBLE, 'run_case',
                                 cases, wants, shard=40)
    for e in errs:
        chk.broken.append({'obligation': 'correspondence cases (coqc)',
                           'why': e})
    chk.coverage['evaluations'] += len(cases)
    seen = set()
    for o in obs:
        m = o['meta']
        chk.dist(m['kind'])
        if m['paths'] >= 2 and m['tags'] >= 2 and o['case'] not in seen:
            chk.coverage['distinct_nontrivial'] += 1
        seen.add(o['case'])
        if m['shared_seq_tag'] and m['seq_results']:
            chk.dist('tag-shared-by-several-sequence-defs')
        if not m['fresh']:
            chk.dist('colliding-section-ids')
        if m['sections'] >= 40:
            chk.dist('>=40-sections')
        if m['paths'] >= 5:
            chk.dist('>=5-paths')
        chk.dist('results-total', m['results'])
        if m['kind'].startswith('real'):
            chk.dist('registration-order:' + m.get('order', '?'))
            chk.sample({k: m[k] for k in ('kind', 'files', 'results', 'paths',
                                          'tags', 'defs', 'sections',
                                          'batches')})
    chk.sample(obs[0]['meta'])
    identity_failed = set()
    for i, o in enumerate(obs):
        for b in o['bad'][:2]:
            identity_failed.add(i)
            chk.violation(b['sig'], {'violated_identity': b,
                                     'population': o['case'],
                                     'meta': o['meta']}, witness=True)
    for i, v in mism:
        if i in identity_failed or i < 0:
            if i < 0:
                chk.broken.append({'obligation': 'correspondence cases',
                                   'why': 'length mismatch'})
            continue
        chk.violation('model-vs-impl ' + obs[i]['meta']['kind'],
                      {'first_difference': first_diff(v, wants[i]),
                       'population': obs[i]['case'],
                       'note': 'the implementation answers satisfy every '
                               'cross-view identity of the property; only '
                               'the model disagrees'},
                      witness=False)
    chk.assumptions += [
        "fresh_sections (a section id is used by one (file, definition) "
        "pair) is uuid4 uniqueness; it is checked on every generated "
        "population and the partition identities are asserted only where it "
        "holds (populations with colliding ids are still compared with the "
        "model)",
        "results are identified by python object identity (uid)"]
