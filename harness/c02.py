"""C02 - parallel search equals per-file sequential search.

T1: Gen/Params.v (RESULTS_QUEUE_SIZE, TRANSIT_MAX, NUM_BUFFERED_RESULTS,
    MAX_QUEUE_RETRIES) and the skeletons of _get_results / _purge_results /
    _run_mp / put_result feed the instantiation theorems of Props/C02.v.
T2: (a) OBSERVABLE - a real multi-file FileSearcher.run() against one
        single-file run() per path, canonicalised per path; every real run in
        its own process group with a hard timeout (child mode of this file).
    (b) STRUCTURAL - the real SearchTask.execute (per-line search, buffer
        flushes, put_result), FileSearcher._get_results /
        _purge_results and SearchResultsCollection.add are driven, in one
        process, against an instrumented bounded queue whose operations are
        scheduling points of a deterministic scheduler.  Every executed
        schedule is also run through the Coq model (Model/Pipeline.v) inside
        Coq and queue / collection / phase / expected count are compared
        after every step.
"""
import hashlib
import json
import os
import queue as pyqueue
import shutil
import signal
import subprocess
import sys
import tempfile
import threading
import time

HERE = os.path.dirname(os.path.abspath(__file__))
if __name__ == '__main__':
    sys.path.insert(0, os.path.join(os.path.dirname(HERE), 'lib'))

import vlib  # noqa: E402

PROPS = ['Props/C02.v', 'Props/E2Emp.v']   # E2Emp: end-to-end multi-file composition

VOLS = [0, 1, 9, 10, 11, 1000]       # result volumes per file ('E' = empty)
WORDS = ['alpha', 'beta', 'gamma', 'delta', 'eps']


# =========================================================================
# (a) OBSERVABLE: content generation, canonicalisation, child process
# =========================================================================
FALSY_LINES = ["n=0 s= typed", "n=0 s=x typed", "n=7 s= typed", "k= v=0",
               "k=ab v=0", "k= v=3", "n=00 s= typed"]


TYPED = {'A': ["n=1 s=a typed", "n=2 s=b typed", "n=3 s=c typed"],
         'B': ["g=1 flt", "g=2.0 flt", "g=3 flt", "g=1.0 flt"]}


def gen_lines(seed, vol, with_seq, falsy=False, distinct=False,
              badutf8=False, open_tail=False, orphan_head=False,
              typed=None, marks=False):
    """ deterministic file content with exactly `vol` results.  Line kinds:
    'N W match' (simple A), 'N W beta match' (simple A and B), filler, if
    with_seq sections 'N begin' / 'N body W' / 'N end', and if falsy lines
    whose captured values are falsy: int 0 through an int-typed field, the
    empty string from a group that matched nothing (defs F and K); if
    distinct every 'match' line captures its own numbered token (so the
    worker stores as many distinct values as it has results: block and batch
    boundaries inside the results store are crossed); if badutf8 some result
    lines carry a byte that is not valid UTF-8 (written through
    surrogateescape), for searchers created with a lenient decode_errors. """
    import random
    rng = random.Random(seed)
    out = []
    n = 0
    if marks:
        # every result of this file comes from a definition that stores no
        # values (store_result_contents=False): only tags reach the store
        for i in range(vol):
            out.append(f"mark {i}")
            if rng.random() < 0.3:
                out.append("filler line without any result")
        n = vol
    while n < vol:
        k = rng.random()
        num = rng.randrange(50)
        w = WORDS[rng.randrange(len(WORDS))]
        if distinct:
            w = f"tok{seed % 997}_{len(out)}"
        if badutf8 and (n == 0 or rng.random() < 0.1):
            w = "caf\udce9" + w[:3]
        if typed and (n == 0 or rng.random() < 0.25):
            # values that compare EQUAL across files but differ in type:
            # int 1 (file kind A, int-typed field) / float 1.0 (kind B)
            out.append(TYPED[typed][rng.randrange(len(TYPED[typed]))])
            n += 1
        elif falsy and (n == 0 or rng.random() < 0.25):
            out.append(FALSY_LINES[rng.randrange(len(FALSY_LINES))])
            n += 1
        elif with_seq and k < 0.08 and vol - n >= 5:
            nb = rng.randrange(0, 4)
            out.append(f"{num} begin")
            for _ in range(nb):
                out.append(f"{rng.randrange(50)} body "
                           f"{WORDS[rng.randrange(len(WORDS))]}")
                if rng.random() < 0.3:
                    out.append("noise inside section")
            if rng.random() < 0.85:
                out.append(f"{num} end")
                n += nb + 2
            else:
                out.append(f"{num} begin")      # restart: section discarded
                out.append(f"{num} end")
                n += 2
        elif k < 0.55:
            out.append(f"{num} {w} match")
            n += 1
        elif k < 0.65 and vol - n >= 2:
            out.append(f"{num} {w} beta match")
            n += 2
        else:
            out.append("filler line without any result")
    if vol == 0:
        out = ["nothing to see here", "really nothing"]
    # lines that yield NO result when the file is searched on its own: body
    # and end lines before the first start (a rotated log), a last section
    # that is never closed (a live log)
    if orphan_head:
        out = ["5 body alpha", "6 body delta", "5 end"] + out
    if open_tail:
        out = out + ["8 begin", "3 body gamma", "4 body eps"]
    return out


def write_files(d, recipe):
    paths = []
    for i, f in enumerate(recipe['files']):
        p = os.path.join(d, f"f{i:03d}.txt")
        if 'alias_of' in f:
            # a second catalog path for the same file: a symlink, or the
            # same path spelled with a doubled separator
            tgt = paths[f['alias_of']]
            if f.get('alias_kind') == 'spelling':
                p = os.path.join(d + '/', os.path.basename(tgt))
                p = d + '//' + os.path.basename(tgt)
            else:
                os.symlink(os.path.basename(tgt), p)
            paths.append(p)
            continue
        with open(p, 'w', encoding='utf-8',
                  errors='surrogateescape') as fh:
            if f['vol'] != 'E':
                lines = gen_lines(f['seed'], f['vol'], f['seq'],
                                  f.get('falsy', False),
                                  f.get('distinct', False),
                                  f.get('badutf8', False),
                                  f.get('open_tail', False),
                                  f.get('orphan_head', False),
                                  f.get('typed'), f.get('marks', False))
                fh.write("\n".join(lines) + "\n")
        paths.append(p)
    return paths


def make_defs():
    from searchkit import SearchDef, SequenceSearchDef, ResultFieldInfo
    return [SearchDef(r'^n=(\d+) s=(\S*) typed', tag='F',
                      field_info=ResultFieldInfo({'n': int, 's': str})),
            SearchDef(r'^k=(\w*) v=(\d+)', tag='K'),
            SearchDef(r'^mark ', tag='M', store_result_contents=False),
            SearchDef(r'^g=(\S+) flt', tag='G',
                      field_info=ResultFieldInfo({'x': float})),
            SearchDef(r'^(\d+) (\S+) .*match$', tag='A'),
            SearchDef(r'^(\d+) (\S+) beta match', tag='B', hint='beta'),
            SequenceSearchDef(start=SearchDef(r'^(\d+) begin'),
                              body=SearchDef(r'^(\d+) body (\S+)'),
                              end=SearchDef(r'^(\d+) end'), tag='S')]


def safe(fn):
    """ a read that raises is recorded as a marker, never propagated """
    try:
        v = fn()
    except Exception as exc:  # noqa
        return {'!raised': type(exc).__name__}
    if v is None or isinstance(v, (int, str, float, bool)):
        return v
    return {'!repr': repr(v)[:80]}


def make_extra():
    """ a search registered on ONE of the files only (recipe `register:
    glob_extra`) """
    from searchkit import SearchDef
    return SearchDef(r'^(\d+) (\S+) ', tag='X')


def canon(results, path):
    """ per path: list of [linenumber, tag, values read by iteration, values
    read with get(part index), values read with get(field name), section
    rank, is-sequence] """
    ranks = {}
    out = []
    for r in results.find_by_path(path):
        sec = r.section_id
        if sec is None:
            rk = -1
        else:
            rk = ranks.setdefault(sec, len(ranks))
        try:
            vals = [safe(lambda v=v: v) for v in r]
        except Exception as exc:  # noqa
            vals = [{'!raised': type(exc).__name__}]
        by_idx = [safe(lambda r=r, p=p: r.get(p[0])) for p in r.data]
        names = getattr(r, 'field_names', None) or []
        by_name = [safe(lambda r=r, nm=nm: r.get(nm)) for nm in names]
        out.append([safe(lambda r=r: r.linenumber), safe(lambda r=r: r.tag),
                    vals, by_idx, by_name, rk,
                    safe(lambda r=r: 0 if r.sequence_id is None else 1)])
    return out


def digest(lst):
    return hashlib.sha256(json.dumps(lst).encode()).hexdigest()[:20]


def describe_exc(exc):
    import traceback
    return {'class': type(exc).__name__, 'text': str(exc)[:300],
            'trace': traceback.format_exc()[-1200:]}


def child_main(recipe_path, out_path):
    """ runs in its own process group: one sequential run per path, then
    one parallel run over all paths; writes per-path digests, the first
    difference and any exception either side raised """
    vlib.impl_path_setup()
    from searchkit import FileSearcher
    with open(recipe_path, encoding='utf-8') as f:
        recipe = json.load(f)
    d = tempfile.mkdtemp(prefix='c02f_', dir=os.path.dirname(out_path))
    out = {'paths': [], 'error': None, 'par_error': None}
    kw = {}
    if recipe.get('decode'):
        kw['decode_errors'] = recipe['decode']
    try:
        paths = write_files(d, recipe)
        t0 = time.time()
        seq = []
        for i, p in enumerate(paths):
            try:
                s1 = FileSearcher(max_parallel_tasks=recipe['m'], **kw)
                for sd in make_defs():
                    s1.add(sd, p)
                if recipe.get('register') == 'glob_extra' and i == 0:
                    s1.add(make_extra(), p)
                r1 = s1.run()
                seq.append((canon(r1, p), None))
            except Exception as exc:  # noqa
                seq.append(([], describe_exc(exc)))
        out['seq_s'] = round(time.time() - t0, 2)
        t0 = time.time()
        par = None
        try:
            s = FileSearcher(max_parallel_tasks=recipe['m'], **kw)
            defs = make_defs()
            if recipe.get('history'):
                # the same searcher and definition objects were first used
                # for an in-process search of the first file alone; then the
                # other files are added and run() is called again
                for sd in defs:
                    s.add(sd, paths[0])
                first = s.run()
                out['history_first_run_results'] = len(first)
                for sd in defs:
                    for p in paths[1:]:
                        s.add(sd, p)
            elif recipe.get('register') == 'glob_extra':
                # every definition is registered on all files by ONE add()
                # of a glob; afterwards one more search is added to the
                # first file only
                for sd in defs:
                    s.add(sd, os.path.join(d, 'f*.txt'))
                s.add(make_extra(), paths[0])
                out['registered_files'] = len(s.files)
            else:
                for sd in defs:
                    for p in paths:
                        s.add(sd, p)
            res = s.run()
            out['par_total'] = len(res)
            out['par_stats_results'] = s.stats['results']
            par = [canon(res, p) for p in paths]
        except Exception as exc:  # noqa
            out['par_error'] = describe_exc(exc)
        out['par_s'] = round(time.time() - t0, 2)
        for i, p in enumerate(paths):
            sq, serr = seq[i]
            pp = par[i] if par is not None else []
            ent = {'i': i, 'n_par': len(pp), 'n_seq': len(sq),
                   'h_par': digest(pp), 'h_seq': digest(sq),
                   'seq_error': serr,
                   'sections': len({x[5] for x in sq if x[5] >= 0}),
                   'falsy_values': sum(1 for x in sq for v in x[3]
                                       if v == 0 or v == ''),
                   'distinct_values': len({json.dumps(v) for x in sq
                                           for v in x[3]}),
                   'float_values': sum(1 for x in sq for v in x[3]
                                       if isinstance(v, float)),
                   'replaced_bytes': sum(
                       1 for x in sq for v in x[3] if isinstance(v, str)
                       and ('\ufffd' in v or '\\xe9' in v
                            or v.startswith('caf'))),
                   'read_errors_par': sum(
                       1 for x in pp for v in x[2] + x[3] + x[4]
                       if isinstance(v, dict)),
                   'read_errors_seq': sum(
                       1 for x in sq for v in x[2] + x[3] + x[4]
                       if isinstance(v, dict))}
            if par is not None and digest(pp) != digest(sq):
                k = 0
                while k < min(len(pp), len(sq)) and \
                        json.dumps(pp[k]) == json.dumps(sq[k]):
                    k += 1
                ent['first_diff'] = {
                    'index': k,
                    'parallel': pp[k:k + 3], 'sequential': sq[k:k + 3]}
            out['paths'].append(ent)
    except BaseException as exc:  # noqa
        out['error'] = describe_exc(exc)
    finally:
        shutil.rmtree(d, ignore_errors=True)
    with open(out_path + '.tmp', 'w', encoding='utf-8') as f:
        json.dump(out, f)
    os.replace(out_path + '.tmp', out_path)


def launch_child(work, idx, recipe):
    rp = os.path.join(work, f"recipe_{idx}.json")
    op = os.path.join(work, f"out_{idx}.json")
    if os.path.exists(op):
        os.unlink(op)
    with open(rp, 'w', encoding='utf-8') as f:
        json.dump(recipe, f)
    log = open(os.path.join(work, f"child_{idx}.log"), 'w')
    env = dict(os.environ, VERIF_REPO=vlib.REPO, PYTHONHASHSEED='0')
    p = subprocess.Popen([sys.executable, os.path.abspath(__file__),
                          '--child', rp, op], stdout=log, stderr=log,
                         stdin=subprocess.DEVNULL, env=env,
                         start_new_session=True)
    return {'proc': p, 'out': op, 'log': log, 'recipe': recipe, 'idx': idx,
            't0': time.time()}


def reap_child(c, timeout):
    """ wait (hard timeout), kill the whole process group, read output """
    left = max(0.1, timeout - (time.time() - c['t0']))
    timed_out = False
    try:
        c['proc'].wait(timeout=left)
    except subprocess.TimeoutExpired:
        timed_out = True
    try:
        os.killpg(c['proc'].pid, signal.SIGKILL)
    except (ProcessLookupError, PermissionError):
        pass
    try:
        c['proc'].wait(timeout=10)
    except subprocess.TimeoutExpired:
        pass
    c['log'].close()
    res = None
    if os.path.exists(c['out']):
        with open(c['out'], encoding='utf-8') as f:
            res = json.load(f)
    return timed_out, res, round(time.time() - c['t0'], 1)


def recipes(chk):
    rng = chk.rng

    def files(vols, seq_p=0.35):
        return [{'vol': v, 'seed': rng.randrange(10 ** 9),
                 'seq': (v != 'E' and v >= 9 and rng.random() < seq_p)}
                for v in vols]

    def rnd(n, pool):
        return [pool[rng.randrange(len(pool))] for _ in range(n)]

    small = ['E', 0, 1, 9, 10, 11]
    out = []
    if chk.quick:
        out.append({'m': 8, 'files': files([10007, 'E'], 0)})
        out.append({'m': 0, 'files': files([9, 11], 1)})
        out.append({'m': 1, 'files': files([1, 10, 'E'], 1)})
        out.append({'m': 2, 'files': files(['E', 0, 1, 9, 10, 11], 1)})
        out.append({'m': 3, 'files': files(rnd(6, small) + [1000, 1000])})
        out.append({'m': 8, 'files': files(rnd(16, small) + [1000])})
        out.append({'m': 16, 'files': files(rnd(40, small))})
        out.append({'m': 8, 'files': files([11, 1000, 9, 10, 1000, 1000],
                                           1)})
        out.append({'m': 2, 'files': files([10001, 10003, 9], 0.5)})
        for m in (0, 1, 2, 3, 8, 16, 8, 3):
            n = rng.randrange(2, 25)
            out.append({'m': m, 'files': files(rnd(n, small + [1000]))})
    else:
        out.append({'m': 8, 'files': files([10007, 'E'], 0)})
        out.append({'m': 8, 'files': files([25013, 10001, 9999, 30011,
                                            10000, 'E', 20000, 1], 0.2)})
        out.append({'m': 16, 'files': files(rnd(200, small))})
        out.append({'m': 3, 'files': files(rnd(120, small + [1000]))})
        for m in (0, 1, 2, 3, 8, 16):
            for _ in range(5):
                n = rng.choice([2, 3, 5, 8, 17, 40, 64])
                out.append({'m': m,
                            'files': files(rnd(n, small + [1000]))})
        for _ in range(6):
            out.append({'m': rng.choice([2, 8, 16]),
                        'files': files(rnd(rng.randrange(2, 10),
                                           [1000, 10001, 9, 'E', 10]))})
    # > 1100 distinct captured values per file (numbered tokens): block and
    # batch boundaries inside the results store / sync() are crossed
    out.insert(1, {'m': 3, 'files': [
        dict(f, distinct=True) for f in files([1600, 1500, 1400, 9], 0)]})
    if not chk.quick:
        out.insert(2, {'m': 8, 'files': [
            dict(f, distinct=True) for f in files([2507, 1001, 1000, 999,
                                                   501, 500, 3011], 0.3)]})
    # every third case (offset 1): lenient decode policy + invalid UTF-8
    pols = ['replace', 'ignore', 'backslashreplace']
    for k, rec in enumerate(out):
        if k % 3 == 1:
            rec['decode'] = pols[(k // 3) % 3]
            elig = [f for f in rec['files']
                    if f['vol'] != 'E' and f['vol'] >= 1]
            for n_, f in enumerate(elig):
                f['badutf8'] = (n_ == 0 or rng.random() < 0.5)
    # every second case: files whose captured values include falsy ones
    # (int 0 from an int-typed field, '' from an empty group)
    for k, rec in enumerate(out):
        if k % 2 == 0:
            elig = [f for f in rec['files']
                    if f['vol'] != 'E' and f['vol'] >= 1]
            for n_, f in enumerate(elig):
                f['falsy'] = (n_ == 0 or rng.random() < 0.7)
    # searcher history: in-process run of the first file (which ends inside
    # an open section), then the remaining files (which begin with body/end
    # lines) are added and the searcher runs again, now with workers
    def hist(m, vols):
        fs = files(vols, 1)
        fs[0]['seq'] = True
        fs[0]['open_tail'] = True
        for f in fs[1:]:
            if f['vol'] != 'E':
                f['orphan_head'] = True
        return {'m': m, 'history': True, 'files': fs}
    out.append(hist(2, [11, 9, 10, 'E']))
    out.append(hist(8, [1000] + rnd(5, small + [1000])))
    if not chk.quick:
        for m in (0, 3, 16):
            out.append(hist(m, [rng.choice([9, 11, 1000])]
                            + rnd(rng.randrange(1, 12), small + [1000])))
    # (the cases below draw from their own generator, so that what follows
    # them sees the same chk.rng stream whether or not they exist)
    import random as _random
    rng0 = rng
    rng = _random.Random(chk.seed * 1000003 + 4)
    # one worker (max_parallel_tasks 0 / 1): every file is searched by the
    # same process; files alternate between int-typed and float-typed
    # captures of the same numbers (1 == 1.0)
    def typed(m, vols):
        fs = files(vols, 0.3)
        k = 0
        for f in fs:
            if f['vol'] != 'E' and f['vol'] >= 1:
                f['typed'] = 'AB'[k % 2]
                k += 1
        return {'m': m, 'files': fs}
    out.append(typed(1, [9, 10, 'E', 11, 1]))
    out.append(typed(0, [10, 9, 1000, 11]))
    for rec in out:
        if rec['m'] in (0, 1) and not rec.get('history'):
            k = 1
            for f in rec['files']:
                if f['vol'] != 'E' and f['vol'] >= 1 and 'typed' not in f:
                    f['typed'] = 'AB'[k % 2]
                    k += 1
    # files whose only results store no values (existence-only searches)
    mk = files([9, 11, 'E', 10, 1000], 0.5)
    mk[0]['marks'] = True
    mk[3]['marks'] = True
    out.append({'m': 3, 'files': mk})
    # two catalog paths for one file: a symlink inside the directory, the
    # same path with a doubled separator
    al = files([10, 11, 'E', 9], 0.5)
    al.append({'vol': al[0]['vol'], 'seed': 0, 'seq': False, 'alias_of': 0})
    al.append({'vol': al[1]['vol'], 'seed': 0, 'seq': False, 'alias_of': 1,
               'alias_kind': 'spelling'})
    out.append({'m': 2, 'files': al})
    for k, rec in enumerate(out[:-1]):
        if k % 4 == 3 and not rec.get('history'):
            tg = [i for i, f in enumerate(rec['files'])
                  if f['vol'] != 'E' and 'alias_of' not in f]
            if tg:
                t0 = tg[rng.randrange(len(tg))]
                rec['files'].append({'vol': rec['files'][t0]['vol'],
                                     'seed': 0, 'seq': False,
                                     'alias_of': t0})
    # registration history (fixed, independent of the random stream): all
    # definitions added to all files by one glob add(), then one search added
    # to the first file only
    out.append({'m': 3, 'register': 'glob_extra', 'files': [
        {'vol': 9, 'seed': 101, 'seq': True},
        {'vol': 10, 'seed': 102, 'seq': False},
        {'vol': 11, 'seed': 103, 'seq': True},
        {'vol': 'E', 'seed': 104, 'seq': False},
        {'vol': 1000, 'seed': 105, 'seq': False}]})
    rng = rng0
    # strict decoding (the default) and a file with invalid UTF-8: the
    # multi-file run must fail like the search of that file alone does
    bad = files([10, 9, 11], 0)
    bad[1]['badutf8'] = True
    out.append({'m': 3, 'files': bad})
    return out


def observable(chk):
    work = os.path.join(chk.work, 'obs')
    shutil.rmtree(work, ignore_errors=True)
    os.makedirs(work)
    rs = recipes(chk)
    timeout = 90 if chk.quick else 600
    pending = list(enumerate(rs))
    running = []
    done = []
    maxpar = 3
    ntimeouts = 0
    while pending or running:
        while pending and len(running) < maxpar and ntimeouts < 1:
            i, r = pending.pop(0)
            running.append(launch_child(work, i, r))
        if not running:
            # a run already hung: do not spend the remaining budget on
            # more of them (each would cost the full timeout)
            chk.dist('obs_runs_skipped_after_a_timeout', len(pending))
            break
        c = running.pop(0)
        out = reap_child(c, timeout)
        if out[0]:
            ntimeouts += 1
        done.append((c, out))
    nontrivial = 0
    for c, (timed_out, res, wall) in done:
        r = c['recipe']
        vols = [f['vol'] for f in r['files']]
        shape = (f"files={len(vols)} m={r['m']} "
                 f"max_vol={max([v for v in vols if v != 'E'] or [0])}"
                 + (f" decode={r['decode']}" if r.get('decode') else '')
                 + (" history" if r.get('history') else '')
                 + (f" register={r['register']}" if r.get('register')
                    else ''))
        if r.get('history'):
            chk.dist('obs_runs_with_searcher_history')
        if r.get('register'):
            chk.dist('obs_runs_registered_by_glob_plus_extra_search')
        chk.coverage['evaluations'] += 1
        chk.coverage['traces_validated_against_impl'] += 1
        chk.dist(f"obs_m={r['m']}")
        chk.dist('obs_files', len(vols))
        chk.dist('obs_empty_files', sum(1 for v in vols if v == 'E'))
        if res is None or res.get('error'):
            why = 'timeout' if timed_out else 'child failed'
            chk.violation(
                f"parallel-run-{'timeout' if timed_out else 'error'} "
                f"{shape}",
                {'recipe': r, 'why': why, 'wall_s': wall,
                 'error': (res or {}).get('error'),
                 'note': 'the parallel run did not produce a result to '
                         'compare (hang or exception)'}, witness=False)
            continue
        total = sum(e['n_seq'] for e in res['paths'])
        chk.dist('obs_results_compared', total)
        if r.get('decode'):
            chk.dist('obs_runs_with_lenient_decode')
            chk.dist('obs_results_from_invalid_utf8_lines',
                     sum(e.get('replaced_bytes', 0) for e in res['paths']))
        mx = max([e.get('distinct_values', 0) for e in res['paths']] or [0])
        if mx > 1100 and sum(1 for e in res['paths']
                             if e.get('distinct_values', 0) > 1100) >= 2:
            chk.dist('obs_runs_with_over_1100_distinct_values_per_file')
        seq_errs = [e for e in res['paths'] if e.get('seq_error')]
        if res.get('par_error'):
            pe = res['par_error']
            same = [e for e in seq_errs
                    if e['seq_error']['class'] == pe['class']]
            if same:
                chk.dist('obs_runs_where_both_sides_raise')
                nontrivial += 1
            else:
                chk.violation(
                    f"parallel-only-exception {pe['class']} {shape}",
                    {'recipe': r, 'parallel_exception': pe,
                     'sequential_exceptions': [e['seq_error']['class']
                                               for e in seq_errs],
                     'sequential_results_per_path': [e['n_seq'] for e in
                                                     res['paths']],
                     'note': 'run() over all files raised, while every '
                             'file searched alone returned its results',
                     'how_to_reproduce': 'write_files(recipe) + make_defs()'
                                         ' in harness/c02.py; FileSearcher('
                                         'max_parallel_tasks=m, '
                                         'decode_errors=recipe.decode)'},
                    witness=True)
            continue
        if seq_errs:
            # the multi-file run returned normally although one of its files
            # cannot be searched: what it returned for that path (and the
            # silence about it) is not what searching the file alone gives
            e0 = seq_errs[0]
            chk.violation(
                f"parallel-returns-although-file-fails-alone "
                f"{e0['seq_error']['class']} {shape}",
                {'recipe': r, 'path_index': e0['i'],
                 'sequential_exception': e0['seq_error'],
                 'parallel_results_for_that_path': e0['n_par'],
                 'parallel_total': res.get('par_total'),
                 'note': 'run() over all files returned without raising; '
                         'the same file searched alone raises'},
                witness=True)
            continue
        if any(e['n_seq'] > 10000 for e in res['paths']):
            chk.dist('obs_file_crossing_NUM_BUFFERED_RESULTS')
        if any(e['sections'] for e in res['paths']):
            chk.dist('obs_runs_with_sequence_sections')
        if any('alias_of' in f for f in r['files']):
            chk.dist('obs_runs_with_aliased_paths')
        if any(f.get('marks') for f in r['files']):
            chk.dist('obs_runs_with_value_less_results_only_files')
        if r['m'] in (0, 1) and \
                sum(1 for e in res['paths'] if e.get('float_values')) and \
                any(f.get('typed') == 'A' for f in r['files']):
            chk.dist('obs_one_worker_runs_with_equal_int_and_float_values')
        if any(e.get('falsy_values') for e in res['paths']):
            chk.dist('obs_runs_with_falsy_values')
            chk.dist('obs_falsy_values_compared',
                     sum(e.get('falsy_values', 0) for e in res['paths']))
        if total > 0 and len(vols) >= 2:
            nontrivial += 1
        chk.sample({'observable_run': shape, 'results': total,
                    'par_s': res.get('par_s'), 'seq_s': res.get('seq_s')})
        bad = [e for e in res['paths']
               if e['h_par'] != e['h_seq'] or e['n_par'] != e['n_seq']]
        for e in bad[:1]:
            kind = ('lost' if e['n_par'] < e['n_seq'] else
                    'extra' if e['n_par'] > e['n_seq'] else
                    'value-read-back-fails'
                    if e.get('read_errors_par', 0) >
                    e.get('read_errors_seq', 0) else 'differs')
            chk.violation(
                f"parallel-differs-from-sequential {kind} {shape}",
                {'recipe': r, 'path_index': e['i'],
                 'file': r['files'][e['i']],
                 'n_parallel': e['n_par'], 'n_sequential': e['n_seq'],
                 'read_errors_parallel': e.get('read_errors_par'),
                 'read_errors_sequential': e.get('read_errors_seq'),
                 'entry_layout': '[line, tag, values by iteration, by '
                                 'get(index), by get(name), section rank, '
                                 'is-sequence]; {"!raised": X} = the read '
                                 'raised X',
                 'first_difference': e.get('first_diff'),
                 'paths_differing': [x['i'] for x in bad],
                 'how_to_reproduce': 'write_files(recipe) + make_defs() in '
                                     'harness/c02.py; FileSearcher('
                                     'max_parallel_tasks=m).run() vs one '
                                     'run per file'}, witness=True)
        if not bad and res['par_total'] != total:
            chk.violation(
                f"parallel-total-differs {shape}",
                {'recipe': r, 'len_parallel_collection': res['par_total'],
                 'sum_sequential': total}, witness=True)
    chk.coverage['distinct_nontrivial'] += nontrivial
    return len(done)


# =========================================================================
# (b) STRUCTURAL: real code objects on an instrumented queue under a
#     deterministic scheduler
# =========================================================================
class Killed(BaseException):
    pass


class HarnessError(Exception):
    pass


class Actor:
    def __init__(self, name):
        self.name = name
        self.go = threading.Lock()
        self.go.acquire()
        self.pending = None        # (op, payload) while parked
        self.decision = None
        self.done = False
        self.error = None
        self.thread = None
        self.progress = 0          # enqueues + give-ups (producers)


class Sched:
    """ exactly one actor thread runs at a time; every queue operation is a
    scheduling point at which the thread parks until granted a step """
    def __init__(self):
        self.arrived = threading.Lock()
        self.arrived.acquire()
        self.by_ident = {}
        self.actors = []
        self.killed = False

    def spawn(self, actor, fn, *args):
        def body():
            self.by_ident[threading.get_ident()] = actor
            try:
                fn(*args)
            except Killed:
                pass
            except BaseException as exc:  # noqa
                import traceback
                actor.error = (f"{type(exc).__name__}: {exc} | "
                               + traceback.format_exc()[-600:])
            finally:
                actor.done = True
                actor.pending = None
                try:
                    self.arrived.release()
                except RuntimeError:
                    pass
        self.actors.append(actor)
        actor.thread = threading.Thread(target=body, daemon=True)
        actor.thread.start()
        self.wait()

    def wait(self):
        if not self.arrived.acquire(timeout=30):
            raise HarnessError("an actor did not reach a scheduling point")

    def point(self, op, payload=None):
        if self.killed:
            # the run is being torn down: `finally` blocks of the code under
            # test (execute() flushes there) must not park again
            raise Killed()
        actor = self.by_ident[threading.get_ident()]
        actor.pending = (op, payload)
        self.arrived.release()
        actor.go.acquire()
        if self.killed:
            raise Killed()
        d = actor.decision
        actor.decision = None
        return d

    def grant(self, actor, decision=None):
        if actor.done or actor.pending is None:
            raise HarnessError(f"grant to {actor.name} which is not parked")
        actor.decision = decision
        actor.go.release()
        self.wait()

    def kill_all(self):
        self.killed = True
        for a in self.actors:
            if not a.done and a.pending is not None:
                try:
                    a.go.release()
                except RuntimeError:
                    pass
        for a in self.actors:
            if a.thread is not None:
                a.thread.join(timeout=5)


class IQueue:
    """ in-process bounded FIFO with the interface the code uses
    (put_nowait, put(timeout), get([timeout]), empty) """
    def __init__(self, sched, maxsize):
        self.sched = sched
        self.maxsize = maxsize
        self.items = []

    def _actor(self):
        return self.sched.by_ident[threading.get_ident()]

    def full(self):
        return len(self.items) >= self.maxsize

    def put_nowait(self, item):
        self.sched.point('put_nowait', item)
        if self.full():
            raise pyqueue.Full()
        self.items.append(item)
        self._actor().progress += 1

    def put(self, item, block=True, timeout=None):
        while True:
            d = self.sched.point('put', item)
            if d == 'timeout':
                raise pyqueue.Full()
            if not self.full():
                self.items.append(item)
                self._actor().progress += 1
                return
            # full: the blocking put keeps waiting (stutter)

    def get(self, block=True, timeout=None):
        while True:
            self.sched.point('get', timeout)
            if self.items:
                return self.items.pop(0)
            if timeout is not None:
                raise pyqueue.Empty()
            # empty: a get without timeout keeps waiting (stutter)

    def empty(self):
        d = self.sched.point('empty')
        if d == 'spurious':
            return True
        return not self.items


class FakeTime:
    """ stands in for the `time` module inside searchkit.task/search: nothing
    really sleeps; a sleep has no effect on shared state (model: stutter) """
    def __init__(self):
        self.sleeps = 0

    def sleep(self, _secs):
        self.sleeps += 1

    def __getattr__(self, name):
        return getattr(time, name)


HMASK = (1 << 61) - 1


def hfold(xs, h=0):
    for x in xs:
        h = (h * 1000003 + x + 7) & HMASK
    return h


class Fixture:
    """ files + catalog shared by all runs of one structural session """
    def __init__(self, work, nmax):
        import searchkit.search as S
        from searchkit import SearchDef
        self.dir = tempfile.mkdtemp(prefix='c02s_', dir=work)
        self.sd = SearchDef(r'^(\d+) x', tag='T')
        self.catalog = S.SearchCatalog()
        self.paths = []
        for i in range(nmax):
            p = os.path.join(self.dir, f"s{i}.txt")
            with open(p, 'w', encoding='utf-8') as f:
                f.write("1 x\n")
            self.catalog.register(self.sd, p)
            self.paths.append(p)
        self.infos = list(self.catalog)
        self.src_of = {e['source_id']: i for i, e in enumerate(self.infos)}
        assert [e['path'] for e in self.infos] == self.paths
        self.cmgr = S.SearchConstraintsManager(self.catalog)
        self.written = {}

    def set_count(self, i, count):
        """ file i holds `count` result lines `<ln> x`; count 0 is a
        zero-length file (execute() returns without searching it) """
        if self.written.get(i) != count:
            with open(self.paths[i], 'w', encoding='utf-8') as f:
                f.write("".join(f"{ln} x\n" for ln in range(1, count + 1)))
            self.written[i] = count

    def close(self):
        shutil.rmtree(self.dir, ignore_errors=True)


class World:
    """ one run: n producer threads (real SearchTask.execute: search, flush,
    put_result on real SearchTask objects), the real _get_results collector thread, the
    manager's steps, the real _purge_results """
    def __init__(self, fx, cfg):
        import searchkit.search as S
        import searchkit.task as T
        from searchkit.results_store import ResultStoreSimple
        self.S, self.T = S, T
        self.fx = fx
        self.cfg = cfg
        self.n = len(cfg['counts'])
        T.QueueTransitBuffer.MAX = cfg['MAX']
        T.NUM_BUFFERED_RESULTS = cfg['NBUF']
        T.RESULTS_QUEUE_SIZE = cfg['Q']
        self.sched = Sched()
        self.q = IQueue(self.sched, cfg['Q'])
        self.store = ResultStoreSimple()
        self.coll = S.SearchResultsCollection(fx.catalog, self.store)
        self.mgr_stats = T.SearchTaskStats()
        self.tasks = []
        self.prod = []
        self.finished = [False] * self.n
        self.event_set = False
        self.phase = 0
        self.purger = None
        self.labels = []          # model actions, Coq syntax
        self.moves = []           # harness moves
        self.digests = []
        self.chain = 0
        self.spurious_used = False
        self.drops = 0
        self.problems = []        # direct property violations (witnesses)
        rm = T.SearchTaskResultsManager(self.store, results_queue=self.q)
        for i in range(self.n):
            fx.set_count(i, cfg['counts'][i])
            task = T.SearchTask(fx.infos[i], constraints_manager=fx.cmgr,
                                results_manager=rm)
            self.tasks.append(task)
        for i in range(self.n):
            a = Actor(f"P{i}")
            self.prod.append(a)
            self.sched.spawn(a, self._producer, self.tasks[i],
                             cfg['counts'][i])
        self.tm = S.ThreadManager('results', S.FileSearcher._get_results,
                                  [self.coll, self.q])
        # run the thread's target under the scheduler instead of
        # tm.thread.start(): same function object, same arguments
        self.collector = Actor('C')
        self.sched.spawn(self.collector, S.FileSearcher._get_results,
                         self.tm.event, self.coll, self.q)

    def _producer(self, task, count):
        # what a pool worker runs: the task's execute() on its file (whose
        # `count` lines each give one result), i.e. the per-line search, the
        # threshold flushes, the final flush and put_result - whatever
        # private helpers they are split into
        task.execute()

    # ---- observation
    def queue_view(self):
        return [[(self.fx.src_of[r.source_id], r.linenumber) for r in b]
                for b in self.q.items]

    def coll_view(self):
        out = []
        for i in range(self.n):
            out.append([(self.fx.src_of[r.source_id], r.linenumber)
                        for r in self.coll.find_by_path(self.fx.paths[i])])
        return out

    def expected(self):
        return self.mgr_stats['results']

    def digest(self):
        """ chained over the run: hash of all states seen so far """
        enc = [self.phase, self.expected(), len(self.q.items)]
        for b in self.queue_view():
            enc.append(len(b))
            for (s, ln) in b:
                enc += [s, ln]
        for lst in self.coll_view():
            enc.append(len(lst))
            enc += [ln for (_, ln) in lst]
        self.chain = hfold(enc, self.chain)
        return self.chain

    def key(self):
        """ exact state of the real system (for the state-memoised DFS) """
        def act(a):
            if a is None:
                return None
            op = a.pending[0] if a.pending else None
            tmo = (a.pending[1] is not None) if op == 'get' else None
            return (a.done, op, tmo, a.progress)
        return (tuple(act(a) for a in self.prod), act(self.collector),
                act(self.purger), tuple(self.finished), self.event_set,
                self.expected(),
                tuple(tuple(b) for b in self.queue_view()),
                tuple(tuple(x) for x in self.coll_view()))

    # ---- moves
    def useful(self, spurious=False, timeouts=False):
        mv = []
        full = self.q.full()
        for i, a in enumerate(self.prod):
            if a.done:
                if not self.finished[i] and not a.error:
                    mv.append(('F', i))
                continue
            op = a.pending[0]
            if op == 'put_nowait' or (op == 'put' and not full):
                mv.append(('P', i))
            elif op == 'put' and full and timeouts:
                mv.append(('TO', i))
        if all(self.finished) and not self.event_set:
            mv.append(('SE',))
        c = self.collector
        if not c.done:
            op = c.pending[0]
            if op == 'get' or self.q.items or self.event_set:
                mv.append(('C',))
            if op == 'empty' and self.q.items and self.event_set \
                    and spurious:
                mv.append(('CS',))
        g = self.purger
        if g is not None and not g.done:
            mv.append(('G',))
            if g.pending[0] == 'empty' and self.q.items and spurious:
                mv.append(('GS',))
        return mv

    def all_moves(self):
        """ every legal move, including pure stutters """
        mv = []
        for i, a in enumerate(self.prod):
            if a.done:
                if not self.finished[i] and not a.error:
                    mv.append(('F', i))
            else:
                mv.append(('P', i))
        if all(self.finished) and not self.event_set:
            mv.append(('SE',))
        if not self.collector.done:
            mv.append(('C',))
        if self.purger is not None and not self.purger.done:
            mv.append(('G',))
        return mv

    def _start_purge(self):
        # ThreadManager.stop() returned (event set, thread joined); _run_mp
        # enters _purge_results(results, queue, self.stats['results'])
        self.phase = 1
        self.purger = Actor('G')
        self.sched.spawn(self.purger, self.S.FileSearcher._purge_results,
                         self.coll, self.q, self.expected())

    def do(self, mv):
        """ execute one harness move on the real objects; the model actions
        it corresponds to are derived from what the real code DID """
        kind = mv[0]
        label = ['T']
        if kind == 'P':
            a = self.prod[mv[1]]
            self.sched.grant(a)
            label = [f"P {mv[1]}"]
        elif kind == 'TO':
            a = self.prod[mv[1]]
            b0 = a.pending[1]
            self.sched.grant(a, 'timeout')
            if a.done or a.pending[1] is not b0:
                label = [f"D {mv[1]}"]       # the batch was given up
                self.drops += 1
                a.progress += 1
        elif kind == 'F':
            i = mv[1]
            # _run_mp: self.stats.update(future.result())
            self.mgr_stats.update(self.tasks[i].stats)
            self.finished[i] = True
            label = [f"F {i}"]
        elif kind == 'SE':
            self.tm.event.set()             # ThreadManager.stop(), part 1
            self.event_set = True
        elif kind in ('C', 'CS'):
            c = self.collector
            op = c.pending[0]
            if kind == 'CS':
                self.spurious_used = True
            self.sched.grant(c, 'spurious' if kind == 'CS' else None)
            label = ['C'] if op == 'get' else []
            if c.done:
                label.append('SP')
                self._start_purge()
            label = label or ['T']
        elif kind in ('G', 'GS'):
            g = self.purger
            op = g.pending[0]
            had = bool(self.q.items)
            if kind == 'GS':
                self.spurious_used = True
            self.sched.grant(g, 'spurious' if kind == 'GS' else None)
            label = ['PS'] if (op == 'get' and had) else []
            if g.done:
                label.append('R')
                self.phase = 2
            label = label or ['T']
        else:
            raise HarnessError(f"unknown move {mv}")
        self.moves.append(list(mv))
        self.labels.append(label)
        self.digests.append(self.digest())
        self.check_now()
        return label

    # ---- the property, asserted directly on the real objects
    def check_now(self):
        for a in self.prod + [self.collector, self.purger]:
            if a is not None and a.error and not any(
                    p['kind'] == 'exception' for p in self.problems):
                self.problems.append({'kind': 'exception', 'actor': a.name,
                                      'error': a.error, 'witness': False})
        cv = self.coll_view()
        for i, lst in enumerate(cv):
            if any(s != i for (s, _) in lst):
                self._problem('misfiled', i, lst)
            want = list(range(1, self.cfg['counts'][i] + 1))
            got = [ln for (_, ln) in lst]
            if self.drops == 0 and got != want[:len(got)]:
                self._problem('duplicated-reordered-or-foreign', i, lst)
            if self.phase == 2 and got != want:
                self._problem('returned-incomplete', i, lst)
        if self.phase == 2:
            if self.q.items or not all(a.done for a in self.prod):
                self._problem('returned-early', -1, self.queue_view())

    def _problem(self, kind, path, data):
        if any(p['kind'] == kind for p in self.problems):
            return
        self.problems.append({'kind': kind, 'path': path,
                              'data': [list(x) for x in data][:30],
                              'step': len(self.moves),
                              'witness': not self.spurious_used})

    def close(self):
        self.sched.kill_all()

    # ---- Coq case
    def coq_case(self):
        c = self.cfg
        return ("(%d, %d, %d, [%s], [%s])" % (
            c['Q'], c['MAX'], c['NBUF'],
            "; ".join(str(x) for x in c['counts']),
            "; ".join("[" + "; ".join(g) + "]" for g in self.labels)))

    def final_view(self):
        return [self.phase, self.expected(),
                [[[s, ln] for (s, ln) in b] for b in self.queue_view()],
                [[ln for (_, ln) in lst] for lst in self.coll_view()]]


COQ_PRE = r"""From SK Require Import Model.Pipeline.
Definition P (t : Z) := Put (Z.to_nat t).
Definition D (t : Z) := Drop (Z.to_nat t).
Definition F (t : Z) := Finish (Z.to_nat t).
Definition C := Collect.
Definition SP := StartPurge.
Definition PS := PurgeStep.
Definition R := Return.
Definition T := Tick.
Definition hmask := 2305843009213693951.
Definition hstep (h x : Z) : Z := Z.land (h * 1000003 + x + 7) hmask.
Definition phase_code (p : phase) : Z :=
  match p with Collecting => 0 | Purging => 1 | Returned => 2 end.
Definition enc_batch (b : batch) : list Z :=
  lenZ b :: flat_map (fun r => [Z.of_nat (src r); snd r]) b.
Definition enc_state (n : nat) (s : gstate) : list Z :=
  [phase_code (ph s); expected s; lenZ (queue s)]
  ++ flat_map enc_batch (queue s)
  ++ flat_map (fun p => let l := find_by_path p (collected s) in
                        lenZ l :: map snd l) (seq 0 n).
Fixpoint trace (Q : Z) (n : nat) (sched : list (list action)) (h : Z)
         (s : gstate) : list Z * gstate :=
  match sched with
  | [] => ([], s)
  | g :: r => let s' := run Q g s in
              let h' := fold_left hstep (enc_state n s') h in
              let '(ds, sf) := trace Q n r h' s' in (h' :: ds, sf)
  end.
Definition run_full (c : Z * Z * Z * list Z * list (list action))
  : jv * list Z :=
  let '(Q, MAX, NBUF, counts, sched) := c in
  let R := map (fun k => map Z.of_nat (seq 1 (Z.to_nat k))) counts in
  let n := length counts in
  let '(ds, sf) := trace Q n sched 0
                         (init_flat (Z.to_nat MAX) (Z.to_nat NBUF) R) in
  (JL [JZ (phase_code (ph sf)); JZ (expected sf);
       JL (map jv_batch (queue sf)); jv_coll n (collected sf)], ds).
(* final state + hash chained over the states after every step *)
Definition run_case (c : Z * Z * Z * list Z * list (list action)) : jv :=
  let '(f, ds) := run_full c in JL [f; JZ (last ds 0); JZ (lenZ ds)].
(* per-step chain values, to locate the first differing step *)
Definition run_steps (c : Z * Z * Z * list Z * list (list action)) : jv :=
  JZs (snd (run_full c)).
"""


class Structural:
    def __init__(self, chk):
        self.chk = chk
        self.runs = []        # (cfg, moves, labels, digests, final, drops)
        self.keys = set()
        self.t0 = time.time()

    def record(self, w, kind):
        self.runs.append({'cfg': w.cfg, 'moves': w.moves, 'case':
                          w.coq_case(), 'labels': list(w.labels),
                          'want': [w.final_view(), list(w.digests)],
                          'drops': w.drops, 'kind': kind,
                          'spurious': w.spurious_used,
                          'returned': w.phase == 2})
        for p in w.problems:
            sig = f"structural {p['kind']} {kind}"
            self.chk.violation(
                sig, {'config': w.cfg, 'schedule_moves': w.moves,
                      'schedule_model_actions': w.labels, 'problem': p,
                      'legend': 'P t: producer t step; F t: manager merges '
                                'stats of t; SE: stop event set; C: collector '
                                'step; CS/GS: collector/purge step with a '
                                'spurious empty(); G: purge step; TO t: '
                                'blocking put of t times out'},
                witness=bool(p.get('witness')))

    def exhaustive(self, fx, cfg, spurious, budget_s):
        """ state-memoised DFS over all useful moves: every transition of
        the reachable state graph of the REAL code objects is executed at
        least once (the state key is the complete state of the real
        system, so this covers every interleaving) """
        seen = set()
        stack = [[]]
        nruns = 0
        complete = True
        t_end = time.time() + budget_s
        while stack:
            if time.time() > t_end or len(self.chk.violations) >= 12:
                complete = False
                break
            prefix = stack.pop()
            w = World(fx, cfg)
            try:
                for mv in prefix:
                    w.do(mv)
                k = w.key()
                if k in seen and prefix:
                    # the edge itself has now been executed and validated
                    self.record(w, 'dfs')
                    nruns += 1
                    continue
                while True:
                    k = w.key()
                    if k in seen:
                        break
                    seen.add(k)
                    mvs = w.useful(spurious=spurious)
                    if not mvs:
                        break
                    for other in mvs[1:]:
                        stack.append(list(w.moves) + [other])
                    w.do(mvs[0])
                self.record(w, 'dfs')
                nruns += 1
            finally:
                w.close()
        return nruns, len(seen), complete

    def random_walk(self, fx, cfg, rng, spurious, stutter_p, max_steps):
        w = World(fx, cfg)
        try:
            for _ in range(max_steps):
                if w.phase == 2:
                    break
                if rng.random() < stutter_p:
                    mvs = w.all_moves()
                else:
                    mvs = w.useful(spurious=spurious)
                if not mvs:
                    break
                w.do(mvs[rng.randrange(len(mvs))])
            self.record(w, 'random')
        finally:
            w.close()
        return w

    def drop_scenario(self, fx, cfg, rng, victim):
        """ the collector is starved while producer `victim` waits on a full
        queue until put_result gives the batch up; afterwards everything is
        scheduled fairly: the purge must never exit """
        w = World(fx, cfg)
        try:
            guard = 0
            while w.drops == 0 and guard < 400:
                guard += 1
                a = w.prod[victim]
                if a.done:
                    break
                if a.pending[0] == 'put' and w.q.full():
                    w.do(('TO', victim))
                    continue
                mvs = [m for m in w.useful() if m[0] == 'P']
                if not mvs:
                    break
                # fill the queue with the others first
                pref = [m for m in mvs if m[1] != victim] or mvs
                w.do(pref[rng.randrange(len(pref))])
            for _ in range(300):
                mvs = w.useful(timeouts=False)
                if not mvs or w.phase == 2:
                    break
                w.do(mvs[rng.randrange(len(mvs))])
            self.record(w, 'drop')
        finally:
            w.close()
        return w


def structural(chk):
    import searchkit.search as S
    import searchkit.task as T
    rng = chk.rng
    saved = (T.QueueTransitBuffer.MAX, T.NUM_BUFFERED_RESULTS,
             T.RESULTS_QUEUE_SIZE, T.RESULTS_QUEUE_TIMEOUT,
             S.RESULTS_QUEUE_TIMEOUT, T.time, S.time)
    ft = FakeTime()
    T.time = ft
    S.time = ft
    T.RESULTS_QUEUE_TIMEOUT = 1
    S.RESULTS_QUEUE_TIMEOUT = 1
    st = Structural(chk)
    fx = Fixture(chk.work, 4)
    try:
        ex_cfgs = [
            ({'Q': 1, 'MAX': 2, 'NBUF': 4, 'counts': [5, 3]}, False),
            ({'Q': 2, 'MAX': 2, 'NBUF': 4, 'counts': [5, 3]}, False),
            ({'Q': 1, 'MAX': 1, 'NBUF': 2, 'counts': [3, 2]}, False),
            ({'Q': 2, 'MAX': 3, 'NBUF': 3, 'counts': [7, 0]}, False),
            ({'Q': 1, 'MAX': 2, 'NBUF': 4, 'counts': [5, 5]}, False),
            ({'Q': 2, 'MAX': 2, 'NBUF': 4, 'counts': [5, 5]}, False),
            ({'Q': 2, 'MAX': 2, 'NBUF': 2, 'counts': [2, 3]}, True),
            ({'Q': 1, 'MAX': 2, 'NBUF': 2, 'counts': [3, 1]}, True),
        ]
        if not chk.quick:
            ex_cfgs += [
                ({'Q': 2, 'MAX': 1, 'NBUF': 3, 'counts': [3, 3]}, False),
                ({'Q': 1, 'MAX': 2, 'NBUF': 3, 'counts': [6, 4]}, False),
                ({'Q': 2, 'MAX': 2, 'NBUF': 3, 'counts': [5, 4]}, True),
                ({'Q': 1, 'MAX': 2, 'NBUF': 4, 'counts': [3, 3, 2]}, False),
                ({'Q': 2, 'MAX': 2, 'NBUF': 4, 'counts': [3, 2, 3]}, False),
                ({'Q': 2, 'MAX': 1, 'NBUF': 2, 'counts': [2, 1, 1]}, True),
            ]
        budget = 40 if chk.quick else 200
        for cfg, spur in ex_cfgs:
            nruns, nstates, complete = st.exhaustive(fx, cfg, spur, budget)
            chk.dist('dfs_runs', nruns)
            chk.dist('dfs_states', nstates)
            chk.dist('dfs_configs_complete' if complete
                     else 'dfs_configs_truncated')
            chk.sample({'dfs_config': cfg, 'spurious_empty': spur,
                        'runs': nruns, 'states': nstates,
                        'complete': complete})
        nrand = 300 if chk.quick else 3000
        for k in range(nrand):
            n = rng.choice([3, 3, 4, 4, 2])
            cfg = {'Q': rng.choice([1, 1, 2, 3]),
                   'MAX': rng.choice([1, 2, 3]),
                   'NBUF': rng.choice([2, 3, 4, 5]),
                   'counts': [rng.choice([0, 1, 2, 3, 5, 7, 9, 12])
                              for _ in range(n)]}
            if len(chk.violations) >= 12:
                break
            st.random_walk(fx, cfg, rng, spurious=(k % 3 == 0),
                           stutter_p=0.15, max_steps=600)
        for k in range(4 if chk.quick else 20):
            n = rng.choice([2, 3])
            cfg = {'Q': 1, 'MAX': rng.choice([1, 2]),
                   'NBUF': rng.choice([2, 3]),
                   'counts': [rng.choice([2, 3, 5]) for _ in range(n)]}
            st.drop_scenario(fx, cfg, rng, rng.randrange(n))
    finally:
        fx.close()
        (T.QueueTransitBuffer.MAX, T.NUM_BUFFERED_RESULTS,
         T.RESULTS_QUEUE_SIZE, T.RESULTS_QUEUE_TIMEOUT,
         S.RESULTS_QUEUE_TIMEOUT, T.time, S.time) = saved
    chk.dist('structural_sleeps_elided', ft.sleeps)
    return st


def compare_with_model(chk, st):
    runs = st.runs
    cases = [r['case'] for r in runs]
    wants = [[r['want'][0], (r['want'][1] or [0])[-1], len(r['want'][1])]
             for r in runs]
    pre = COQ_PRE
    mism, errs = vlib.eval_cases(chk.work, 'sched', '', pre, 'run_case',
                                 cases, wants, shard=100)
    steps_of = {}
    if mism and not errs:
        idx = [i for i, _ in mism if 0 <= i < len(runs)][:5]
        m2, e2 = vlib.eval_cases(chk.work, 'sched_steps', '', pre,
                                 'run_steps', [cases[i] for i in idx],
                                 [[-1]] * len(idx))
        errs += e2
        for j, v in m2:
            if 0 <= j < len(idx):
                steps_of[idx[j]] = v
    for e in errs:
        chk.broken.append({'obligation': 'model evaluation of the executed '
                           'schedules (coqc)', 'why': e})
    chk.coverage['evaluations'] += len(runs)
    chk.coverage['traces_validated_against_impl'] += len(runs)
    steps = sum(len(r['labels']) for r in runs)
    chk.dist('structural_runs', len(runs))
    chk.dist('structural_steps_compared', steps)
    chk.dist('structural_runs_returned', sum(1 for r in runs
                                             if r['returned']))
    chk.dist('structural_runs_with_giveup', sum(1 for r in runs
                                                if r['drops']))
    chk.dist('structural_runs_with_spurious_empty',
             sum(1 for r in runs if r['spurious']))
    chk.dist('structural_purge_steps', sum(g.count('PS') for r in runs
                                           for g in r['labels']))
    chk.coverage['distinct_nontrivial'] += len(
        {(json.dumps(r['cfg'], sort_keys=True), json.dumps(r['labels']))
         for r in runs if sum(r['cfg']['counts']) > 0})
    for r in runs:
        if r['drops'] and r['returned']:
            chk.violation(
                "structural returned-after-giveup",
                {'config': r['cfg'], 'schedule_moves': r['moves'],
                 'schedule_model_actions': r['labels'],
                 'note': 'run() returned although a batch was given up: '
                         'partial results'}, witness=True)
    for i, v in mism[:5]:
        r = runs[i] if 0 <= i < len(runs) else None
        if r is None:
            chk.broken.append({'obligation': 'model evaluation shape',
                               'why': f"index {i}"})
            continue
        first = None
        for k, (a, b) in enumerate(zip(steps_of.get(i) or [],
                                       r['want'][1])):
            if a != b:
                first = k
                break
        chk.violation(
            f"structural model-vs-code trace {r['kind']}",
            {'config': r['cfg'], 'schedule_moves': r['moves'],
             'schedule_model_actions': r['labels'],
             'first_differing_step': first,
             'code_final': r['want'][0],
             'model_final': v[0] if v else None,
             'note': 'the real code objects and Model/Pipeline.v disagree on '
                     'this schedule; the direct property checks on the real '
                     'collection passed'}, witness=False)
    return len(mism)


def patched_structural(fn):
    """ run fn(fixture) with the module patches of the structural part """
    import searchkit.search as S
    import searchkit.task as T
    saved = (T.QueueTransitBuffer.MAX, T.NUM_BUFFERED_RESULTS,
             T.RESULTS_QUEUE_SIZE, T.RESULTS_QUEUE_TIMEOUT,
             S.RESULTS_QUEUE_TIMEOUT, T.time, S.time)
    ft = FakeTime()
    T.time = ft
    S.time = ft
    T.RESULTS_QUEUE_TIMEOUT = 1
    S.RESULTS_QUEUE_TIMEOUT = 1
    work = tempfile.mkdtemp(prefix='c02r_', dir=vlib.WORKROOT)
    fx = Fixture(work, 4)
    try:
        return fn(fx)
    finally:
        fx.close()
        shutil.rmtree(work, ignore_errors=True)
        (T.QueueTransitBuffer.MAX, T.NUM_BUFFERED_RESULTS,
         T.RESULTS_QUEUE_SIZE, T.RESULTS_QUEUE_TIMEOUT,
         S.RESULTS_QUEUE_TIMEOUT, T.time, S.time) = saved


def replay(chk, path):
    """ ./check C02 --replay <file>: re-execute a recorded witness on the
    current working tree; exit 1 if it still violates the property """
    with open(path, encoding='utf-8') as f:
        rec = json.load(f)
    wit = rec.get('witness') or {}
    if 'schedule_moves' in wit:
        def go(fx):
            w = World(fx, wit['config'])
            try:
                for mv in wit['schedule_moves']:
                    w.do(tuple(mv))
                return w.problems, w.labels, w.final_view()
            finally:
                w.close()
        try:
            problems, labels, final = patched_structural(go)
        except HarnessError as exc:
            print(f"replay: schedule no longer executable ({exc})")
            return 0
        print("replay: model actions", labels)
        print("replay: final [phase, expected, queue, collection] =", final)
        for p in problems:
            print("replay: PROBLEM", json.dumps(p)[:400])
        if problems:
            print(f"VIOLATION property=C02 replay={path}")
            return 1
        print("replay: the property holds on this schedule")
        return 0
    if 'recipe' in wit:
        work = os.path.join(chk.work, 'obs_replay')
        shutil.rmtree(work, ignore_errors=True)
        os.makedirs(work)
        c = launch_child(work, 0, wit['recipe'])
        timed_out, res, wall = reap_child(c, 600)
        if res is None or res.get('error'):
            print("replay: no result", timed_out, (res or {}).get('error'))
            print(f"VIOLATION property=C02 replay={path} "
                  "no-failing-input-found")
            return 1
        if res.get('par_error') and not any(
                e.get('seq_error') for e in res['paths']):
            print("replay: parallel run raised",
                  res['par_error']['class'], res['par_error']['text'])
            print(f"VIOLATION property=C02 replay={path}")
            return 1
        bad = [e for e in res['paths'] if e['h_par'] != e['h_seq']]
        for e in bad[:3]:
            print("replay: path", e['i'], "differs:",
                  json.dumps(e.get('first_diff'))[:400])
        if bad:
            print(f"VIOLATION property=C02 replay={path}")
            return 1
        print("replay: parallel == sequential on this file set")
        return 0
    print("replay: nothing executable in this record (an unproved "
          "obligation has no input)")
    return 0


def run(chk):
    chk.prove(PROPS)
    chk.coverage['rule'] = (
        "observable: one real multi-file FileSearcher.run() (own process "
        "group, hard timeout) vs one run() per file, per-path lists of "
        "(line, tag, values, section rank) compared; non-trivial = >= 2 "
        "files and >= 1 result.  structural: each executed schedule of the "
        "real SearchTask.execute (search, flush, put_result)/_get_results/"
        "_purge_results on the instrumented queue, compared step by step "
        "with Model/Pipeline.v evaluated in Coq; non-trivial = distinct "
        "(config, model schedule) with >= 1 result")
    t0 = time.time()
    st = structural(chk)
    t1 = time.time()
    compare_with_model(chk, st)
    t2 = time.time()
    observable(chk)
    chk.dist('wall_structural_s', int(t1 - t0))
    chk.dist('wall_model_eval_s', int(t2 - t1))
    chk.dist('wall_observable_s', int(time.time() - t2))
    # the end-to-end multi-file composition (Props/E2Emp.v): real multi-file
    # runs against the composed per-file model + pipeline + statistics in Coq
    import e2e
    e2e.run_e2e_mp(chk, 7 if chk.quick else 30)
    chk.assumptions += [
        "multiprocessing.Manager().Queue(n) is a FIFO of capacity n whose "
        "put returns only after the item is enqueued (modelled; the "
        "instrumented in-process queue implements exactly this)",
        "ProcessPoolExecutor completes a future only after the task's "
        "execute() returned, i.e. after all of its puts returned "
        "(Finish t requires todo(t) = [])",
        "fairness of the OS scheduler (only for termination; see "
        "C02_fair_schedule_returns)",
        "pickling of results through the queue preserves linenumber, "
        "source_id, data and section id (exercised by the observable runs, "
        "not modelled)"]


if __name__ == '__main__':
    if len(sys.argv) == 4 and sys.argv[1] == '--child':
        child_main(sys.argv[2], sys.argv[3])
        sys.exit(0)
    sys.exit(2)
