"""C07 - a search's own since constraint gates only that search, from the
first passing line.

Proof side: Props/C07.v.  Correspondence side (this file): the REAL
FileSearcher.run() on generated single files with timestamps in any order and
undated lines anywhere, definitions with 0-2 own SearchConstraintSearchSince
constraints (simple searches and start-only sequence searches), registered
with allow_global_constraints on/off, with/without a file-level constraint,
versus the Coq model (`simple_run_file`: apply_global, apply_single, the
runnable map) and the Coq specification (`spec_constrained`).  The outcome of
every constraint on every line is tabulated here with plain `re` + `datetime`
(never through searchkit).

The position at which a file-level constraint leaves the file is C04's
subject: it is read off the real run (fd.tell() after apply_global) and given
to the model as the oracle `atf`; for files on which a definition is
registered with allow_global_constraints=False the specification demands the
whole file, whatever that position would have been.
"""
import json
import os
import re
import shutil
from datetime import datetime, timedelta

import vlib
import c01

PROPS = ['Props/C07.v', 'Props/TsMatcher.v']

TS_EXPR = (r'^(?P<year>\d{4})-(?P<month>\d{2})-(?P<day>\d{2}) '
           r'(?P<hours>\d{2}):(?P<minutes>\d{2}):(?P<seconds>\d{2})')
# second matcher class: also reads the ISO 'T' form -> lines in that form
# are undecidable for constraints using the first class only
TS2_EXPR = TS_EXPR.replace(r'(?P<day>\d{2}) ', r'(?P<day>\d{2})[ T]')
# third matcher class: several patterns that match the SAME text with
# different readings, in order of precedence: day/month/year first, then
# month/day/year, then the ISO form - the FIRST matching pattern supplies the
# line's timestamp
DMY_EXPR = (r'^(?P<day>\d{2})/(?P<month>\d{2})/(?P<year>\d{4}) '
            r'(?P<hours>\d{2}):(?P<minutes>\d{2}):(?P<seconds>\d{2})')
MDY_EXPR = (r'^(?P<month>\d{2})/(?P<day>\d{2})/(?P<year>\d{4}) '
            r'(?P<hours>\d{2}):(?P<minutes>\d{2}):(?P<seconds>\d{2})')
MATCHER_PATTERNS = {1: [TS_EXPR], 2: [TS2_EXPR],
                    3: [DMY_EXPR, MDY_EXPR, TS_EXPR]}
FMT = '%Y-%m-%d %H:%M:%S'
T0 = datetime(2022, 3, 10, 12, 0, 0)

PATTERNS7 = [
    r'.* (aa)\b', r'\S+ \S+ (\w+)', r'.*ERR', r'(\d{4})-(\d\d)-(\d\d)',
    r'aa', r'(\w+)', r'.*(bb|ab)( \S+)?', r'.*', r'.*?(\d+)$', r'\S+ (\S+)',
    r'(?:\S+ \S+ )?(aa|bb)', r'.*x=(\d)', r'[^\d]', r'.* (\w+) (\w+)$',
]
HINTS7 = [r'ERR', r'bb', r'zz', r' 1\d:', r'x=']


# -------------------------------------------------------------- generators
def gen_case(rng):
    n = rng.choice([1, 2, 3, 5, 8, 12, 16, 24])
    ordered = rng.random() < 0.55
    hetero = rng.random() < 0.3
    stamps = [T0 + timedelta(hours=rng.randint(-72, 24),
                             minutes=rng.choice([0, 0, 0, 30]),
                             seconds=rng.choice([0, 0, 0, 1, 59]))
              for _ in range(n)]
    if ordered:
        stamps.sort()
    lines = []
    for ts in stamps:
        body = ' '.join(rng.choice(c01.TOKENS)
                        for _ in range(rng.choice([0, 1, 2, 2, 3, 4])))
        k = rng.random()
        if k < 0.22:
            line = body                      # undated
        elif k < 0.26:
            line = '2022-02-30 00:00:00 ' + body      # not a real date
        elif k < 0.30:
            line = ts.strftime('%Y-%m-%d %H:%M') + ' ' + body  # no seconds
        elif k < 0.34:
            line = ' ' + ts.strftime(FMT) + ' ' + body   # not at line start
        elif hetero and k < 0.60:
            line = ts.strftime('%Y-%m-%dT%H:%M:%S') + ' ' + body
        else:
            line = ts.strftime(FMT) + (' ' + body if body or
                                       rng.random() < 0.5 else '')
        lines.append(line.encode())
    content = b'\n'.join(lines)
    if rng.random() < 0.85:
        content += b'\n'
    # constraints: id -> (current_date, days, hours, matcher)
    cons = {}
    ncons = rng.choice([1, 1, 2, 2, 3])
    for cid in range(1, ncons + 1):
        cur = T0 + timedelta(hours=rng.randint(-30, 30))
        if rng.random() < 0.3:
            days, hours = rng.choice([1, 2, 3]), rng.choice([24, 5])
        else:
            days, hours = 0, rng.choice([1, 6, 12, 24, 36, 48, 60])
        matcher = 2 if (hetero and cid == ncons and ncons > 1) else 1
        cons[str(cid)] = [cur.strftime(FMT), days, hours, matcher]
    ndefs = rng.choice([1, 2, 2, 3, 3, 4, 5])
    defs = []
    any_con = False
    for i in range(ndefs):
        npat = rng.choice([1, 1, 2])
        pats = [rng.choice(PATTERNS7) for _ in range(npat)]
        k = rng.random()
        if k < 0.35:
            dc = []
        elif k < 0.75:
            dc = [rng.randint(1, ncons)]
        elif k < 0.82:
            c = rng.randint(1, ncons)
            dc = [c, c]                  # same constraint object twice
        else:
            dc = rng.sample(range(1, ncons + 1), min(2, ncons))
        if i == ndefs - 1 and not any_con and not dc:
            dc = [rng.randint(1, ncons)]
        any_con = any_con or bool(dc)
        seq = rng.random() < 0.25
        defs.append({'patterns': pats,
                     'hint': rng.choice(HINTS7) if rng.random() < 0.25
                     else None,
                     'store': rng.random() < 0.85,
                     'tag': f'seq{i}' if seq else rng.choice(
                         ['t0', 't1', 't2', f'u{i}', f'u{i}']),
                     'as_list': npat > 1 or rng.random() < 0.3,
                     'cons': dc, 'seq': seq})
    reg = [[i, True] for i in range(ndefs)]
    if rng.random() < 0.25:
        reg.insert(rng.randint(0, len(reg)), [rng.randrange(ndefs), True])
    glob = None
    if rng.random() < 0.6:
        cur = T0 + timedelta(hours=rng.randint(-20, 30))
        glob = [cur.strftime(FMT), 0, rng.choice([6, 12, 24, 36, 48])]
        if rng.random() < 0.5:
            for r in rng.sample(reg, rng.choice([1, 1, 2]) if len(reg) > 1
                                else 1):
                r[1] = False
    elif rng.random() < 0.2:
        rng.choice(reg)[1] = False
    shared = None
    if glob and rng.random() < 0.3:
        used = sorted({c for d in defs for c in d['cons']
                       if cons[str(c)][3] == 1})
        if used:
            shared = rng.choice(used)
            glob = cons[str(shared)][:3]
    return {'content_hex': content.hex(), 'policy': None, 'defs': defs,
            'reg': [r[0] for r in reg], 'allow': [r[1] for r in reg],
            'via': gen_via(rng, [r[1] for r in reg]),
            'cons': cons, 'global': glob, 'global_shared': shared,
            'patch': None}


def gen_via(rng, allow):
    """ how each registration names the file: its path, its directory or a
    glob (restricting registrations mostly by directory / glob) """
    out = []
    for a in allow:
        k = rng.random()
        if a:
            out.append('file' if k < 0.6 else 'dir' if k < 0.8 else 'glob')
        else:
            out.append('file' if k < 0.3 else 'dir' if k < 0.65 else 'glob')
    return out


def gen_shared_case(rng):
    """ the same constraint object as file-level constraint and as a
    search's own constraint, on a file the file-level pass does not
    position: another search is registered with
    allow_global_constraints=False, or the file has no readable timestamp """
    n = rng.choice([2, 3, 5, 8, 12])
    restricted = rng.random() < 0.55
    stamps = sorted(T0 + timedelta(hours=rng.randint(-72, 24))
                    for _ in range(n))
    lines = []
    for ts in stamps:
        body = ' '.join(rng.choice(c01.TOKENS)
                        for _ in range(rng.choice([1, 2, 3])))
        if restricted:
            k = rng.random()
            line = (ts.strftime(FMT) + ' ' + body) if k < 0.8 else body
        else:
            line = rng.choice([body, ts.strftime('%Y-%m-%dT%H:%M:%S ') + body,
                               ts.strftime('%Y/%m/%d ') + body])
        lines.append(line.encode())
    content = b'\n'.join(lines) + b'\n'
    cur = T0 + timedelta(hours=rng.randint(-20, 20))
    cons = {'1': [cur.strftime(FMT), 0, rng.choice([6, 12, 24, 36]), 1]}

    def sd(cs, tag, seq=False):
        return {'patterns': [rng.choice([r'.*(aa|bb|ab)', r'.*', r'.* (\w+)$',
                                         r'\S+'])],
                'hint': None, 'store': True, 'tag': tag, 'as_list': False,
                'cons': cs, 'seq': seq}
    defs = [sd([1], 't0'), sd([], 't1')]
    if rng.random() < 0.4:
        defs.append(sd([1], 'seq2', seq=True))
    rng.shuffle(defs)
    allow = [True] * len(defs)
    if restricted:
        free = [i for i, d in enumerate(defs) if not d['cons']]
        allow[rng.choice(free)] = False
    return {'content_hex': content.hex(), 'policy': None, 'defs': defs,
            'reg': list(range(len(defs))), 'allow': allow,
            'via': gen_via(rng, allow), 'cons': cons,
            'global': cons['1'][:3], 'global_shared': 1, 'patch': None}


def _simple_defs(rng, ncons, force_first_constrained=False):
    """ 2-4 simple definitions, some with own constraints """
    ndefs = rng.choice([2, 2, 3, 4])
    defs = []
    for i in range(ndefs):
        k = rng.random()
        if (force_first_constrained and i == 0) or k < 0.5:
            dc = [rng.randint(1, ncons)]
        elif k < 0.65 and ncons > 1:
            dc = rng.sample(range(1, ncons + 1), 2)
        else:
            dc = []
        if force_first_constrained and i == ndefs - 1:
            dc = []
        npat = rng.choice([1, 1, 2])
        defs.append({'patterns': [rng.choice(PATTERNS7 + [r'.*(aa|bb|ab)'])
                                  for _ in range(npat)],
                     'hint': None, 'store': rng.random() < 0.85,
                     'tag': f'u{i}', 'as_list': npat > 1, 'cons': dc,
                     'seq': False})
    if not any(d['cons'] for d in defs):
        defs[0]['cons'] = [1]
    return defs


def _case(content, defs, cons, policy=None):
    n = len(defs)
    return {'content_hex': content.hex(), 'policy': policy, 'defs': defs,
            'reg': list(range(n)), 'allow': [True] * n,
            'via': ['file'] * n, 'cons': cons, 'global': None,
            'global_shared': None, 'patch': None}


def gen_multi_matcher_case(rng):
    """ constraints using a timestamp matcher with SEVERAL patterns that
    match the same text with different readings (dd/mm/yyyy before
    mm/dd/yyyy before ISO): the first matching pattern is the line's
    timestamp """
    n = rng.choice([2, 3, 5, 8, 12])
    stamps = [T0 + timedelta(hours=rng.randint(-96, 30),
                             minutes=rng.choice([0, 0, 30]))
              for _ in range(n)]
    if rng.random() < 0.6:
        stamps.sort()
    lines = []
    for ts in stamps:
        body = ' '.join(rng.choice(c01.TOKENS)
                        for _ in range(rng.choice([1, 2, 3])))
        k = rng.random()
        if k < 0.65:
            line = ts.strftime('%d/%m/%Y %H:%M:%S ') + body
        elif k < 0.8:
            line = ts.strftime(FMT) + ' ' + body     # third pattern only
        elif k < 0.9:
            # day > 12: the second reading is not a date at all
            line = ts.replace(day=rng.randint(13, 28)).strftime(
                '%d/%m/%Y %H:%M:%S ') + body
        else:
            line = body
        lines.append(line.encode())
    content = b'\n'.join(lines) + b'\n'
    cons = {}
    ncons = rng.choice([1, 2])
    for cid in range(1, ncons + 1):
        cur = T0 + timedelta(hours=rng.randint(-30, 30))
        cons[str(cid)] = [cur.strftime(FMT), 0,
                          rng.choice([6, 12, 24, 36, 48, 72]), 3]
    return _case(content, _simple_defs(rng, ncons), cons)


def gen_decode_case(rng):
    """ files with undecodable bytes - also inside the timestamps - searched
    with a lenient decode policy: a line's timestamp is that of the line AS
    DECODED BY THE SEARCHER'S POLICY """
    policy = rng.choice(['ignore', 'ignore', 'replace', 'backslashreplace'])
    n = rng.choice([2, 3, 5, 8, 12])
    stamps = [T0 + timedelta(hours=rng.randint(-72, 24)) for _ in range(n)]
    if rng.random() < 0.6:
        stamps.sort()
    lines = []
    for ts in stamps:
        body = ' '.join(rng.choice(c01.TOKENS)
                        for _ in range(rng.choice([1, 2, 3]))).encode()
        stamp = ts.strftime(FMT).encode()
        k = rng.random()
        bad = rng.choice([b'\xff', b'\xc3', b'\x80', b'\xe2\x82'])
        if k < 0.4:
            pos = rng.randint(0, len(stamp))
            stamp = stamp[:pos] + bad + stamp[pos:]
        elif k < 0.55:
            pos = rng.randint(0, len(body))
            body = body[:pos] + bad + body[pos:]
        elif k < 0.7:
            stamp = b''
        lines.append(stamp + (b' ' if stamp else b'') + body)
    content = b'\n'.join(lines) + b'\n'
    if content[:2] == b'\x1f\x8b':
        content = b'a' + content
    cons = {}
    ncons = rng.choice([1, 2])
    for cid in range(1, ncons + 1):
        cur = T0 + timedelta(hours=rng.randint(-30, 30))
        cons[str(cid)] = [cur.strftime(FMT), 0,
                          rng.choice([6, 12, 24, 36, 48, 72]), 1]
    return _case(content, _simple_defs(rng, ncons), cons, policy)


def gen_neighbour_case(rng):
    """ C01: a constrained search registered BEFORE unconstrained ones on a
    file with lines its constraint rejects or cannot read - the neighbours
    must still see every line """
    n = rng.choice([3, 5, 8, 12, 16])
    stamps = [T0 + timedelta(hours=rng.randint(-72, 24)) for _ in range(n)]
    if rng.random() < 0.5:
        stamps.sort()
    lines = []
    for ts in stamps:
        body = ' '.join(rng.choice(c01.TOKENS)
                        for _ in range(rng.choice([1, 2, 3])))
        lines.append((body if rng.random() < 0.3
                      else ts.strftime(FMT) + ' ' + body).encode())
    content = b'\n'.join(lines) + (b'\n' if rng.random() < 0.85 else b'')
    cur = T0 + timedelta(hours=rng.randint(-20, 30))
    cons = {'1': [cur.strftime(FMT), 0, rng.choice([6, 12, 24, 36]), 1]}
    return _case(content, _simple_defs(rng, 1, force_first_constrained=True),
                 cons)


def gen_global_case(rng):
    """ C01: a time-ordered log, every line dated, a file-level constraint
    whose window starts at one of the lines (so the seek skips a non-empty
    prefix), unconstrained definitions: line numbers must count from the
    first line searched """
    n = rng.choice([2, 3, 4, 6, 9, 14, 20])
    ts = T0 - timedelta(hours=80)
    lines, stamps = [], []
    for _ in range(n):
        ts += timedelta(minutes=rng.choice([1, 7, 30, 60, 240]),
                        seconds=rng.choice([0, 0, 1, 30]))
        stamps.append(ts)
        body = ' '.join(rng.choice(c01.TOKENS)
                        for _ in range(rng.choice([0, 1, 2, 3, 4])))
        lines.append((ts.strftime(FMT) + (' ' + body if body else ''))
                     .encode())
    content = b'\n'.join(lines)
    if rng.random() < 0.85:
        content += b'\n'
    k = rng.randrange(n + 1)
    since = stamps[k] if k < n else stamps[-1] + timedelta(seconds=1)
    if k and rng.random() < 0.4:
        since -= timedelta(seconds=1)       # strictly between two lines
        if since <= stamps[k - 1]:
            since = stamps[k] if k < n else since
    hours = rng.choice([1, 24, 48])
    glob = [(since + timedelta(hours=hours)).strftime(FMT), 0, hours]
    ndefs = rng.choice([1, 2, 3])
    defs = []
    for i in range(ndefs):
        npat = rng.choice([1, 1, 2])
        defs.append({'patterns': [rng.choice(PATTERNS7) for _ in range(npat)],
                     'hint': rng.choice(HINTS7) if rng.random() < 0.2
                     else None,
                     'store': rng.random() < 0.85, 'tag': f't{i}',
                     'as_list': npat > 1, 'cons': [], 'seq': False})
    return {'content_hex': content.hex(), 'policy': None, 'defs': defs,
            'reg': list(range(ndefs)), 'allow': [True] * ndefs, 'cons': {},
            'global': glob, 'global_shared': None, 'patch': None,
            'expect_pos': sum(1 for t in stamps if t < since)}


# ------------------------------------------------------------------ oracle
def since_of(spec):
    cur, days, hours = spec[0], spec[1], spec[2]
    cur = datetime.strptime(cur, FMT)
    if days:
        hours = 0
    return cur - timedelta(days=days, hours=hours or 0)


def make_con_outcome(case):
    exprs = {k: [re.compile(e) for e in v]
             for k, v in MATCHER_PATTERNS.items()}
    since = {int(c): since_of(s) for c, s in case['cons'].items()}
    kind = {int(c): s[3] for c, s in case['cons'].items()}

    def outcome(cid, text):
        m = None
        for expr in exprs[kind[cid]]:      # first matching pattern decides
            m = expr.match(text)
            if m:
                break
        if not m:
            return 'Undecided'
        try:
            ts = datetime(int(m.group('year')), int(m.group('month')),
                          int(m.group('day')), int(m.group('hours')),
                          int(m.group('minutes')), int(m.group('seconds')))
        except ValueError:
            return 'Undecided'
        return 'Pass' if ts >= since[cid] else 'Fail'
    return outcome


def is_uniform(case, tables):
    """ on every line, the constraints of each definition are all
    undecidable or all decidable """
    for i in set(case['reg']):
        cs = set(case['defs'][i]['cons'])
        if len(cs) < 2:
            continue
        for _, _, cons in tables:
            und = [o == 'Undecided' for c, o in cons if c in cs]
            if any(und) and not all(und):
                return False
    return True


PREAMBLE7 = c01.PREAMBLE + r"""
Definition case7 : Type := case * (bool * Z * list (Z * bool) * bool).
Definition restr_of (regs : list (Z * bool)) : list Z :=
  fold_left (fun r ka => add_restriction r (fst ka) (snd ka)) regs [].
Definition run_model7 (c : case7) : jv :=
  let '((mx, nb, tags, ds, uds, lines), (glob, pos, regs, whole)) := c in
  match simple_run_file tline t_omatch t_ohint t_ocon mx nb
          (fun (_ : unit) (_ : nat) => (Some 0, Z.to_nat pos))
          (if glob then [tt] else []) (restr_of regs) ds lines with
  | TaskHangs => JL [JZ (-2)]
  | TaskOk bs =>
      let rs := concat bs in
      JL [JZ (lenZ rs);
          JL (map (fun t => JL (rle (canon (snd t) (map res_jv
                 (filter (fun r => r_tag r =? fst t) rs))))) tags)]
  end.
Definition run_spec7 (c : case7) : jv :=
  let '((mx, nb, tags, ds, uds, lines), (glob, pos, regs, whole)) := c in
  let ls := if whole then lines else skipn (Z.to_nat pos) lines in
  let per d := spec_constrained tline t_omatch t_ohint t_ocon d ls in
  JL [JZ (lenZ (flat_map per uds));
      JL (map (fun t => JL (rle (canon (snd t) (flat_map
             (fun d => if s_tag d =? fst t then map obs_jv (per d) else [])
             uds)))) tags)].
"""


# ---------------------------------------------------------- implementation
def make_matchers():
    from searchkit.constraints import TimestampMatcherBase

    class TS1(TimestampMatcherBase):
        @property
        def patterns(self):
            return [TS_EXPR]

    class TS2(TimestampMatcherBase):
        @property
        def patterns(self):
            return [TS2_EXPR]

    class TS3(TimestampMatcherBase):
        @property
        def patterns(self):
            return list(MATCHER_PATTERNS[3])
    return {1: TS1, 2: TS2, 3: TS3}


def run_impl(case, path, vals):
    """ -> (observable, line position after apply_global or None) """
    from searchkit import FileSearcher, SearchDef, SequenceSearchDef
    from searchkit.constraints import SearchConstraintSearchSince
    import searchkit.search as S
    content = bytes.fromhex(case['content_hex'])
    with open(path, 'wb') as f:
        f.write(content)
    matchers = make_matchers()
    cobj = {int(c): SearchConstraintSearchSince(
        current_date=s[0], ts_matcher_cls=matchers[s[3]], days=s[1],
        hours=s[2]) for c, s in case['cons'].items()}
    gc = None
    if case.get('global_shared'):
        # the SAME constraint object is the searcher's file-level constraint
        # and one of the searches' own constraints
        gc = cobj[case['global_shared']]
    elif case['global']:
        g = case['global']
        gc = SearchConstraintSearchSince(
            current_date=g[0],
            ts_matcher_cls=matchers[g[3] if len(g) > 3 else 1],
            days=g[1], hours=g[2])
    sds = []
    for d in case['defs']:
        pat = d['patterns'] if d['as_list'] else d['patterns'][0]
        kw = {}
        if d['cons']:
            kw['constraints'] = [cobj[c] for c in d['cons']]
        if d['seq']:
            start = SearchDef(pat, hint=d['hint'],
                              store_result_contents=d['store'])
            sds.append(SequenceSearchDef(start=start, tag=d['tag'], **kw))
        else:
            sds.append(SearchDef(pat, tag=d['tag'], hint=d['hint'],
                                 store_result_contents=d['store'], **kw))
    fs = FileSearcher(constraint=gc, decode_errors=case.get('policy'))
    # the file is alone in its directory: registering the directory or a
    # glob denotes exactly this file
    how = {'file': path, 'dir': os.path.dirname(path),
           'glob': os.path.join(os.path.dirname(path), '*.log')}
    via = case.get('via') or ['file'] * len(case['reg'])
    for i, allow, v in zip(case['reg'], case['allow'], via):
        fs.add(sds[i], how[v], allow_global_constraints=allow)
    if fs.files != [path]:
        return c01.failed('RegistrationDenotesOtherFiles'), None
    told = []
    real = S.SearchConstraintsManager.apply_global

    def spy(self, search_ids, fd):
        try:
            ret = real(self, search_ids, fd)
        except BaseException:
            told.append(None)      # the file-level seek itself failed: C04/C13
            raise
        told.append(fd.tell())
        return ret
    S.SearchConstraintsManager.apply_global = spy
    try:
        try:
            if c01.TIMEOUTS[0] >= 3:
                raise c01.RunTimeout()
            with c01.time_limit(c01.RUN_LIMIT):
                res = fs.run()
        except (Exception, c01.RunTimeout) as exc:  # noqa, pylint: disable=broad-except
            if isinstance(exc, c01.RunTimeout):
                c01.TIMEOUTS[0] += 1
            if told and told[0] is None:
                return c01.failed(type(exc).__name__), None
            return c01.failed(type(exc).__name__), 0
    finally:
        S.SearchConstraintsManager.apply_global = real
    pos = 0
    if told:
        off, acc, pos = told[0], 0, None
        for k, raw in enumerate(c01.split_lines(content) + [b'']):
            if acc == off:
                pos = k
                break
            acc += len(raw)
    tids = c01.tag_ids(case)
    shared = c01.tag_shared(case)
    per_tag = []
    for tag in tids:
        owners = [d for d in case['defs'] if d['tag'] == tag]
        lst = []
        if owners[0]['seq']:
            sd = sds[case['defs'].index(owners[0])]
            found = []
            for sect in res.find_sequence_sections(sd, path).values():
                found += list(sect)
        else:
            found = res.find_by_tag(tag, path)
        for r in found:
            values = list(r)
            idxs = [p[0] for p in r.data]
            lst.append([r.linenumber,
                        [[i, vals(v)] for i, v in zip(idxs, values)]])
        per_tag.append(c01.rle(sorted(lst) if shared[tag] else lst))
    return [len(res.find_by_path(path)), per_tag], pos


def coq_case7(case, tables, pids, hids, pos, whole):
    base = c01.coq_case(case, tables, pids, hids)
    regs = "[" + "; ".join(f"({i + 1}, {'true' if a else 'false'})"
                           for i, a in zip(case['reg'], case['allow'])) + "]"
    return (f"({base}, ({'true' if case['global'] else 'false'}, {pos}, "
            f"{regs}, {'true' if whole else 'false'}))")


def evaluate(chk, cases, tag='c07', nontrivial=None):
    work = os.path.join(chk.work, f'files_{tag}')
    shutil.rmtree(work, ignore_errors=True)
    os.makedirs(work)
    path = os.path.join(work, f'{tag}.log')
    terms, wants, keep, uni = [], [], [], []
    seen = set()
    for case in cases:
        outcome = make_con_outcome(case)
        tables, pids, hids, vals = c01.tabulate(case, outcome)
        want, pos = run_impl(case, path, vals)
        chk.coverage['evaluations'] += 1
        if pos is None:
            # the file-level constraint left the file inside a line: C04's
            # subject, the line tables do not apply
            chk.dist('skipped:seek-inside-line-or-seek-raised')
            continue
        if case.get('expect_pos') is not None and pos != case['expect_pos'] \
                and want[0] != -1:
            # where the file-level seek lands is C04's subject
            chk.dist('skipped:seek-not-at-first-in-window-line(C04)')
            continue
        restricted = not all(case['allow'])
        whole = restricted or not case['global']
        if case['global'] and restricted and pos != 0:
            chk.violation('restricted-file-seeked',
                          {'what': 'a definition is registered with '
                           'allow_global_constraints=False but the file '
                           'position after apply_global is not 0',
                           'case': case, 'line_position': pos})
        # a restricted file: give the model a position that WOULD skip lines
        mpos = pos if not (case['global'] and restricted) else \
            max(1, len(tables) // 2)
        terms.append(coq_case7(case, tables, pids, hids, mpos, whole))
        wants.append(want)
        keep.append(case)
        u = is_uniform(case, tables)
        uni.append(u)
        classify(chk, case, tables, want, pos, restricted, u)
        key = json.dumps(case, sort_keys=True)
        if nontrivial is not None:
            nt = nontrivial(case, tables, pos, want)
        else:
            nt = gated(case, tables, pos if not whole else 0)
        if key not in seen and nt:
            seen.add(key)
            chk.coverage['distinct_nontrivial'] += 1
    shutil.rmtree(work, ignore_errors=True)
    m_model, e1 = vlib.eval_cases(chk.work, f'{tag}_model', '', PREAMBLE7,
                                  'run_model7', terms, wants, shard=40)
    uidx = [i for i, u in enumerate(uni) if u]
    m_spec, e2 = vlib.eval_cases(chk.work, f'{tag}_spec', '', PREAMBLE7,
                                 'run_spec7', [terms[i] for i in uidx],
                                 [wants[i] for i in uidx], shard=40)
    for e in e1 + e2:
        chk.broken.append({'obligation': f'correspondence {tag} (coqc on a '
                           'cases file)', 'why': e})
    spec_bad = set()
    for j, v in m_spec:
        if j < 0:
            chk.broken.append({'obligation': f'correspondence {tag}',
                               'why': 'length mismatch in cases file'})
            continue
        i = uidx[j]
        spec_bad.add(i)
        chk.violation(c01.sig_of(keep[i], wants[i], v),
                      {'what': 'implementation output differs from the '
                       'specification on this input',
                       'case': keep[i],
                       'constraint_outcomes_per_line':
                           [t[2] for t in c01.tabulate(
                               keep[i], make_con_outcome(keep[i]))[0]],
                       'implementation': c01.brief(wants[i]),
                       'specification': c01.brief(v)}, witness=True)
    for i, v in m_model:
        if i < 0 or i in spec_bad:
            continue
        chk.violation('model-vs-impl ' + c01.sig_of(keep[i], wants[i], v),
                      {'what': 'implementation differs from the model ('
                       + ('agrees with the specification' if uni[i] else
                          'heterogeneous undecidedness: outside the '
                          'specification') + ')', 'case': keep[i],
                       'implementation': c01.brief(wants[i]),
                       'model': c01.brief(v)}, witness=False)
    return list(zip(keep, wants))


def gated(case, tables, skip):
    """ non-trivial: some constrained definition has a matching line before
    its activation line (suppressed) and a matching line from it on """
    pids = {}
    for d in case['defs']:
        for p in d['patterns']:
            pids.setdefault(p, len(pids) + 1)
    hid = {}
    for d in case['defs']:
        if d['hint']:
            hid.setdefault(d['hint'], len(hid) + 1)
    tabs = tables[skip:]
    for i in set(case['reg']):
        d = case['defs'][i]
        cs = set(d['cons'])
        if not cs:
            continue
        act = None
        for k, (_, _, cons) in enumerate(tabs):
            if all(o == 'Pass' for c, o in cons if c in cs):
                act = k
                break
        if act is None:
            act = len(tabs)

        def hit(t):
            ms, hs, _ = t
            return (not d['hint'] or hid[d['hint']] in hs) and \
                any(pids[p] in dict(ms) for p in d['patterns'])
        if any(hit(t) for t in tabs[:act]) and \
                any(hit(t) for t in tabs[act:]):
            return True
    return False


def classify(chk, case, tables, want, pos, restricted, uniform):
    chk.dist('global=%s restricted=%s' % (bool(case['global']), restricted))
    if case['global'] and not restricted:
        chk.dist('seek-skipped-lines' if pos else 'seek-at-start')
    chk.dist('uniform' if uniform else 'heterogeneous')
    if any(s_[3] == 3 for s_ in case['cons'].values()):
        chk.dist('multi-pattern-timestamp-matcher')
        if any(re.match(r'(0[1-9]|1[0-2])/(0[1-9]|1[0-2])/', raw.decode())
               for raw in c01.split_lines(bytes.fromhex(case['content_hex']))
               if raw[:1].isdigit()):
            chk.dist('line-with-two-valid-readings')
    if case.get('policy'):
        chk.dist('decode-policy=%s' % case['policy'])
    via = case.get('via') or []
    if case['global'] and restricted:
        kinds = {v for v, a in zip(via, case['allow']) if not a}
        for k in sorted(kinds):
            chk.dist(f'restricting-registration-by-{k}')
    if len(set(via)) > 1:
        chk.dist('mixed-registration-kinds')
    if case.get('global_shared'):
        chk.dist('shared-constraint-object' +
                 ('+restricted' if restricted else
                  '+seek-at-start' if not pos else '+seek-skipped'))
    stamps = []
    for raw in c01.split_lines(bytes.fromhex(case['content_hex'])):
        m = re.match(TS_EXPR, raw.decode('utf-8', 'replace'))
        if m:
            stamps.append(m.group(0))
    chk.dist('timestamps-' + ('ordered' if stamps == sorted(stamps)
                              else 'unordered'))
    if any(d['seq'] and d['cons'] for d in case['defs']):
        chk.dist('constrained-sequence-def')
    if any(len(set(d['cons'])) == 2 for d in case['defs']):
        chk.dist('two-constraints')
    if any(len(d['cons']) == 2 and len(set(d['cons'])) == 1
           for d in case['defs']):
        chk.dist('same-constraint-twice')
    if any(d['cons'] for d in case['defs']) and \
            any(not d['cons'] for d in case['defs']):
        chk.dist('constrained+unconstrained')
    # undated line after an activation
    for i in set(case['reg']):
        cs = set(case['defs'][i]['cons'])
        if not cs:
            continue
        active = False
        for _, _, cons in tables:
            mine = [o for c, o in cons if c in cs]
            if active and any(o != 'Pass' for o in mine):
                chk.dist('non-passing-line-after-activation')
                return
            if all(o == 'Pass' for o in mine):
                active = True


def fixed_cases():
    """ hand-made shapes that must always be present """
    def mk(lines, defs, cons, glob=None, allow=None, shared=None,
           via=None):
        return {'content_hex': ('\n'.join(lines) + '\n').encode().hex(),
                'policy': None, 'defs': defs,
                'reg': list(range(len(defs))),
                'allow': allow or [True] * len(defs), 'cons': cons,
                'via': via or ['file'] * len(defs),
                'global': glob, 'global_shared': shared, 'patch': None}

    def sd(pats, cons, tag, seq=False, hint=None):
        return {'patterns': pats, 'hint': hint, 'store': True, 'tag': tag,
                'as_list': len(pats) > 1, 'cons': cons, 'seq': seq}
    lines = ['aa undated', '2022-03-08 00:00:00 aa old',
             '2022-03-10 00:00:00 aa boundary', 'aa undated again',
             '2022-03-01 00:00:00 aa older, after activation',
             '2022-03-10 05:00:00 bb', '2022-03-10T06:00:00 aa iso']
    c = {'1': ['2022-03-11 00:00:00', 0, 24, 1],
         '2': ['2022-03-11 00:00:00', 0, 19, 1],
         '3': ['2022-03-11 00:00:00', 0, 48, 2]}
    any_aa = [r'.*(aa)']
    out = [
        mk(lines, [sd(any_aa, [1], 't0'), sd(any_aa, [], 't1')], c),
        mk(lines, [sd(any_aa, [1, 2], 't0'), sd(any_aa, [2], 't1'),
                   sd(any_aa, [1], 's', seq=True)], c),
        mk(lines, [sd(any_aa, [1], 't0'), sd(any_aa, [], 't1')], c,
           glob=['2022-03-11 00:00:00', 0, 20]),
        mk(lines, [sd(any_aa, [1], 't0'), sd(any_aa, [], 't1')], c,
           glob=['2022-03-11 00:00:00', 0, 20], allow=[True, False]),
        mk(lines, [sd(any_aa, [1, 3], 't0'), sd(any_aa, [3], 't1')], c),
        mk(['2022-03-10T06:00:00 aa iso', '2022-03-10 07:00:00 aa'],
           [sd(any_aa, [1, 3], 't0')], c),
        mk(sorted(x for x in lines if x[0] == '2' and 'T' not in x),
           [sd(any_aa, [], 't0'), sd(any_aa, [2], 's', seq=True)], c,
           glob=['2022-03-11 00:00:00', 0, 30]),
        # restricting registration made by glob / by directory, the
        # neighbour by file path: the file must still be searched whole
        mk(lines, [sd(any_aa, [1], 't0'), sd(any_aa, [], 't1')], c,
           glob=['2022-03-11 00:00:00', 0, 20], allow=[True, False],
           via=['file', 'glob']),
        mk(lines, [sd(any_aa, [], 't0'), sd(any_aa, [2], 't1')], c,
           glob=['2022-03-11 00:00:00', 0, 20], allow=[False, True],
           via=['dir', 'file']),
        mk(sorted(x for x in lines if x[0] == '2' and 'T' not in x),
           [sd(any_aa, [], 't0'), sd(any_aa, [], 't1')], c,
           glob=['2022-03-11 00:00:00', 0, 20], allow=[False, True],
           via=['glob', 'dir']),
        # constraint 1 is ALSO the file-level constraint object; the file is
        # not positioned: restricted by the neighbour ...
        mk(lines, [sd(any_aa, [1], 't0'), sd(any_aa, [], 't1')], c,
           glob=c['1'][:3], allow=[True, False], shared=1),
        # ... or no readable timestamp at all
        mk(['aa one', 'bb aa two', '2022-03-10T06:00:00 aa iso'],
           [sd(any_aa, [1], 't0'), sd(any_aa, [], 't1')], c,
           glob=c['1'][:3], shared=1),
        # ... or too many undated lines for the seek, dated ones after
        mk(['aa undated'] * 520 + ['2022-03-08 00:00:00 aa old',
                                   '2022-03-10 09:00:00 aa new'],
           [sd(any_aa, [1], 't0'), sd(any_aa, [], 't1')], c,
           glob=c['1'][:3], shared=1),
    ]
    return out


def run(chk):
    chk.prove(PROPS)
    rng = chk.rng
    chk.coverage['rule'] = (
        "random single files of 1-24 lines: timestamps on a one-hour grid "
        "(+ :30, :01, :59) within 4 days, sorted or in random order, undated "
        "lines, impossible dates, truncated / indented / ISO-'T' timestamps "
        "anywhere x 1-5 definitions (simple, or start-only sequence compared "
        "through find_sequence_sections) each with 0, 1, the same twice, or "
        "2 own SearchConstraintSearchSince constraints (1-3 constraint "
        "objects with windows on the same grid; in 30% of the cases one uses "
        "a second timestamp matcher class -> heterogeneous undecidedness) x "
        "allow_global_constraints on/off x with/without a file-level "
        "constraint (in 30% of those the SAME constraint object is also a "
        "search's own constraint; plus a family where that is so and the "
        "file is not positioned: restricted by a neighbour, or without "
        "readable timestamps); every registration made by file path, by directory or by glob; a family whose constraints use a timestamp matcher with several patterns giving different readings of the same text (first pattern wins); a family with undecodable bytes inside timestamps under the lenient decode policies; 13 fixed shapes.  Constraint outcomes tabulated with "
        "plain re + datetime.  Each case: real FileSearcher.run() vs Coq "
        "model; vs Coq spec when undecidedness is uniform.  Non-trivial = a "
        "constrained definition has a matching line before its activation "
        "line and one from it on")
    n = 700 if chk.quick else 5000
    cases = fixed_cases() + [gen_case(rng) for _ in range(n)] + \
        [gen_shared_case(rng) for _ in range(60 if chk.quick else 600)] + \
        [gen_multi_matcher_case(rng)
         for _ in range(70 if chk.quick else 700)] + \
        [gen_decode_case(rng) for _ in range(70 if chk.quick else 700)]
    done = evaluate(chk, cases, 'c07')
    for case, want in done[:3]:
        chk.sample({'case': case, 'implementation': c01.brief(want, 600)})
    chk.assumptions += [
        "the timestamp matcher and datetime comparison are deterministic "
        "functions of the decoded line (outcomes Pass/Fail/Undecided "
        "tabulated with plain re + datetime)",
        "a file-level constraint leaves the file at the start of a line; "
        "which line is C04's subject (position read off the real run)",
        "a start-only SequenceSearchDef reports one result per visible line "
        "matching its start pattern (sequence semantics proper: C03)",
        "undecidedness is uniform across a search's constraints on a line "
        "(same timestamp matcher class) - otherwise only model = "
        "implementation is checked (C07_heterogeneous_boundary)"]


def replay(chk, path):
    with open(path, encoding='utf-8') as f:
        rec = json.load(f)
    case = rec.get('witness', {}).get('case')
    if not case:
        print("replay file carries no case")
        return 2
    chk.prove(PROPS)
    evaluate(chk, [case], 'c07replay')
    return chk.finish()
