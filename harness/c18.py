"""C18 - worker parallelism never exceeds min(max_parallel_tasks, CPUs, files).

T1: Gen/Exprs.v holds num_parallel_tasks and the run() dispatch test as
    translated from the source; Props/C18.v proves them equal to the spec.
T2: (a) the real FileSearcher.num_parallel_tasks vs the generated Gallina
    function, over a grid, evaluated inside Coq; (b) real runs with an
    execute() wrapper recording (pid, path): distinct worker pids, forks
    from the parent, each path executed exactly once, single file in-process.
"""
import os
import shutil
import signal
import tempfile

import vlib

PROPS = ['Props/C18.v']


def _mk_files(d, n):
    paths = []
    for i in range(n):
        p = os.path.join(d, f"f{i:03d}.txt")
        with open(p, 'w') as f:
            f.write(f"hello {i}\nworld {i}\n")
        paths.append(p)
    return paths


def grid(chk):
    from searchkit import FileSearcher, SearchDef
    import searchkit.search as S
    ms = list(range(0, 33))
    cs = [1, 2, 4, 16, 64]
    fs = [0, 1, 2, 3, 5, 8, 17, 64]
    if chk.quick:
        ms = [0, 1, 2, 3, 7, 8, 9, 16, 32]
    d = tempfile.mkdtemp(prefix='c18_', dir=chk.work)
    cases, wants, meta = [], [], []
    try:
        paths = _mk_files(d, max(fs))
        real = os.cpu_count
        sd = SearchDef(r'hello (\d+)', tag='t')
        try:
            for f in fs:
                for m in ms:
                    s = FileSearcher(max_parallel_tasks=m)
                    for p in paths[:f]:
                        s.add(sd, p)
                    assert len(s.files) == f
                    for c in cs:
                        S.os.cpu_count = (lambda c=c: c)
                        cases.append(f"({m}, {c}, {f})")
                        wants.append(s.num_parallel_tasks)
                        meta.append((m, c, f))
        finally:
            S.os.cpu_count = real
    finally:
        shutil.rmtree(d, ignore_errors=True)
    chk.dist('grid_cases', len(cases))
    return cases, wants, meta


def real_runs(chk):
    """ returns list of observations (dict) """
    from searchkit import FileSearcher, SearchDef
    import searchkit.search as S
    import searchkit.task as T
    rng = chk.rng
    if chk.quick:
        cfgs = [(0, 3, 16), (1, 5, 16), (2, 8, 16), (3, 17, 2), (8, 3, 16),
                (8, 1, 16), (4, 2, 1), (16, 17, 4), (0, 1, 4), (5, 5, 64),
                (2, 64, 16), (1, 56, 4), (3, 49, 16)]
    else:
        cfgs = [(m, f, c) for m in (0, 1, 2, 3, 5, 8, 16, 32)
                for f in (1, 2, 3, 5, 8, 17, 64)
                for c in (1, 2, 4, 16, 64)]
        rng.shuffle(cfgs)
        cfgs = cfgs[:90] + [(2, 64, 16), (1, 56, 4), (3, 49, 16), (32, 64, 64)]
    # runs in which one task fails / one worker dies: (m, f, c, fault)
    cfgs = [x + (None,) for x in cfgs]
    faults = [(2, 6, 16, 'raise'), (3, 9, 16, 'kill'), (0, 4, 16, 'raise'),
              (1, 5, 16, 'kill'), (2, 5, 16, 'vanish'), (4, 3, 16, 'vanish')]
    if not chk.quick:
        faults += [(m, f, 16, k) for m in (2, 4, 8) for f in (3, 17, 40)
                   for k in ('raise', 'kill')]
    cfgs += faults
    obs = []
    d = tempfile.mkdtemp(prefix='c18r_', dir=chk.work)
    real_cpu, real_exec, real_fork = os.cpu_count, T.SearchTask.execute, \
        os.fork
    try:
        paths = _mk_files(d, 64)
        rec = os.path.join(d, 'record')
        parent = os.getpid()
        forks = [0]

        def counting_fork():
            if os.getpid() == parent:
                forks[0] += 1
            return real_fork()

        fault = {'path': None, 'mode': None}

        def execute(self):
            fd = os.open(rec, os.O_WRONLY | os.O_APPEND | os.O_CREAT)
            os.write(fd, f"{os.getpid()} {self.info['path']}\n".encode())
            os.close(fd)
            if fault['path'] == self.info['path'] and os.getpid() != parent:
                if fault['mode'] == 'raise':
                    raise S.FileSearchException("injected task failure")
                if fault['mode'] == 'kill':
                    os.kill(os.getpid(), signal.SIGKILL)
            return real_exec(self)

        def on_alarm(*_):
            raise TimeoutError("run() did not return within 120 s")

        T.SearchTask.execute = execute
        os.fork = counting_fork
        for ci_, (m, f, c, fmode) in enumerate(cfgs):
            if os.path.exists(rec):
                os.unlink(rec)
            forks[0] = 0
            S.os.cpu_count = (lambda c=c: c)
            s = FileSearcher(max_parallel_tasks=m)
            s.add(SearchDef(r'hello (\d+)', tag='t'), os.path.join(d, '*'))
            # restrict to f files: register only the first f
            s = FileSearcher(max_parallel_tasks=m)
            # one or several searches per file (the dispatch must depend on
            # the number of FILES only)
            ndefs = 1 + (m + f + c) % 3
            sds = [SearchDef(r'hello (\d+)', tag=f't{j}')
                   for j in range(ndefs)]
            odd = ci_ % 3 == 1 and fmode is None
            if odd:
                # the same files reached through a non-normalised directory
                # spelling AND by path in that spelling: still one task each
                sub = os.path.join(d, 'sub')
                os.makedirs(sub, exist_ok=True)
                for p in paths[:f]:
                    q = os.path.join(sub, os.path.basename(p))
                    if not os.path.exists(q):
                        shutil.copy(p, q)
                for extra in os.listdir(sub):
                    if extra not in {os.path.basename(p) for p in paths[:f]}:
                        os.unlink(os.path.join(sub, extra))
                spelled = d + '/./sub'
                for sd_ in sds:
                    s.add(sd_, spelled)
                    for p in paths[:f]:
                        s.add(sd_, spelled + '/' + os.path.basename(p))
                expected_paths = sorted(spelled + '/' + os.path.basename(p)
                                        for p in paths[:f])
            else:
                for p in paths[:f]:
                    for sd_ in sds:
                        s.add(sd_, p)
                expected_paths = sorted(paths[:f])
            # catalog lookups are not registrations: asking for the source
            # id of paths nobody registered must not change the dispatch
            if ci_ % 2 == 0:
                for junk in ('/nonexistent/zzz.log', d + '/not-registered'):
                    try:
                        s.catalog.get_source_id(junk)
                    except Exception:  # noqa
                        pass
            fault['path'], fault['mode'] = None, None
            vanished = None
            if fmode == 'vanish':
                # a registered file disappears between add() and run()
                # (log rotation): its task fails in the worker
                vanished = expected_paths[(ci_ * 7 + 1) % f]
                os.rename(vanished, vanished + '.gone')
                fault['path'], fault['mode'] = vanished, 'none'
            elif fmode:
                fault['path'] = expected_paths[(ci_ * 7 + 1) % f]
                fault['mode'] = fmode
            exc = None
            old = signal.signal(signal.SIGALRM, on_alarm)
            signal.alarm(120)
            try:
                res = s.run()
            except BaseException as e:  # noqa
                if isinstance(e, (KeyboardInterrupt, SystemExit)):
                    raise
                exc, res = type(e).__name__, []
            finally:
                signal.alarm(0)
                signal.signal(signal.SIGALRM, old)
            S.os.cpu_count = real_cpu
            if vanished:
                os.rename(vanished + '.gone', vanished)
            lines = open(rec).read().split('\n')[:-1] \
                if os.path.exists(rec) else []
            pids = [int(x.split(' ', 1)[0]) for x in lines]
            ran = sorted(x.split(' ', 1)[1] for x in lines)
            obs.append({'m': m, 'f': f, 'c': c, 'fault': fmode, 'exc': exc,
                        'fault_path_runs': ran.count(fault['path']),
                        'at_most_once': len(set(ran)) == len(ran) and
                        set(ran) <= set(expected_paths),
                        'distinct_pids': len(set(pids)),
                        'in_process': set(pids) == {parent},
                        'forks_from_parent': forks[0],
                        'each_once': ran == expected_paths,
                        'odd_spelling': odd,
                        'results': len(res), 'defs': ndefs,
                        'completed': s.stats['jobs_completed'],
                        'total': s.stats['total_jobs']})
    finally:
        T.SearchTask.execute = real_exec
        os.fork = real_fork
        S.os.cpu_count = real_cpu
        shutil.rmtree(d, ignore_errors=True)
    return obs


def run(chk):
    chk.prove(PROPS)
    chk.coverage['rule'] = (
        "grid: (max_parallel_tasks, cpu_count, files) triples, the real "
        "property value vs the generated Gallina function and the spec, "
        "inside Coq; runs: real FileSearcher.run() with an execute() wrapper; "
        "non-trivial = a triple in which the binding component of the bound "
        "differs from the previous ones / a run with >= 2 files")
    cases, wants, meta = grid(chk)
    pre = ("From SK Require Import Gen.Exprs Spec.C18.\n"
           "Definition run_gen (x : Z * Z * Z) : jv := "
           "let '(m, c, f) := x in JZ (num_parallel_tasks m c f).\n"
           "Definition run_spec (x : Z * Z * Z) : jv := "
           "let '(m, c, f) := x in JZ (spec_workers m c f).\n")
    mism, errs = vlib.eval_cases(chk.work, 'grid_gen', '', pre, 'run_gen',
                                 cases, wants, shard=2000)
    mism2, errs2 = vlib.eval_cases(chk.work, 'grid_spec', '', pre,
                                   'run_spec', cases, wants, shard=2000)
    chk.coverage['evaluations'] += len(cases)
    binding = set()
    for (m, c, f), w in zip(meta, wants):
        em = m or 1
        binding.add((w == em, w == c, w == max(f, 1)))
    chk.coverage['distinct_nontrivial'] += len(set(meta))
    chk.dist('binding_patterns', len(binding))
    for e in errs + errs2:
        chk.broken.append({'obligation': 'correspondence grid (coqc)',
                           'why': e})
    for i, v in mism2:
        m, c, f = meta[i]
        if f >= 1 and wants[i] > min(m or 1, c, f):
            chk.violation(f"bound-exceeded m={m} c={c} f={f}",
                          {'max_parallel_tasks': m, 'cpu_count': c,
                           'files': f, 'impl_num_parallel_tasks': wants[i],
                           'bound': min(m or 1, c, f)})
        else:
            chk.violation(f"pool-size-differs m={m} c={c} f={f}",
                          {'max_parallel_tasks': m, 'cpu_count': c,
                           'files': f, 'impl_num_parallel_tasks': wants[i],
                           'spec': v}, witness=(f >= 1))
    if not mism2:
        for i, v in mism:
            m, c, f = meta[i]
            chk.violation(f"gen-vs-impl m={m} c={c} f={f}",
                          {'triple': meta[i], 'impl': wants[i], 'gen': v},
                          witness=False)
    chk.sample({'grid_case': meta[len(meta) // 2],
                'impl': wants[len(meta) // 2]})

    obs = real_runs(chk)
    chk.coverage['evaluations'] += len(obs)
    chk.coverage['traces_validated_against_impl'] += len(obs)
    chk.dist('real_runs', len(obs))
    for o in obs:
        m, f, c = o['m'], o['f'], o['c']
        bound = min(m or 1, c, f)
        chk.sample(o)
        if f >= 2:
            chk.coverage['distinct_nontrivial'] += 1
        if o['fault']:
            # a failing task / a dying worker: the run must end in
            # FileSearchException, having executed no task twice and used no
            # more processes than the bound
            chk.dist('fault_' + o['fault'])
            if o['exc'] not in (('FileSearchException', 'FileNotFoundError')
                                if o['fault'] == 'vanish'
                                else ('FileSearchException',)):
                chk.violation(f"fault-run-outcome {o['fault']} {o['exc']}", o)
            if not o['at_most_once'] or o['fault_path_runs'] != 1:
                chk.violation(f"task-executed-twice fault={o['fault']} "
                              f"m={m} f={f}", o)
            if o['distinct_pids'] > bound or \
                    o['forks_from_parent'] - 1 > bound:
                chk.violation(f"too-many-workers fault={o['fault']} m={m} "
                              f"f={f} c={c}", o)
            continue
        if o['exc']:
            chk.violation(f"unexpected-exception {o['exc']}", o)
            continue
        if not o['each_once']:
            chk.violation(f"task-not-once m={m} f={f} c={c}", o)
        if f == 1:
            if not o['in_process'] or o['forks_from_parent'] != 0:
                chk.violation(f"single-file-not-in-process m={m} c={c}", o)
        else:
            if o['distinct_pids'] > bound:
                chk.violation(f"too-many-workers m={m} f={f} c={c}", o)
            # forks from the parent: one manager + at most `bound` workers
            if o['forks_from_parent'] - 1 > bound:
                chk.violation(f"too-many-worker-processes m={m} f={f} c={c}",
                              o)
            if o['completed'] != f or o['total'] != f:
                chk.violation(f"jobs-count m={m} f={f} c={c}", o)
    chk.assumptions += [
        "ProcessPoolExecutor(max_workers=n) runs every submitted task "
        "exactly once on one of at most n worker processes (runtime "
        "contract; observed by the execute() wrapper, not proved)",
        "os.cpu_count() returns an integer >= 1"]
