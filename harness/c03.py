"""C03 - sequence search reports exactly the complete sections; none is lost.

Proofs (Props/C03.v): for every classified line list and every definition
shape the model's report equals the specification's sections, ids pairwise
distinct, parts in line order, earlier sections stable, several definitions
independent; the pre-D3 model is refuted on S,B,E,S,S,B,E.

T2 (this file): REAL runs.  A temporary file is written whose lines realise,
for each sequence definition registered on it, one of the eight classes
{-,S,E,SE,B,SB,EB,SEB}; SequenceSearchDef objects (end / body present or
not, end pattern matching '' or not, 1-6 per file, some sharing a tag, plus
a simple SearchDef) are registered with FileSearcher; the result of
find_sequence_sections / find_sequence_by_tag is canonicalised (sections by
first line; each a list of (linenumber, role from the tag suffix, capture);
section ids only checked for distinctness) and compared, INSIDE Coq, with
  * the model  report (seq_run sh lines)
  * the spec   spec_report sh lines
  * the joint model report (m_view k (m_run shapes lines)).
The oracle (which pattern matches which line and what it captures, and
whether the end pattern matches '') is tabulated with plain `re`, never
through searchkit.
"""
import itertools
import json
import os
import re
import shutil
import signal
import subprocess
import sys
import tempfile
import time

HERE = os.path.dirname(os.path.abspath(__file__))
if __name__ == '__main__':
    sys.path.insert(0, os.path.join(os.path.dirname(HERE), 'lib'))

import vlib  # noqa: E402

PROPS = ['Props/C03.v']

# letters used by the definition at position k of a file (all are \w)
LETTERS = [('S', 'E', 'B'), ('P', 'Q', 'R'), ('U', 'V', 'W'),
           ('S', 'E', 'B'), ('P', 'Q', 'R'), ('U', 'V', 'W')]
# (has_end, has_body, end matches '')
SHAPES = [(0, 0, 0), (0, 1, 0), (1, 0, 0), (1, 1, 0), (1, 0, 1), (1, 1, 1)]
# third component, kind of end pattern: 0 matches neither '' nor a blank line,
# 1 both, 2 a blank line only, 3 '' only
MORE_SHAPES = SHAPES + [(1, 0, 2), (1, 1, 2), (1, 0, 3), (1, 1, 3)]
ROLE = {'start': 0, 'body': 1, 'end': 2}
CLASS_NAMES = ['-', 'S', 'E', 'SE', 'B', 'SB', 'EB', 'SEB']


# --------------------------------------------------------------- patterns
def patterns(letters, shape):
    """ regexes of one definition: start, end (or None), body (or None).
    A line is "<letters> <a> <b> <c>": start captures a, end b, body c. """
    s, e, b = letters
    he, hb, ee = shape
    start = rf'^\w*{s}\w* (\d+) \d+ \d+'
    end = None
    if he:
        if ee == 1:
            # also matches the empty string (group 1 is then None) and a
            # blank line
            end = rf'^(?:\w*{e}\w* \d+ (\d+) \d+)?$'
        elif ee == 2:
            # matches a blank line ("\n") but NOT the empty string
            end = rf'^(?:\w*{e}\w* \d+ (\d+) \d+|\s+$)'
        elif ee == 3:
            # matches the empty string but NOT a blank line
            end = rf'^(?:\w*{e}\w* \d+ (\d+) \d+\n)?\Z'
        else:
            end = rf'^\w*{e}\w* \d+ (\d+) \d+'
    body = rf'^\w*{b}\w* \d+ \d+ (\d+)' if hb else None
    return start, end, body


def line_text(codes, letters_list, abc):
    """ codes[k]: class of this line for definition k (bit0 S, bit1 E,
    bit2 B, in that definition's letters) """
    if codes is None:
        return ''                      # a blank line
    word = ''
    for code, (s, e, b) in zip(codes, letters_list):
        for bit, ch in ((1, s), (2, e), (4, b)):
            if code & bit and ch not in word:
                word += ch
    return f"{word or 'x'} {abc[0]} {abc[1]} {abc[2]}"


def payload(m):
    if m is None:
        return None
    g = m.group(1)
    return -1 if g is None else int(g)


def tabulate(case):
    """ the oracle, with plain `re`: per definition the shape triple given to
    the model (end_empty: -2 no match / payload) and per line the class code
    and the captures.  Returns (shapes, lines) in the cases-file encoding. """
    texts = case['texts']
    shapes, per_def = [], []
    for k, d in enumerate(case['defs']):
        ps, pe, pb = patterns(LETTERS[d['letters']], d['shape'])
        rs = re.compile(ps)
        r_e = re.compile(pe) if pe else None
        rb = re.compile(pb) if pb else None
        # a part created with store_result_contents=False yields results
        # without content: its captures are seen as None (-1)
        ns = d.get('nostore', [0, 0, 0])
        ee = -2
        if r_e is not None:
            m = r_e.match('')
            if m:
                ee = -1 if ns[1] else payload(m)
        shapes.append((d['shape'][0], d['shape'][1], ee))
        col = []
        for i, t in enumerate(texts):
            last = (i == len(texts) - 1)
            line = t + ('' if last and not final_newline(case, texts)
                        else '\n')
            ms = rs.match(line)
            me = r_e.match(line) if r_e is not None else None
            mb = rb.match(line) if rb is not None else None
            code = (1 if ms else 0) | (2 if me else 0) | (4 if mb else 0)
            col.append((code,
                        (-1 if ns[0] else payload(ms)) if ms else 0,
                        (-1 if ns[1] else payload(me)) if me else 0,
                        (-1 if ns[2] else payload(mb)) if mb else 0))
        per_def.append(col)
    lines = [[per_def[k][i] for k in range(len(case['defs']))]
             for i in range(len(texts))]
    return shapes, lines


def coq_case(shapes, lines):
    sh = "[" + "; ".join(f"({a}, {b}, ({c}))" for a, b, c in shapes) + "]"
    ls = "[" + "; ".join(
        "[" + "; ".join(f"({q[0]}, {q[1]}, {q[2]}, {q[3]})" for q in row)
        + "]" for row in lines) + "]"
    return f"({sh}, {ls})"


PREAMBLE = r"""
From SK Require Import Model.Sequence Spec.Sequence.
Definition enc_item (i : item) : jv :=
  let '(ln, r, v) := i in
  JL [JZ ln; JZ (match r with RStart => 0 | RBody => 1 | REnd => 2 end); JZ v].
Definition enc_report (r : list (list item)) : jv :=
  JL (map (fun its => JL (map enc_item its)) r).
Definition case_t := (list (Z * Z * Z) * list (list (Z * Z * Z * Z)))%type.
Definition defs_of (c : case_t) : list shape := map mk_shape (fst c).
Definition lines_of_case (c : case_t) : list (list cline) :=
  map (map mk_line) (snd c).
Definition idxs (n : nat) : list nat := seq 0 n.
(* compact: per definition [model report; model = spec; joint model = model] *)
Definition run_compact (c : case_t) : jv :=
  let shapes := defs_of c in
  let l := lines_of_case c in
  let flat := m_run shapes l in
  JL (map (fun k =>
        let sh := nth k shapes (mk_shape (0, 0, -2)) in
        let mine := lines_of k l in
        let m := enc_report (report (seq_run sh mine)) in
        JL [m; JB (jv_eqb m (enc_report (spec_report sh mine)));
            JB (jv_eqb m (enc_report (report (m_view k flat))))])
      (idxs (length shapes))).
(* full: per definition [model; spec; joint model; legacy (pre-D3) model] *)
Definition run_full (c : case_t) : jv :=
  let shapes := defs_of c in
  let l := lines_of_case c in
  let flat := m_run shapes l in
  JL (map (fun k =>
        let sh := nth k shapes (mk_shape (0, 0, -2)) in
        let mine := lines_of k l in
        JL [enc_report (report (seq_run sh mine));
            enc_report (spec_report sh mine);
            enc_report (report (m_view k flat));
            enc_report (report (legacy_seq_run sh mine))])
      (idxs (length shapes))).
"""


# ------------------------------------------------------ the implementation
def canon_sections(secs):
    """ dict section id -> results  =>  sections by first line, each
    [[linenumber, role, capture], ...] in the order the results are listed;
    second value: structural problems found on the way """
    out, problems = [], []
    for sid, rs in secs.items():
        items = []
        for r in rs:
            if r.section_id != sid:
                problems.append('result filed under a foreign section id')
            suffix = (r.tag or '').rsplit('-', 1)[-1]
            v = r.get(1)
            items.append([r.linenumber, ROLE.get(suffix, 9),
                          -1 if v is None else int(v)])
        out.append(items)
    out.sort(key=lambda s: s[0][0] if s else -1)
    return out, problems


def build_searcher(case, paths, sds=None):
    from searchkit import FileSearcher, SearchDef, SequenceSearchDef
    fs = FileSearcher(max_parallel_tasks=case.get('max_parallel', 8))
    if sds is None:
        sds = []
        for d in case['defs']:
            ps, pe, pb = patterns(LETTERS[d['letters']], d['shape'])
            ns = d.get('nostore', [0, 0, 0])

            def part(pat, off):
                if off:
                    return SearchDef(pat, store_result_contents=False)
                return SearchDef(pat)
            sd = SequenceSearchDef(
                start=part(ps, ns[0]),
                body=part(pb, ns[2]) if pb else None,
                end=part(pe, ns[1]) if pe else None,
                tag=d['tag'])
            sds.append(sd)
    order = list(range(len(sds)))
    simple = None
    if case.get('simple'):
        simple = SearchDef(r'^(\w+) (\d+)', tag='simple')
    pos = case.get('simple_pos', 0)
    for p in paths:
        for j, k in enumerate(order):
            if simple is not None and j == pos:
                fs.add(simple, p)
            fs.add(sds[k], p)
            if case.get('dup'):
                # overlapping path specifications: the same definition
                # object registered once more against the same file
                fs.add(sds[k], p[:-1] + '[' + p[-1] + ']')
        if simple is not None and pos >= len(order):
            fs.add(simple, p)
    return fs, sds


def observe(case, results, sds, path=None, nlines=None):
    """ canonical observation of one file: per definition the sections; plus
    problems that can be judged on the implementation's output alone """
    per_def, problems, all_ids = [], [], []
    for sd in sds:
        secs = results.find_sequence_sections(sd, path)
        c, pr = canon_sections(secs)
        problems += pr
        per_def.append(c)
        all_ids += list(secs.keys())
    if len(set(all_ids)) != len(all_ids):
        problems.append('section id shared by two sections')
    # find_sequence_by_tag = union over the definitions carrying the tag
    for tag in sorted({d['tag'] for d in case['defs']}):
        merged, pr = canon_sections(results.find_sequence_by_tag(tag, path))
        want = []
        for d, c in zip(case['defs'], per_def):
            if d['tag'] == tag:
                want += c
        if sorted(merged) != sorted(want):
            problems.append(f'find_sequence_by_tag({tag}) differs from the '
                            'union of its definitions')
    return per_def, problems, all_ids


def final_newline(case, texts):
    """ the last line has its terminator (always, if it is a blank line) """
    return bool(texts) and (case.get('final_newline', True)
                            or texts[-1] == '')


def write_file(path, case, texts=None):
    texts = case['texts'] if texts is None else texts
    data = '\n'.join(texts)
    if final_newline(case, texts):
        data += '\n'
    with open(path, 'w', encoding='utf-8') as f:
        f.write(data)


def run_single(case, workdir):
    """ one file, in-process (FileSearcher._run_single) """
    path = os.path.join(workdir, 'seq.txt')
    sds = None
    if case.get('after_failure'):
        # history: the same definitions were used by a run that FAILED in
        # the middle of a section (undecodable bytes, strict decoding)
        bad = os.path.join(workdir, 'bad.txt')
        ll = [LETTERS[d['letters']] for d in case['defs']]
        with open(bad, 'wb') as f:
            f.write((line_text([1] * len(ll), ll, (1, 2, 3)) + '\n')
                    .encode() + b'\xff\xfe 1 2 3\n')
        fs0, sds = build_searcher(case, [bad])
        try:
            fs0.run()
        except Exception:  # pylint: disable=broad-except
            pass
    write_file(path, case)
    fs, sds = build_searcher(case, [path], sds)
    results = fs.run()
    if case.get('twice'):
        results = fs.run()           # definitions are reset per file (D4b)
    per_def, problems, _ = observe(case, results, sds, path,
                                   len(case['texts']))
    return per_def, problems


def run_mp_job(job, workdir):
    """ several files, multi-process; called in a child interpreter """
    vlib.impl_path_setup()
    paths = []
    for i, texts in enumerate(job['files']):
        p = os.path.join(workdir, f"mp{i}.txt")
        write_file(p, job, texts)
        paths.append(p)
    sds = None
    if job.get('prior_single'):
        # history: the same definition objects were first used by a search
        # that ran in-process (one file) and found sections
        prior = os.path.join(workdir, 'prior.txt')
        ll = [LETTERS[d['letters']] for d in job['defs']]
        nd = len(ll)
        write_file(prior, {}, [line_text([1] * nd, ll, (1, 2, 3)),
                               line_text([2] * nd, ll, (4, 5, 6)),
                               line_text([1] * nd, ll, (7, 8, 9))])
        fs0, sds = build_searcher(job, [prior])
        fs0.run()
    fs, sds = build_searcher(job, paths, sds)
    results = fs.run()
    out = {'files': [], 'problems': []}
    ids = []
    for p, texts in zip(paths, job['files']):
        case = dict(job, texts=texts)
        per_def, problems, file_ids = observe(case, results, sds, p,
                                              len(texts))
        out['files'].append(per_def)
        out['problems'] += problems
        ids += file_ids
    if len(set(ids)) != len(ids):
        out['problems'].append('section id shared across files')
    # without a path filter: every section of every file, none merged
    for sd in sds:
        n_all = len(results.find_sequence_sections(sd))
        n_sum = sum(len(results.find_sequence_sections(sd, p))
                    for p in paths)
        if n_all != n_sum:
            out['problems'].append('sections of different files merged')
    return out


def run_mp(job, workdir, timeout=60):
    """ run_mp_job in its own interpreter and process group, hard timeout,
    children reaped; nothing is piped """
    jobfile = os.path.join(workdir, 'mpjob.json')
    outfile = os.path.join(workdir, 'mpout.json')
    with open(jobfile, 'w', encoding='utf-8') as f:
        json.dump(job, f)
    if os.path.exists(outfile):
        os.unlink(outfile)
    env = dict(os.environ, VERIF_REPO=vlib.REPO)
    with open(os.path.join(workdir, 'mp.log'), 'w') as logf:
        p = subprocess.Popen([sys.executable, os.path.abspath(__file__),
                              '--mp', jobfile, outfile, workdir],
                             stdout=logf, stderr=logf, env=env,
                             start_new_session=True)
        try:
            rc = p.wait(timeout=timeout)
        except subprocess.TimeoutExpired:
            rc = None
        try:
            os.killpg(p.pid, signal.SIGKILL)
        except (ProcessLookupError, PermissionError):
            pass
        if rc is None:
            p.wait()
            return None, 'timeout'
    if rc != 0 or not os.path.exists(outfile):
        with open(os.path.join(workdir, 'mp.log'), errors='replace') as f:
            return None, f"rc={rc}: {f.read()[-600:]}"
    with open(outfile, encoding='utf-8') as f:
        return json.load(f), None


# ------------------------------------------------------------- generators
def mk_case(defs, codes_rows, rng=None, cr_rows=None, **kw):
    """ codes_rows[i][k] = class of line i+1 for definition k;
    cr_rows[i] = (kind, codes): line i gets a carriage return - kind 0/1:
    "<line>\\r<second text>" (kind 1: the first part is filler), kind 2: the
    line ends with '\\r' (a '\\r\\n' terminator) """
    letters_list = [LETTERS[d['letters']] for d in defs]
    texts = []
    codes_rows = list(codes_rows)
    # the insertion of blank rows (by the caller) happens after cr_rows was
    # drawn: re-locate the marked rows among the non-blank ones
    nonblank = [i for i, r in enumerate(codes_rows) if r is not None]
    cr = {}
    for j, v in (cr_rows or {}).items():
        if int(j) < len(nonblank):
            cr[nonblank[int(j)]] = v
    for i, row in enumerate(codes_rows):
        if rng is None:
            abc = (3 * (i + 1), 3 * (i + 1) + 1, 3 * (i + 1) + 2)
        else:
            abc = (rng.randrange(1000), rng.randrange(1000),
                   rng.randrange(1000))
        t = line_text(row, letters_list, abc)
        if i in cr:
            kind, tail = cr[i]
            if kind == 2:
                t = t + '\r'
            else:
                first = 'x 7 7 7' if kind == 1 else t
                t = first + '\r' + line_text(tail, letters_list,
                                             (abc[2], abc[0], abc[1]))
            codes_rows[i] = None       # no class was "meant" for this line
        texts.append(t)
    case = {'defs': defs, 'texts': texts,
            'codes': [None if r is None else list(r) for r in codes_rows]}
    case.update(kw)
    return case


def exhaustive_cases(maxlen):
    """ every word over the 8 classes up to maxlen, read by six definitions
    (all shapes, same letters, so the same word for each) in one file """
    defs = [{'letters': 0, 'shape': list(sh), 'tag': f"t{k}"}
            for k, sh in enumerate(SHAPES)]
    for n in range(1, maxlen + 1):
        for w in itertools.product(range(8), repeat=n):
            yield mk_case(defs, [[c] * len(defs) for c in w], None,
                          kind='exhaustive')


WEIGHTS = [30, 16, 16, 6, 16, 6, 6, 4]       # classes -,S,E,SE,B,SB,EB,SEB


def random_case(rng, maxlen=40):
    nd = rng.choice([1, 1, 2, 2, 3, 3])
    defs = []
    for k in range(nd):
        tag = rng.choice(['ta', 'tb']) if rng.random() < 0.5 else f"t{k}"
        d = {'letters': k, 'shape': list(rng.choice(MORE_SHAPES)),
             'tag': tag}
        if rng.random() < 0.3:
            # parts that do not store what they matched (start, end, body)
            d['nostore'] = [int(rng.random() < 0.5) for _ in range(3)]
        defs.append(d)
    n = rng.choice([rng.randrange(1, 8), rng.randrange(5, 20),
                    rng.randrange(min(10, maxlen), maxlen + 1)])
    # per definition its own bias: dense starts / dense ends / sparse
    biases = []
    for _ in range(nd):
        w = list(WEIGHTS)
        mode = rng.randrange(4)
        if mode == 1:
            w[1] *= 3; w[3] *= 3
        elif mode == 2:
            w[2] *= 3; w[6] *= 2
        elif mode == 3:
            w[0] *= 3
        biases.append(w)
    rows = [[rng.choices(range(8), weights=biases[k])[0] for k in range(nd)]
            for _ in range(n)]
    cr_rows = {}
    if rng.random() < 0.25:
        # a bare carriage return inside a physical line (progress bars,
        # console tools): still ONE line; what follows the '\r' may look
        # like a start / end / body line.  Also '\r\n' terminators.
        for _ in range(rng.randrange(1, 4)):
            i = rng.randrange(0, len(rows))
            kind = rng.randrange(3)
            tail = [rng.choices(range(8), weights=WEIGHTS)[0]
                    for _ in range(nd)]
            cr_rows[i] = (kind, tail)
    if rng.random() < 0.3:
        # blank lines: an end pattern may match them, or '' only, or both
        for _ in range(rng.randrange(1, 4)):
            rows.insert(rng.randrange(0, len(rows) + 1), None)
    return mk_case(defs, rows, rng, kind='random', cr_rows=cr_rows,
                   dup=rng.random() < 0.15,
                   after_failure=rng.random() < 0.06,
                   simple=rng.random() < 0.5,
                   simple_pos=rng.randrange(0, nd + 1),
                   final_newline=rng.random() < 0.8,
                   twice=rng.random() < 0.1)


# regression corpus: the D3 witness and relatives (run first)
def corpus_cases():
    S, E, B, SE = 1, 2, 4, 3
    words = [[S, B, E, S, S, B, E], [S, B, E, S, B, S, E, S, B, B, E],
             [S, E, S, E, S, S, E], [S, B, S], [SE, SE, E], [S, B, B],
             [E, B, S, B, SE, B, E, S]]
    defs = [{'letters': 0, 'shape': list(sh), 'tag': f"t{k}"}
            for k, sh in enumerate(SHAPES)]
    for w in words:
        yield mk_case(defs, [[c] * len(defs) for c in w], None,
                      kind='corpus')
        yield mk_case(defs, [[c] * len(defs) for c in w], None,
                      kind='corpus', twice=True)
    # the same definition registered twice against the file; lines with a
    # carriage return in the middle / '\r\n' terminators
    for w in [[S, B, E, S, B], [S, B, B, S]]:
        rows = [[c] * len(defs) for c in w]
        yield mk_case(defs, rows, None, kind='corpus', dup=True)
        yield mk_case(defs, rows, None, kind='corpus',
                      cr_rows={1: (1, [S] * len(defs)),
                               2: (0, [E] * len(defs))})
        yield mk_case(defs, rows, None, kind='corpus',
                      cr_rows={0: (2, None), 3: (1, [E] * len(defs))})
    # end patterns that tell '' from a blank line; parts that do not store
    # their contents; definitions reused after a failed run
    defs2 = [{'letters': 0, 'shape': list(sh), 'tag': f"t{k}"}
             for k, sh in enumerate(MORE_SHAPES)]
    for w in [[S, B], [S, B, None], [S, None, B], [None, S, B, None, S],
              [S, B, E, S, S, B, E, S, B]]:
        rows = [None if c is None else [c] * len(defs2) for c in w]
        yield mk_case(defs2, rows, None, kind='corpus')
        yield mk_case(defs2, rows, None, kind='corpus', after_failure=True)
        for ns in ([1, 0, 0], [0, 1, 0], [0, 0, 1], [1, 1, 1]):
            yield mk_case([dict(d, nostore=ns) for d in defs2], rows, None,
                          kind='corpus')


# coverage statistics only (never used for a verdict)
def boundary_classes(shape, codes, nlines, sections):
    he, hb, ee = shape
    out = set()
    open_ = False
    for c in codes:
        s, e = c & 1, c & 2
        if open_ and s and he:
            out.add('restart-inside-open-section')
        if s and e:
            out.add('line-matches-start-and-end')
        if s:
            if open_ and not he:
                out.add('noend-closed-by-next-start')
            open_ = True
        elif open_ and he and e:
            open_ = False
    if open_:
        out.add('open-at-eof:' + ('no-end-kept' if not he else
                                  ('completed-by-empty-end' if ee in (1, 3)
                                   else 'dropped')))
    if any(it[1] == 1 for s in sections for it in s):
        out.add('section-with-body')
    if len(sections) >= 2:
        out.add('several-sections')
    return out


# ------------------------------------------------------------------ check
def sig_of(case, k):
    sh = case['defs'][k]['shape']
    return (f"sequence-sections-differ end={sh[0]} body={sh[1]} "
            f"end-matches-empty={sh[2]} defs={len(case['defs'])}")


def check_cases(chk, cases, tag):
    """ run the implementation on every case, evaluate model/spec in Coq,
    report.  Returns number of (definition, file) comparisons. """
    d = tempfile.mkdtemp(prefix='c03_', dir=chk.work)
    coq_cases, wants, metas = [], [], []
    if not hasattr(chk, 'c03_seen'):
        chk.c03_seen = set()
    seen = chk.c03_seen
    before = len(seen)
    try:
        for case in cases:
            try:
                per_def, problems = run_single(case, d)
            except Exception as exc:  # pylint: disable=broad-except
                chk.violation('implementation-raised ' + type(exc).__name__,
                              {'case': case, 'exception': repr(exc)})
                continue
            shapes, lines = tabulate(case)
            # generator sanity: the oracle sees the classes we meant
            if 'codes' in case:
                # (a last line without terminator may legitimately be seen
                # differently by an end pattern that looks at the "\n")
                keep = [i for i, row in enumerate(case['codes'])
                        if row is not None and
                        (i < len(case['codes']) - 1 or
                         final_newline(case, case['texts']))]
                meant = [case['codes'][i] for i in keep]
                got = [[q[0] & ((1 | (2 if sh[0] else 0) | (4 if sh[1] else
                        0))) for q, sh in zip(lines[i], shapes)]
                       for i in keep]
                want_codes = [[c & ((1 | (2 if sh[0] else 0) | (4 if sh[1]
                               else 0))) for c, sh in zip(row, shapes)]
                              for row in meant]
                if got != want_codes:
                    chk.broken.append({'obligation': 'generator/oracle '
                                       'sanity', 'why': f"{case['texts']}"})
            for pr in problems:
                chk.violation('sequence-structure ' + pr.split('(')[0],
                              {'case': case, 'problem': pr,
                               'observed': per_def})
            coq_cases.append(coq_case(shapes, lines))
            wants.append([[c, 1, 1] for c in per_def])
            metas.append((case, shapes, per_def))
            if case.get('kind') in ('corpus', 'random') and \
                    len(case['texts']) <= 12 and any(per_def) and \
                    not case.get('twice') and \
                    (case['kind'] == 'random' or
                     not chk.coverage['samples']):
                chk.sample({'kind': case['kind'], 'lines': case['texts'],
                            'definitions(has_end,has_body,end_on_empty)':
                                shapes,
                            'implementation_sections': per_def}, limit=5)
            for k, dd in enumerate(case['defs']):
                codes = tuple(row[k] for row in lines_codes(lines))
                key = (tuple(dd['shape']), codes)
                nontrivial = any(c & 1 for c in codes)
                if nontrivial and key not in seen:
                    seen.add(key)
                for b in boundary_classes(dd['shape'], codes,
                                          len(case['texts']), per_def[k]):
                    chk.dist(b)
                chk.dist('class-lines', len(codes))
            chk.dist(f"defs-per-file={len(case['defs'])}")
            chk.dist('len-bucket=' + bucket(len(case['texts'])))
            if case.get('twice'):
                chk.dist('second-run-of-same-searcher')
            if case.get('after_failure'):
                chk.dist('definitions-reused-after-failed-run')
            if case.get('dup'):
                chk.dist('definition-registered-twice-on-the-file')
            if any('\r' in t for t in case['texts']):
                chk.dist('file-with-carriage-returns')
            if '' in case['texts']:
                chk.dist('file-with-blank-lines')
            for dd in case['defs']:
                if dd['shape'][0] and dd['shape'][2] >= 2:
                    chk.dist("end-pattern-tells-''-from-blank-line")
                if any(dd.get('nostore', [])):
                    chk.dist('part-with-store_result_contents=False')
            if len({x['tag'] for x in case['defs']}) < len(case['defs']):
                chk.dist('shared-tag')
    finally:
        shutil.rmtree(d, ignore_errors=True)
    n = judge(chk, tag, coq_cases, wants, metas)
    chk.coverage['distinct_nontrivial'] += len(seen) - before
    return n


def lines_codes(lines):
    return [[q[0] for q in row] for row in lines]


def bucket(n):
    for b in (2, 5, 10, 20, 40):
        if n <= b:
            return f"<={b}"
    return '>40'


def judge(chk, tag, coq_cases, wants, metas):
    """ in-Coq evaluation of model, spec and joint model on the cases; a
    disagreement with the SPEC is a witness """
    if not coq_cases:
        return 0
    mism, errs = vlib.eval_cases(chk.work, tag, '', PREAMBLE, 'run_compact',
                                 coq_cases, wants, shard=400)
    for e in errs:
        chk.broken.append({'obligation': f'correspondence {tag} (coqc)',
                           'why': e})
    n = sum(len(w) for w in wants)
    chk.coverage['evaluations'] += n
    chk.coverage['traces_validated_against_impl'] += len(wants)
    if not mism:
        return n
    bad = sorted({i for i, _ in mism if i >= 0})
    if any(i < 0 for i, _ in mism):
        chk.broken.append({'obligation': f'correspondence {tag}',
                           'why': 'length mismatch in cases file'})
    bad = bad[:40]
    # wanted value None: every case "differs", so its value comes back
    full, errs = vlib.eval_cases(chk.work, tag + '_full', '', PREAMBLE,
                                 'run_full', [coq_cases[i] for i in bad],
                                 [None] * len(bad), shard=50)
    for e in errs:
        chk.broken.append({'obligation': f'correspondence {tag}_full (coqc)',
                           'why': e})
    vals = dict(full)
    for j, i in enumerate(bad):
        case, shapes, per_def = metas[i]
        v = vals.get(j)
        if v is None:
            continue
        for k, impl in enumerate(per_def):
            model, spec, joint, legacy = v[k]
            detail = {'case': case, 'definition': k,
                      'shape(has_end,has_body,end_on_empty)': shapes[k],
                      'classes': [CLASS_NAMES[row[k]] for row in
                                  lines_codes(tabulate(case)[1])],
                      'implementation': impl, 'spec': spec, 'model': model,
                      'joint_model': joint}
            if impl != spec:
                if impl == legacy:
                    detail['note'] = ('implementation behaves like the '
                                      'pre-D3 model (restart drops every '
                                      'section)')
                chk.violation(sig_of(case, k), detail, witness=True)
            elif model != impl or joint != impl:
                chk.violation('model-vs-implementation ' + sig_of(case, k),
                              detail, witness=False)
    return n


def mp_runs(chk, njobs):
    rng = chk.rng
    d = tempfile.mkdtemp(prefix='c03mp_', dir=chk.work)
    coq_cases, wants, metas = [], [], []
    try:
        for j in range(njobs):
            base = random_case(rng, maxlen=25)
            nd = len(base['defs'])
            nfiles = rng.choice([2, 2, 3])
            files = []
            for _ in range(nfiles):
                n = rng.randrange(1, 25)
                rows = [[rng.choices(range(8), weights=WEIGHTS)[0]
                         for _ in range(nd)] for _ in range(n)]
                files.append(mk_case(base['defs'], rows, rng)['texts'])
            if j == 0:
                # an open section at the end of one file must not leak into
                # the next file searched with the same definitions
                ll = [LETTERS[x['letters']] for x in base['defs']]
                files[0] = [line_text([1] * nd, ll, (1, 2, 3))]
                files[1] = [line_text([2] * nd, ll, (4, 5, 6)),
                            line_text([1] * nd, ll, (7, 8, 9)),
                            line_text([2] * nd, ll, (10, 11, 12))]
            prior = (j % 2 == 1)
            if j == 1:
                # every file has a complete section for every definition
                ll = [LETTERS[x['letters']] for x in base['defs']]
                for fi in range(len(files)):
                    files[fi] = [line_text([1] * nd, ll, (1, 2, 3 + fi)),
                                 line_text([4] * nd, ll, (4, 5, 6)),
                                 line_text([2] * nd, ll, (7, 8, 9))] + \
                        files[fi]
            job = {'defs': base['defs'], 'files': files,
                   'prior_single': prior,
                   'simple': base.get('simple'),
                   'simple_pos': base.get('simple_pos', 0),
                   'final_newline': base.get('final_newline', True),
                   'max_parallel': rng.choice([1, 2, 8])}
            out, err = run_mp(job, d)
            if out is None:
                chk.violation('multi-file-run-failed',
                              {'job': job, 'error': err}, witness=False)
                continue
            chk.dist('two-or-more-files-multiprocess')
            if prior:
                chk.dist('parallel-run-after-in-process-use-of-definitions')
            for pr in out['problems']:
                chk.violation('sequence-structure ' + pr.split('(')[0],
                              {'job': job, 'problem': pr,
                               'observed': out['files']})
            for texts, per_def in zip(files, out['files']):
                case = dict(job, texts=texts, kind='mp')
                case.pop('files')
                shapes, lines = tabulate(case)
                coq_cases.append(coq_case(shapes, lines))
                wants.append([[c, 1, 1] for c in per_def])
                metas.append((case, shapes, per_def))
    finally:
        shutil.rmtree(d, ignore_errors=True)
    return judge(chk, 'mp', coq_cases, wants, metas)


def many_sections(chk, nlines):
    """ one file, very many sections: two definitions without an end, every
    line matches the start of both.  By C03_noend_one_section_per_start each
    must report exactly one section per line, and every section must have
    its own id - judged directly on the implementation's output (no Coq
    evaluation of a list this long).  Section ids that are not collision
    free (e.g. truncated uuids) show up here as merged sections. """
    from searchkit import FileSearcher, SearchDef, SequenceSearchDef
    d = tempfile.mkdtemp(prefix='c03big_', dir=chk.work)
    try:
        path = os.path.join(d, 'big.txt')
        with open(path, 'w', encoding='utf-8') as f:
            f.write(''.join(f"SP {i % 997} 2 3\n" for i in range(nlines)))
        fs = FileSearcher()
        sds = [SequenceSearchDef(start=SearchDef(r'^\w*S\w* (\d+) \d+ \d+'),
                                 tag='big0'),
               SequenceSearchDef(start=SearchDef(r'^\w*P\w* (\d+) \d+ \d+'),
                                 tag='big1')]
        for sd in sds:
            fs.add(sd, path)
        results = fs.run()
        ids = []
        for k, sd in enumerate(sds):
            secs = results.find_sequence_sections(sd, path)
            ids += list(secs.keys())
            merged = [(sid, [r.linenumber for r in rs])
                      for sid, rs in secs.items() if len(rs) != 1]
            lns = sorted(r.linenumber for rs in secs.values() for r in rs)
            if len(secs) != nlines or merged or \
                    lns != list(range(1, nlines + 1)):
                chk.violation(
                    'sequence-sections-differ many-sections end=0',
                    {'big': nlines, 'definition': k,
                     'file': f"{nlines} lines 'SP <i mod 997> 2 3'; "
                             "definition without end: one section per line "
                             "(C03_noend_one_section_per_start)",
                     'sections_expected': nlines,
                     'sections_reported': len(secs),
                     'results_reported': len(lns),
                     'sections_with_more_than_a_start': merged[:5]})
        if len(set(ids)) != len(ids):
            chk.violation('sequence-structure section id shared by two '
                          'sections many-sections',
                          {'big': nlines, 'ids': len(ids),
                           'distinct_ids': len(set(ids))})
    finally:
        shutil.rmtree(d, ignore_errors=True)
    chk.coverage['evaluations'] += 2
    chk.coverage['traces_validated_against_impl'] += 1
    chk.dist('many-sections-run(sections)', 2 * nlines)


def run(chk):
    chk.prove(PROPS)
    t0 = time.time()
    chk.coverage['rule'] = (
        "a case = one real file searched by 1-6 SequenceSearchDef (shapes: "
        "end/body present or not, end matching '' or not); each line "
        "realises one of the classes -,S,E,SE,B,SB,EB,SEB per definition; "
        "streams: regression corpus (D3 witness), every word up to length "
        "4 (quick) / 5 (thorough) for all six shapes, random words up to "
        "length 40 with 1-3 definitions (own letters, some sharing a tag, "
        "simple search mixed in, optional missing final newline, second "
        "run of the same searcher, blank lines, end patterns matching '' "
        "and/or a blank line (four kinds), start/end/body parts created "
        "with store_result_contents=False, definitions reused after a run "
        "that failed mid-section with UnicodeDecodeError), multi-file "
        "multi-process runs, one run with 300 000 (quick) / 800 000 "
        "(thorough) one-line sections whose number and ids are judged "
        "directly (ids that are not collision free merge sections); an "
        "evaluation = one (definition, file) comparison of the "
        "implementation with model, spec and joint model inside Coq; "
        "non-trivial = the definition's start matches at least one line; "
        "distinct = by (shape, class word)")
    n = check_cases(chk, list(corpus_cases()), 'corpus')
    n += check_cases(chk, exhaustive_cases(4 if chk.quick else 5), 'exh')
    nrand = 2000 if chk.quick else 8000
    n += check_cases(chk, [random_case(chk.rng) for _ in range(nrand)],
                     'rnd')
    n += mp_runs(chk, 8 if chk.quick else 30)
    many_sections(chk, 150000 if chk.quick else 400000)
    chk.coverage['distribution']['harness_seconds'] = round(
        time.time() - t0, 1)
    chk.assumptions += [
        "uuid4 values do not collide (section ids are modelled as fresh "
        "counter values)",
        "Python's re is deterministic and searchkit passes it the decoded "
        "line unchanged (oracle tabulated with plain re by the harness)",
        "a result's role is read from its tag suffix (-start/-body/-end), "
        "its captures with result.get(1)"]


def replay(chk, path):
    with open(path, encoding='utf-8') as f:
        rep = json.load(f)
    w = rep.get('witness', {})
    chk.prove(PROPS)
    if 'big' in w:
        many_sections(chk, int(w['big']))
    elif 'case' in w:
        check_cases(chk, [w['case']], 'replay')
    elif 'job' in w:
        job = w['job']
        d = tempfile.mkdtemp(prefix='c03mp_', dir=chk.work)
        try:
            out, err = run_mp(job, d)
        finally:
            shutil.rmtree(d, ignore_errors=True)
        if out is None:
            chk.violation('multi-file-run-failed', {'job': job, 'error': err},
                          witness=False)
        else:
            for pr in out['problems']:
                chk.violation('sequence-structure ' + pr.split('(')[0],
                              {'job': job, 'problem': pr,
                               'observed': out['files']})
        for texts in job['files']:
            case = dict(job, texts=texts)
            case.pop('files')
            check_cases(chk, [case], 'replay')
    return chk.finish()


if __name__ == '__main__':
    if len(sys.argv) == 5 and sys.argv[1] == '--mp':
        with open(sys.argv[2], encoding='utf-8') as fh:
            JOB = json.load(fh)
        OUT = run_mp_job(JOB, sys.argv[4])
        with open(sys.argv[3] + '.tmp', 'w', encoding='utf-8') as fh:
            json.dump(OUT, fh)
        os.replace(sys.argv[3] + '.tmp', sys.argv[3])
        sys.exit(0)
    sys.exit(2)
