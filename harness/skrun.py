"""Helpers to run the real searchkit on a recipe (see sk_child.py): in this
process, or in a fresh interpreter with its own process group and a hard
wall-clock limit, reaping everything afterwards."""
import gzip
import json
import os
import signal
import subprocess
import sys
import tempfile
import time

import vlib

HERE = os.path.dirname(os.path.abspath(__file__))


def materialise(base, files):
    """ files: {relative name: bytes | (bytes, gzspec)} where gzspec is
    None (plain) or {'level': 1..9, 'cuts': [offsets]} (multi-member gzip:
    the content is split at the cut offsets, each part its own member). """
    os.makedirs(base, exist_ok=True)
    for name, spec in files.items():
        data, gz = spec if isinstance(spec, tuple) else (spec, None)
        path = os.path.join(base, name)
        os.makedirs(os.path.dirname(path), exist_ok=True)
        with open(path, 'wb') as f:
            if gz is None:
                f.write(data)
            else:
                if gz.get('with_name'):
                    # written the way gzip(1) / gzip.open() write it: the
                    # header carries the original file name (FLG.FNAME set)
                    with gzip.GzipFile(filename=gz['with_name'], mode='wb',
                                       fileobj=f, compresslevel=gz.get(
                                           'level', 6)) as g:
                        g.write(data)
                    continue
                cuts = [0] + sorted(gz.get('cuts', [])) + [len(data)]
                for a, b in zip(cuts, cuts[1:]):
                    if b > a or len(cuts) == 2:
                        kw = {}
                        if gz.get('mtime') is not None:
                            kw['mtime'] = gz['mtime']   # header MTIME field
                        f.write(gzip.compress(data[a:b],
                                              compresslevel=gz.get('level',
                                                                   6), **kw))
                    if gz.get('empty_first') and a == 0:
                        f.write(gzip.compress(b''))
                        gz = dict(gz, empty_first=False)
                if gz.get('empty_last'):
                    # a member holding no data at the END (a log re-opened
                    # for appending and closed again): same stream
                    f.write(gzip.compress(b''))


def kill_group(pgid):
    try:
        os.killpg(pgid, signal.SIGKILL)
    except (ProcessLookupError, PermissionError):
        pass


def run_fresh(recipe, timeout=60, workdir=None):
    """ run the recipe in a fresh interpreter; returns dict with 'obs' (list
    or None), 'timeout' (bool), 'rc', 'wall', 'err' """
    base = workdir or recipe.get('dir') or recipe['batch'][0]['dir']
    fd, path = tempfile.mkstemp(prefix='recipe_', suffix='.json', dir=base)
    with os.fdopen(fd, 'w') as f:
        json.dump(recipe, f)
    env = dict(os.environ, SK_REPO=vlib.REPO, PYTHONHASHSEED='0')
    env.pop('PYTHONPATH', None)
    out_path = path + '.out'
    t0 = time.time()
    with open(out_path, 'wb') as out:
        p = subprocess.Popen([sys.executable,
                              os.path.join(HERE, 'sk_child.py'), path],
                             stdout=out, stderr=subprocess.STDOUT, env=env,
                             start_new_session=True, cwd=base)
        timed_out = False
        try:
            rc = p.wait(timeout=timeout)
        except subprocess.TimeoutExpired:
            timed_out = True
            rc = None
        kill_group(p.pid)
        try:
            p.wait(timeout=10)
        except subprocess.TimeoutExpired:
            pass
    wall = time.time() - t0
    with open(out_path, 'rb') as f:
        text = f.read().decode('utf-8', 'replace')
    obs = None
    for line in text.splitlines():
        if line.startswith('@@OBS@@'):
            try:
                obs = json.loads(line[len('@@OBS@@'):])
            except ValueError:
                pass
    for q in (path, out_path):
        try:
            os.unlink(q)
        except OSError:
            pass
    started = [int(x[len('@@START@@'):]) for x in text.splitlines()
               if x.startswith('@@START@@')]
    return {'obs': obs, 'timeout': timed_out, 'rc': rc, 'wall': wall,
            'last_started': started[-1] if started else None,
            'err': None if obs is not None else text[-1500:]}


def run_here(recipe):
    """ run in this process (fast; single-file runs never fork) """
    sys.path.insert(0, HERE)
    import resource
    import sk_child
    # a changed tree may make a run grow without bound (e.g. state shared
    # between runs that doubles): cap the address space for the duration of
    # the run so that it ends in a MemoryError observation, not in the OOM
    # killer taking the whole check down
    soft, hard = resource.getrlimit(resource.RLIMIT_AS)
    try:
        with open('/proc/self/statm') as f:
            cur = int(f.read().split()[0]) * resource.getpagesize()
        cap = cur + (3 << 30)
        if hard != resource.RLIM_INFINITY:
            cap = min(cap, hard)
        resource.setrlimit(resource.RLIMIT_AS, (cap, hard))
    except (OSError, ValueError):
        pass
    try:
        return sk_child.execute(recipe)
    finally:
        try:
            resource.setrlimit(resource.RLIMIT_AS, (soft, hard))
        except (OSError, ValueError):
            pass
