"""Random whole-run recipes (files + definitions + constraints) for the
whole-run checks C08 / C12 / C13 / C17, and the expected observation of a
run computed by the Coq whole-run model (Model/Run.v) from oracle tables.

Every definition gets a unique tag, so results can be grouped per
definition on both sides."""
import re

import gen_logs as G


def gen_defs(rng, ncons, nsimple=None, nseq=None, allow_cons=True,
             typed=False):
    """ returns list of def recipes (see sk_child.py) """
    defs = []
    nsimple = rng.randint(1, 3) if nsimple is None else nsimple
    nseq = rng.randint(0, 2) if nseq is None else nseq
    for i in range(nsimple):
        pats, hint = rng.choice(G.SIMPLE_POOL)
        d = {'kind': 'simple', 'patterns': list(pats), 'tag': f's{i}',
             'hint': hint, 'store': rng.random() < 0.9, 'constraints': []}
        if allow_cons and ncons and rng.random() < 0.35:
            d['constraints'] = sorted(rng.sample(range(ncons),
                                                 rng.randint(1, min(2, ncons))))
        if typed and pats == [r'^\S+ \S+ (\w+) (\d+)?'] \
                and rng.random() < 0.7:
            # a typed field on an optional group that often does not match
            d['field_types'] = {'word': 'str',
                                'num': rng.choice(['int', 'float', 'str'])}
        defs.append(d)
    for i in range(nseq):
        st, bo, en = rng.choice(G.SEQ_POOL)

        def sd(p):
            return None if p is None else {
                'kind': 'simple', 'patterns': [p], 'tag': None, 'hint': None,
                'store': True, 'constraints': []}
        d = {'kind': 'seq', 'tag': f'q{i}', 'start': sd(st), 'body': sd(bo),
             'end': sd(en), 'constraints': []}
        if allow_cons and ncons and rng.random() < 0.25:
            d['constraints'] = [rng.randrange(ncons)]
        defs.append(d)
    return defs


def gen_constraints(rng, n, data_hint=None):
    """ constraint recipes whose boundary falls around the timestamps of
    the generated logs (2022-01-09 .. 2022-01-1x) """
    out = []
    for _ in range(n):
        day = rng.randint(9, 14)
        cur = f"2022-01-{day:02d} {rng.randrange(24):02d}:" \
              f"{rng.choice([0, 0, 30, 59]):02d}:{rng.choice([0, 0, 1, 59]):02d}"
        r = rng.random()
        if r < 0.2:
            out.append({'current': cur, 'use_defaults': True})
        elif r < 0.6:
            out.append({'current': cur, 'days': 0,
                        'hours': rng.choice([1, 2, 24, 25, 48, 100])})
        else:
            out.append({'current': cur, 'days': rng.choice([1, 2, 3, 400]),
                        'hours': rng.choice([0, 5, 24])})
    return out


# ------------------------------------------------------------ oracle tables
def compile_def(d):
    if d['kind'] == 'simple':
        return {'pats': [re.compile(p) for p in d['patterns']],
                'hint': re.compile(d['hint']) if d.get('hint') else None}
    return {k: compile_def(d[k]) if d.get(k) else None
            for k in ('start', 'body', 'end')}


class Interner:
    """ python values -> small ints (equal values, equal ints) """
    def __init__(self):
        self.ids = {}
        self.vals = []

    def __call__(self, v):
        if v not in self.ids:
            self.ids[v] = len(self.vals)
            self.vals.append(v)
        return self.ids[v]


def sd_run(cd, text):
    """ SearchDef.run by plain re: match object or None """
    if cd['hint'] is not None and not cd['hint'].search(text):
        return None
    for p in cd['pats']:
        m = p.match(text)
        if m:
            return m
    return None


def cast_parts(d, parts):
    """ apply the definition's declared field types the way the oracle
    expects them to read back (canonicalised like sk_child does) """
    ft = d.get('field_types')
    if not ft:
        return [v for _, v in parts]
    names = list(ft)
    types = {'int': int, 'str': str, 'float': float, None: None}
    out = []
    for idx, v in parts:
        t = types[ft[names[idx - 1]]] if 1 <= idx <= len(names) else None
        if v is not None and t is not None:
            v = t(v)
        out.append(v if isinstance(v, (int, str, type(None))) else repr(v))
    return out


def parts_of(m, store):
    """ [(part index, value)] as SearchResult.store_result would keep """
    if not store:
        return []
    if m.groups():
        return [(i + 1, g) for i, g in enumerate(m.groups())]
    return [(0, m.group(0))]
