"""C04 - File-level since constraint starts exactly at the first in-window line.

T1: Gen/Params.v constants (SEEK_HORIZON, MAX_SEEK_HORIZON_EXPAND,
    MAX_TRY_FIND_WITH_DATE_ATTEMPTS, MAX_DATETIME_READ_BYTES) instantiate the
    parametric theorems of Props/C04.v.
T2: REAL SearchConstraintSearchSince.apply_to_file(fd) + fd.tell() (fresh
    constraint per case), REAL LogFileDateSinceSeeker.run() (exception class)
    and REAL FileSearcher(constraint=c) results, against
      M  the Coq model (Model/SinceSeek.v) evaluated inside Coq,
      S  the Coq specification first_in_window (Spec/C04.v) inside Coq,
      R  a plain-Python reference of the specification (ref_first_in_window).
    The timestamp matcher is an oracle: tabulated here with plain `re` +
    `datetime` (never through searchkit) on the <= W bytes at each line start
    and handed to the model as a table (keyed by a hash of the bytes read).
    Structured stream: time-ordered logs inside the hypotheses of the theorem
    (spec claim: position == first_in_window); hostile stream: unordered
    logs, long undated runs with a small patched L, over-long lines with a
    small patched A (model vs implementation only).
"""
import datetime
import io
import os
import re
import time

import vlib
from c11 import Patched, coq_bytes, ref_fwd, ref_bwd

PROPS = ['Props/C04.v', 'Props/TsMatcher.v']
LF = 10
TS_PATTERN = (r'^(?P<year>\d{4})-(?P<month>\d{2})-(?P<day>\d{2}) '
              r'(?P<hours>\d{2}):(?P<minutes>\d{2}):(?P<seconds>\d{2})')
# second form: a fixed 45-byte prefix, so that the timestamp ends exactly at
# byte 64 = MAX_DATETIME_READ_BYTES of the line
PREFIX = b'p' * 45
TS_PATTERN2 = (r'^p{45}(?P<year>\d{4})-(?P<month>\d{2})-(?P<day>\d{2}) '
               r'(?P<hours>\d{2}):(?P<minutes>\d{2}):(?P<seconds>\d{2})')
# Matcher kinds (KIND): 'num' the two numeric patterns above; 'free' the
# numeric pattern WITHOUT the leading ^ (the library applies patterns with
# match-at-start semantics); 'mon' two patterns, the first with a month NAME
# post-processed by an override property `month` (the documented mechanism
# of TimestampMatcherBase.strptime), the second numeric
TS_FREE = TS_PATTERN[1:]
MONTHS = ['Jan', 'Feb', 'Mar', 'Apr', 'May', 'Jun', 'Jul', 'Aug', 'Sep', 'Oct',
          'Nov', 'Dec']
TS_MON = (r'^(?P<year>\d{4})-(?P<month>' + '|'.join(MONTHS) +
          r')-(?P<day>\d{2}) '
          r'(?P<hours>\d{2}):(?P<minutes>\d{2}):(?P<seconds>\d{2})')
KIND = ['num']
EPOCH = datetime.datetime(2000, 1, 1)
BASE = datetime.datetime(2022, 1, 1)
FMT = '%Y-%m-%d %H:%M:%S'
HASH_P = 1000000007


# ------------------------------------------------------------------- oracle
def oracle(window):
    """ the timestamp matcher on the bytes read at a line start, tabulated
    with plain Python: seconds since EPOCH or None """
    text = window.decode('utf-8', errors='backslashreplace')
    if KIND[0] == 'free':
        m = re.match(TS_FREE, text)
    elif KIND[0] == 'mon':
        m = re.match(TS_MON, text) or re.match(TS_PATTERN, text)
    else:
        m = re.match(TS_PATTERN, text) or re.match(TS_PATTERN2, text)
    if not m:
        return None
    month = m.group('month')
    if month in MONTHS:
        month = MONTHS.index(month) + 1
    try:
        d = datetime.datetime(int(m.group('year')), int(month),
                              int(m.group('day')), int(m.group('hours')),
                              int(m.group('minutes')), int(m.group('seconds')))
    except ValueError:
        return None
    return int((d - EPOCH).total_seconds())


def secs(d):
    return int((d - EPOCH).total_seconds())


def whash(w):
    h = 7
    for b in w:
        h = (h * 257 + b + 1) % HASH_P
    return h


def line_starts(c):
    return [0] + [i + 1 for i, b in enumerate(c) if b == LF and i + 1 < len(c)]


# ------------------------------------------- plain-Python reference (R) of S
def ref_first_in_window(c, since, W):
    starts = line_starts(c)
    dates = [oracle(c[s:s + W]) for s in starts]
    for s, d in zip(starts, dates):
        if d is not None and d >= since:
            return s
    if any(d is not None for d in dates):
        return len(c)
    return 0


def hypotheses(c, H, A, L, W):
    """ (h0 empty lines undated, h1 budget, h2 ordered, h3 run <= L-1) """
    starts = line_starts(c)
    dates = [oracle(c[s:s + W]) for s in starts]
    h0 = all(oracle(c[s:s + W]) is None for s in starts
             if s >= len(c) or c[s] == LF) and oracle(b'') is None
    prev, h2 = None, True
    run, best = 0, 0
    for d in dates:
        if d is None:
            run += 1
            best = max(best, run)
        else:
            run = 0
            if prev is not None and d < prev:
                h2 = False
            prev = d
    h3 = best <= L - 1
    # budget: every offset 0..len can be looked up
    h1 = all(ref_fwd(c, o, H, A) != [0] and ref_bwd(c, o, H, A) != [0]
             for o in range(len(c) + 1))
    return h0, h1, h2, h3, best


def within_documented_limit(c, H, A):
    """ every line has fewer than A*H bytes before its line feed / the end
    of the file (now also the exact budget of the code, see C11) """
    return all(len(ln) < A * H for ln in c.split(b'\n'))


# ------------------------------------------------------------ implementation
class NamedBytesIO(io.BytesIO):
    name = 'c04-bytesio'


def _matcher_cls():
    from searchkit.constraints import TimestampMatcherBase

    class TS(TimestampMatcherBase):
        @property
        def patterns(self):
            return [TS_PATTERN, TS_PATTERN2]

    class TSFree(TimestampMatcherBase):
        @property
        def patterns(self):
            return [TS_FREE]

    class TSMon(TimestampMatcherBase):
        @property
        def patterns(self):
            return [TS_MON, TS_PATTERN]

        @property
        def month(self):
            """ override property: post-processes the captured group """
            v = self.result.group('month')
            return MONTHS.index(v) + 1 if v in MONTHS else v
    return {'num': TS, 'free': TSFree, 'mon': TSMon}[KIND[0]]


class PatchedL(Patched):
    def __init__(self, H, A, L, W):
        super().__init__(H, A, W)
        self.lval = L

    def __enter__(self):
        super().__enter__()
        self.saved_l = self.S.MAX_TRY_FIND_WITH_DATE_ATTEMPTS
        self.S.MAX_TRY_FIND_WITH_DATE_ATTEMPTS = self.lval
        return self

    def __exit__(self, *a):
        self.S.MAX_TRY_FIND_WITH_DATE_ATTEMPTS = self.saved_l
        super().__exit__(*a)


def impl_case(c, since_dt, H, A, L, W, path=None):
    """ [outcome of seeker.run(), final position, return value] from the real
    code; fresh constraint objects """
    from searchkit import constraints as K
    TS = _matcher_cls()
    since_str = since_dt.strftime(FMT)

    def mkfd():
        return open(path, 'rb') if path else NamedBytesIO(c)

    with PatchedL(H, A, L, W):
        cons = K.SearchConstraintSearchSince(current_date=since_str,
                                             ts_matcher_cls=TS, days=0,
                                             hours=0)
        fd = mkfd()
        try:
            try:
                out = [0, K.LogFileDateSinceSeeker(fd, cons).run()]
            except K.NoTimestampsFoundInFile:
                out = [1]
            except K.NoValidLinesFoundInFile:
                out = [2]
            except K.TooManyLinesWithoutDate:
                out = [3]
            except K.MaxSearchableLineLengthReached:
                out = [4]
            except AssertionError:
                out = [5]
        finally:
            fd.close()
        cons = K.SearchConstraintSearchSince(current_date=since_str,
                                             ts_matcher_cls=TS, days=0,
                                             hours=0)
        fd = mkfd()
        try:
            try:
                ret = cons.apply_to_file(fd)
                pos = fd.tell()
                res = [out, [pos], [[ret]] if ret is not None else [[]]]
            except AssertionError:
                res = [out, [], []]
        finally:
            fd.close()
        # destructive=False on a fresh constraint: where is the file left?
        cons = K.SearchConstraintSearchSince(current_date=since_str,
                                             ts_matcher_cls=TS, days=0,
                                             hours=0)
        fd = mkfd()
        try:
            try:
                cons.apply_to_file(fd, destructive=False)
                res.append([fd.tell()])
            except AssertionError:
                res.append([])
        finally:
            fd.close()
    return res


def searcher_results(path, since_dt, H, A, L, W):
    """ (linenumber, text) of every line the REAL FileSearcher reports for
    `path`; with a since constraint when since_dt is given """
    from searchkit import FileSearcher, SearchDef
    from searchkit import constraints as K
    with PatchedL(H, A, L, W):
        cons = None
        if since_dt is not None:
            cons = K.SearchConstraintSearchSince(
                current_date=since_dt.strftime(FMT),
                ts_matcher_cls=_matcher_cls(), days=0, hours=0)
        s = FileSearcher(constraint=cons)
        s.add(SearchDef(r'(.*)', tag='all'), path)
        res = s.run()
        return sorted((r.linenumber, r.get(1)) for r in res.find_by_tag('all'))


# ----------------------------------------------------------------- Coq side
PRE = """From SK Require Import Model.Seek Model.SinceSeek Spec.Lines Spec.C04.
Definition whash (w : list Z) : Z :=
  fold_left (fun h b => (h * 257 + b + 1) mod 1000000007) w 7.
Fixpoint assoc (k : Z) (t : list (Z * Z)) : option Z :=
  match t with [] => None | (k', v) :: r => if k =? k' then Some v else assoc k r end.
Definition tsw_of (t : list (Z * Z)) (w : list Z) : option Z := assoc (whash w) t.
Definition JOZ (o : option Z) : jv := match o with Some z => JL [JZ z] | None => JL [] end.
(* case: ((H, A, L, W), content, oracle table, since dates) *)
Definition run_model (x : (Z * Z * Z * Z) * list Z * list (Z * Z) * list Z) : jv :=
  let '(p, c, t, sinces) := x in let '(H, A, L, W) := p in
  JL (map (fun since =>
    let o := run H A L W (tsw_of t) c since 0 in
    JL [jv_outcome o; JOZ (position_of c o);
        match retval_of c o with Some r => JL [JOZ r] | None => JL [] end;
        JOZ (position_of_nd c 0 o)]) sinces).
Definition run_spec (x : (Z * Z * Z * Z) * list Z * list (Z * Z) * list Z) : jv :=
  let '(p, c, t, sinces) := x in let '(H, A, L, W) := p in
  (* memoised [fun s => tsw (read c s W)] on the line starts *)
  let memo := map (fun s => (s, tsw_of t (read c s W))) (line_starts c) in
  let ts := fun s => match find (fun e => fst e =? s) memo with
                     | Some e => snd e | None => tsw_of t (read c s W) end in
  JL [JL (map (fun since => JZ (first_in_window ts since c)) sinces);
      JB (dates_sorted_from ts None (line_starts c));
      JZ (max_undated_run ts c)].
"""


def coq_case(H, A, L, W, c, sinces):
    table = {}
    for s in line_starts(c) + [len(c)]:
        w = c[s:s + W]
        d = oracle(w)
        h = whash(w)
        if h in table and table[h][0] != d:
            return None                      # hash collision: skip the case
        table[h] = (d, w)
    ents = "; ".join(f"({h}, {d})" for h, (d, _) in sorted(table.items())
                     if d is not None)
    return (f"(({H}, {A}, {L}, {W}), {coq_bytes(c)}, "
            f"([{ents}] : list (Z * Z)), ({vlib.zl(sinces)} : list Z))")


# --------------------------------------------------------------- generators
def ts_text(t):
    d = BASE + datetime.timedelta(seconds=t)
    if KIND[0] == 'mon' and t % 3:
        return (d.strftime('%Y-') + MONTHS[d.month - 1] +
                d.strftime('-%d %H:%M:%S')).encode()
    return d.strftime(FMT).encode()


LEN_MARKS = [19, 20, 21, 40, 62, 63, 64, 65, 66, 100, 254, 255, 256, 257,
             258, 300, 510, 511, 512, 513, 514]


def gen_log(rng, nlines, H, ordered=True, max_run=None, len_marks=None,
            maxlen=None, t_start=None, final_lf=None):
    """ returns (content, list of timestamps seconds used) """
    marks = len_marks or LEN_MARKS
    t = rng.choice([0, 5, 100]) if t_start is None else t_start
    out = bytearray()
    times = []
    run = 0
    for i in range(nlines):
        r = rng.random()
        force_dated = max_run is not None and run >= max_run
        if r < 0.6 or force_dated:
            if ordered:
                t += rng.choice([0, 0, 1, 1, 2, 59, 60, 3600])
            else:
                t = max(0, t + rng.choice([0, 1, -1, 60, -3600, 7200]))
            times.append(t)
            target = rng.choice(marks)
            body = ts_text(t) + b' ' + b'm' * max(0, target - 20)
            k = rng.random()
            if k < 0.15:
                body = ts_text(t)                 # the timestamp is the line
            elif k < 0.22 and maxlen is None:
                # timestamp ends exactly at byte 64 = W (alone / with a tail)
                body = rng.choice([PREFIX + ts_text(t),
                                   PREFIX + ts_text(t) + b' tail'])
            run = 0
        else:
            run += 1
            k = rng.random()
            if k < 0.25:
                body = b''                        # empty line
            elif k < 0.45:                        # timestamp-looking, mid-line
                body = b'x' + ts_text(t + rng.choice([-50, 0, 50, 5000])
                                      if t >= 50 else t) + b' tail'
            elif k < 0.55:
                body = b' ' + ts_text(t + 100000) + b' indented'
            elif k < 0.60 and maxlen is None:
                body = b'p' + PREFIX + ts_text(t + 7)   # ends at byte 65
            elif k < 0.65:
                body = b'2022-02-30 00:00:00 not a date'
            elif k < 0.75:
                body = b'2022-01-01T00:00:00 other format'
            else:
                body = b'u' * rng.choice([1, 2, H - 1 if H > 1 else 1, H,
                                          H + 1, rng.choice(marks)])
        if maxlen is not None and len(body) > maxlen:
            body = body[:maxlen]
        out += body
        if i < nlines - 1 or (rng.random() < 0.6 if final_lf is None
                              else final_lf):
            out += b'\n'
    return bytes(out), times


def gen_tight(rng, H, A, L):
    """ time-ordered log whose lines sit exactly at the search budget: up to
    A*H bytes terminator included, A*H - 1 for an unterminated last line;
    first, interior and last lines alike """
    def line(target, t):
        # target = length with terminator
        if t is not None and target - 1 >= 19:
            body = ts_text(t)
            if target - 1 >= 20:
                body += b' ' + b'm' * (target - 21)
            return body, True
        return b'u' * max(0, target - 1), False
    nl = rng.choice([2, 3, 4, 5, 6])
    t = rng.choice([0, 7])
    out, times, run = bytearray(), [], 0
    final_lf = rng.random() < 0.6
    for i in range(nl):
        # length with terminator <= A*H; an unterminated last line has
        # target - 1 <= A*H - 1 bytes
        cap = A * H
        target = rng.choice([cap, cap, cap - 1, cap - H + 1, cap - H + 2,
                             max(1, cap - H), 21, 20, 2, 1])
        target = max(1, min(target, cap))
        want_dated = rng.random() < 0.7 or run >= L - 1
        if want_dated and target - 1 < 19 and cap - 1 >= 19:
            target = rng.choice([20, min(cap, 21), cap])
        tt = None
        if want_dated and target - 1 >= 19:
            t += rng.choice([0, 1, 1, 2, 60])
            tt = t
        body, dated = line(target, tt)
        if dated:
            times.append(t)
            run = 0
        else:
            run += 1
        out += body
        if i < nl - 1 or final_lf:
            out += b'\n'
    return bytes(out), times


def since_choices(rng, times, k):
    if not times:
        return [0, 1000]
    ds = sorted(set(times))
    cand = {ds[0] - 5, ds[0], ds[-1], ds[-1] + 1, ds[-1] + 3600}
    for d in ds:
        cand.update((d, d + 1, d - 1))
    cand = sorted(x for x in cand if x >= -5)
    if len(cand) > k:
        keep = {cand[0], cand[-1], cand[-2]}
        keep.update(rng.sample(cand, k - 3))
        cand = sorted(keep)
    return cand


def to_dt(t):
    return BASE + datetime.timedelta(seconds=t)


def to_secs(t):
    return secs(to_dt(t))


# ----------------------------------------------------------------- streams
_SEEN = {}
MTIMES = [('past', datetime.datetime(2001, 1, 1).timestamp()),
          ('future', datetime.datetime(2037, 1, 1).timestamp()),
          ('now', None)]


def set_mtime(chk, path, k):
    name, m = MTIMES[k % len(MTIMES)]
    if m is not None:
        os.utime(path, (m, m))
    chk.dist('file_mtime_' + name)


def run_cases(chk, tag, items, claim, shard):
    """ items: (H, A, L, W, content, [since t...], source).  claim=True: the
    inputs satisfy the hypotheses, the implementation is judged against the
    specification. """
    t0 = time.time()
    cases, wants_m, wants_s, meta, docs = [], [], [], [], []
    n_eval = 0
    for (H, A, L, W, c, sinces, source) in items:
        KIND[0] = source.split(':')[0] if ':' in source else 'num'
        path = None
        if source.endswith('/file'):
            path = os.path.join(chk.work, 'c04.log')
            with open(path, 'wb') as f:
                f.write(c)
            # the result must depend on the contents only, not on when the
            # file was last written
            set_mtime(chk, path, len(cases))
        cc = coq_case(H, A, L, W, c, [to_secs(t) for t in sinces])
        if cc is None:
            chk.dist('skipped_hash_collision')
            continue
        h0, h1, h2, h3, best = hypotheses(c, H, A, L, W)
        inside = h0 and h1 and h2 and h3
        if claim and not inside:
            chk.dist('generated_outside_hypotheses')
        if inside and best == L - 1:
            chk.dist('undated_run_at_limit_L-1')
        if inside and best >= 1:
            chk.dist('has_undated_lines')
        if not h0:
            chk.broken.append({'obligation': 'oracle assumption h0 (empty '
                               'line / end of file has no timestamp)',
                               'why': f'fails on content {list(c[:200])}'})
        rows, spec_row = [], []
        for t in sinces:
            n_eval += 1
            res = impl_case(c, to_dt(t), H, A, L, W, path)
            rows.append(res)
            want = ref_first_in_window(c, to_secs(t), W)
            spec_row.append(want)
            pos = res[1][0] if res[1] else None
            chk.dist('outcome_%s' % res[0][0])
            if inside:
                chk.dist('claim_' + ('zero' if want == 0 else 'eof'
                                     if want == len(c) else 'middle'))
                if pos != want:
                    chk.violation(
                        'since-position-differs-from-first-in-window',
                        {'content': list(c) if len(c) <= 4000 else
                         {'len': len(c), 'head': list(c[:400])},
                         'since': str(to_dt(t)), 'impl_position': pos,
                         'impl_outcome': res[0], 'first_in_window': want,
                         'SEEK_HORIZON': H, 'MAX_SEEK_HORIZON_EXPAND': A,
                         'MAX_TRY_FIND_WITH_DATE_ATTEMPTS': L,
                         'MAX_DATETIME_READ_BYTES': W, 'source': source,
                         'line_starts': line_starts(c)[:60]})
        cases.append(cc)
        wants_m.append(rows)
        wants_s.append([spec_row, h2, best])
        meta.append((H, A, L, W, c, sinces, source, inside))
        docs.append(claim and not inside and h0 and h2 and h3 and
                    within_documented_limit(c, H, A))
        if path:
            os.unlink(path)
    t1 = time.time()
    mism, errs = vlib.eval_cases(chk.work, tag + '_model', '', PRE,
                                 'run_model', cases, wants_m, shard=shard)
    mism_s, errs_s = vlib.eval_cases(chk.work, tag + '_spec', '', PRE,
                                     'run_spec', cases, wants_s, shard=shard)
    for e in errs + errs_s:
        chk.broken.append({'obligation': f'correspondence {tag} (coqc)',
                           'why': e})
    for i, v in mism_s:
        H, A, L, W, c, sinces, source, inside = meta[i]
        chk.broken.append({
            'obligation': 'Coq specification (Spec/C04.v) = plain-Python '
                          'reference of the harness',
            'why': f'differs on content={list(c[:200])} len={len(c)} '
                   f'sinces={sinces}: coq={str(v)[:300]} '
                   f'python={str(wants_s[i])[:300]}'})
    for i, v in mism:
        H, A, L, W, c, sinces, source, inside = meta[i]
        bad = None
        if isinstance(v, list) and len(v) == len(sinces):
            for t, mv, iv in zip(sinces, v, wants_m[i]):
                if mv != iv:
                    bad = {'since': str(to_dt(t)), 'model': mv, 'impl': iv}
                    break
        chk.violation(f'model-vs-impl {source} H={H} A={A} L={L}',
                      {'content': list(c) if len(c) <= 2000 else
                       {'len': len(c), 'head': list(c[:300])},
                       'SEEK_HORIZON': H, 'MAX_SEEK_HORIZON_EXPAND': A,
                       'MAX_TRY_FIND_WITH_DATE_ATTEMPTS': L,
                       'MAX_DATETIME_READ_BYTES': W,
                       'inside_hypotheses': inside,
                       'first_difference': bad}, witness=False)
    # regression guard: lines within the documented A*H limit but outside the
    # exact budget computed by the reference (cannot happen while the two
    # coincide) on which the implementation raises and skips the file
    differs = {i for i, _ in mism}
    for i, doc in enumerate(docs):
        if not doc or i in differs:
            continue
        H, A, L, W, c, sinces, source, inside = meta[i]
        for t, res, want in zip(sinces, wants_m[i], wants_s[i][0]):
            if res[0] == [4] and res[1] != [want]:
                chk.dist('GAP_since_seek_skips_file_within_limit')
                if _SEEN.setdefault('gap', 0) < 2:
                    _SEEN['gap'] += 1
                    chk.violation(
                        'maxline-raised-within-limit edge=first-or-last-line: '
                        'since seek skips the file',
                        {'content': list(c), 'since': str(to_dt(t)),
                         'impl_outcome': res[0], 'impl_position': res[1],
                         'first_in_window': want, 'SEEK_HORIZON': H,
                         'MAX_SEEK_HORIZON_EXPAND': A, 'source': source})
                break
    KIND[0] = 'num'
    chk.coverage['evaluations'] += n_eval
    chk.coverage['traces_validated_against_impl'] += n_eval
    chk.coverage.setdefault('phase_s', {})[tag] = {
        'impl+reference': round(t1 - t0, 2),
        'coq': round(time.time() - t1, 2)}
    return meta


def suffix_runs(chk, metas, limit):
    """ results of the REAL FileSearcher with the since constraint == results
    of the REAL FileSearcher on the suffix that starts at first_in_window;
    plain files, and gzip-compressed files (large, so that the decompressed
    offset of the first in-window line exceeds the compressed size) """
    import gzip
    rng = chk.rng
    pool = [m for m in metas if m[7] and 0 < len(m[4]) <= 40000]
    rng.shuffle(pool)
    big = sorted((m for m in pool if len(m[4]) >= 2000),
                 key=lambda m: -len(m[4]))[:8]
    jobs = [(m, False) for m in pool[:limit]] + [(m, True) for m in big]
    done = 0
    for (H, A, L, W, c, sinces, source, inside), gz in jobs:
        KIND[0] = source.split(':')[0] if ':' in source else 'num'
        wants = [(ref_first_in_window(c, to_secs(t), W), t) for t in sinces]
        if gz:
            # the latest start that still leaves something to search
            mids = [x for x in wants if 0 < x[0] < len(c)]
            want, t = max(mids) if mids else rng.choice(wants)
        else:
            want, t = rng.choice(wants)
        p1 = os.path.join(chk.work, 'c04_full.log' + ('.1.gz' if gz else ''))
        p2 = os.path.join(chk.work, 'c04_suffix.log')
        if gz:
            with gzip.open(p1, 'wb') as f:
                f.write(c)
            chk.dist('gzip_offset_beyond_compressed_size'
                     if want >= os.path.getsize(p1)
                     else 'gzip_offset_within_compressed_size')
        else:
            with open(p1, 'wb') as f:
                f.write(c)
        with open(p2, 'wb') as f:
            f.write(c[want:])
        set_mtime(chk, p1, done)
        got = searcher_results(p1, to_dt(t), H, A, L, W)
        exp = searcher_results(p2, None, H, A, L, W)
        os.unlink(p1)
        os.unlink(p2)
        done += 1
        chk.coverage['evaluations'] += 1
        chk.dist('searcher_runs_gzip' if gz else 'searcher_runs')
        if got != exp:
            chk.violation(
                'searcher-results-differ-from-suffix-search'
                + (' (gzip file)' if gz else ''), {
                    'content': list(c) if len(c) <= 4000 else
                    {'len': len(c), 'head': list(c[:400])},
                    'gzip_compressed': gz, 'matcher': KIND[0],
                    'since': str(to_dt(t)), 'first_in_window': want,
                    'constrained_results': got[:10],
                    'constrained_count': len(got),
                    'suffix_results': exp[:10], 'suffix_count': len(exp),
                    'SEEK_HORIZON': H, 'MAX_SEEK_HORIZON_EXPAND': A,
                    'MAX_TRY_FIND_WITH_DATE_ATTEMPTS': L})
    KIND[0] = 'num'
    return done


def growth_runs(chk, n, H0, A0, L0, W0):
    """ the SAME constraint object applied to the same path again after the
    (append-only, time-ordered) log has grown: the file must again be left at
    first_in_window of the current contents """
    from searchkit import constraints as K
    rng = chk.rng
    TS = _matcher_cls()
    path = os.path.join(chk.work, 'c04_growing.log')
    for k in range(n):
        H = rng.choice([H0, H0, 16, 8])
        c1, times1 = gen_log(rng, rng.choice([1, 2, 3, 5, 8]), H, ordered=True,
                             max_run=3, final_lf=True)
        t_last = max(times1) if times1 else 0
        ext, times2 = gen_log(rng, rng.choice([1, 2, 3, 6]), H, ordered=True,
                              max_run=3, t_start=t_last + rng.choice([0, 1, 30]))
        c2 = c1 + ext
        alls = sorted(set(times1 + times2)) or [0]
        t = rng.choice([alls[0] - 1, alls[-1], alls[-1] + 1, t_last + 1,
                        t_last, rng.choice(alls)])
        inside = all(all(hypotheses(c, H, A0, L0, W0)[:4]) for c in (c1, c2))
        with PatchedL(H, A0, L0, W0):
            cons = K.SearchConstraintSearchSince(
                current_date=to_dt(t).strftime(FMT), ts_matcher_cls=TS,
                days=0, hours=0)
            pos = []
            for c in (c1, c2):
                with open(path, 'wb') as f:
                    f.write(c)
                with open(path, 'rb') as fd:
                    try:
                        cons.apply_to_file(fd)
                        pos.append(fd.tell())
                    except AssertionError:
                        pos.append(None)
        os.unlink(path)
        chk.coverage['evaluations'] += 2
        chk.dist('growth_runs')
        wants = [ref_first_in_window(c1, to_secs(t), W0),
                 ref_first_in_window(c2, to_secs(t), W0)]
        if wants[0] == len(c1):
            chk.dist('growth_first_run_found_nothing')
        if inside and pos != wants:
            chk.violation(
                'since-position-differs-from-first-in-window (same '
                'constraint applied again after the log grew)',
                {'content_first_application': list(c1),
                 'content_second_application': list(c2),
                 'since': str(to_dt(t)), 'impl_positions': pos,
                 'first_in_window': wants, 'SEEK_HORIZON': H})


def other_file_runs(chk, n, H0, A0, L0, W0):
    """ ONE constraint object applied to file A and then, after A has been
    closed, to a DIFFERENT file B (which gets A's recycled descriptor
    number): B must be left at first_in_window of B """
    from searchkit import constraints as K
    rng = chk.rng
    TS = _matcher_cls()
    for k in range(n):
        ca, ta = gen_log(rng, rng.choice([2, 3, 5, 8]), H0, ordered=True,
                         max_run=3)
        cb, tb = gen_log(rng, rng.choice([2, 3, 5, 8]), H0, ordered=True,
                         max_run=3)
        alls = sorted(set(ta + tb)) or [0]
        t = rng.choice(alls + [alls[0] - 1, alls[-1] + 1])
        inside = all(all(hypotheses(c, H0, A0, L0, W0)[:4]) for c in (ca, cb))
        pos = []
        with PatchedL(H0, A0, L0, W0):
            cons = K.SearchConstraintSearchSince(
                current_date=to_dt(t).strftime(FMT), ts_matcher_cls=TS,
                days=0, hours=0)
            for name, c in (('c04_a.log', ca), ('c04_b.log', cb)):
                path = os.path.join(chk.work, name)
                with open(path, 'wb') as f:
                    f.write(c)
                with open(path, 'rb') as fd:
                    try:
                        cons.apply_to_file(fd)
                        pos.append(fd.tell())
                    except AssertionError:
                        pos.append(None)
                os.unlink(path)
        chk.coverage['evaluations'] += 2
        chk.dist('other_file_runs')
        wants = [ref_first_in_window(ca, to_secs(t), W0),
                 ref_first_in_window(cb, to_secs(t), W0)]
        if inside and pos != wants:
            chk.violation(
                'since-position-differs-from-first-in-window (same '
                'constraint applied to another file)',
                {'content_file_a': list(ca), 'content_file_b': list(cb),
                 'since': str(to_dt(t)), 'impl_positions': pos,
                 'first_in_window': wants})


def run(chk):
    chk.prove(PROPS)
    params = vlib.gen_info()['params']
    H0, A0 = params['SEEK_HORIZON'], params['MAX_SEEK_HORIZON_EXPAND']
    L0 = params['MAX_TRY_FIND_WITH_DATE_ATTEMPTS']
    W0 = params['MAX_DATETIME_READ_BYTES']
    rng = chk.rng
    q = chk.quick
    chk.coverage['rule'] = (
        "structured: time-ordered logs (1..400 lines; line lengths around "
        "19/64/256/512 and around k*H for patched H in {1,2,3,4,7,8,16}; "
        "equal timestamps; undated / empty / timestamp-looking-mid-line / "
        "invalid-date lines anywhere, runs <= L-1; with/without final LF) x "
        "since in {before, equal, between, after each timestamp}; each case "
        "= real apply_to_file + tell + seeker.run vs model (in Coq) vs "
        "first_in_window (in Coq and by a plain-Python reference); real "
        "FileSearcher(constraint) vs real FileSearcher on the suffix for a "
        "sample (plain and gzip-compressed files); matchers: an unanchored "
        "pattern, a month-name group with an override property plus a second "
        "pattern; tight: lines exactly at the search budget for small patched "
        "A; growth: the same constraint applied again after the log grew; "
        "hostile: unordered logs, undated runs > patched L, lines "
        "beyond a patched A*H (model vs implementation only). "
        "distinct_nontrivial = structured (content, since) pairs whose "
        "expected position is neither 0 nor EOF")
    metas = []

    # structured, real constants
    items = []
    sizes = ([1, 1, 2, 2, 2, 3, 3, 3, 4, 4, 5, 5, 6, 6, 7, 7, 8, 8, 9, 10, 11,
              12, 14, 15, 17, 20, 25, 30, 40, 50, 60, 80, 110, 150, 250, 400]
             if q else
             [1, 2, 3, 4, 5, 6, 7, 8, 9, 10, 12, 15, 20, 30, 50, 80, 120,
              200, 300, 400] * 6)
    for k, nl in enumerate(sizes):
        c, times = gen_log(rng, nl, H0, ordered=True, max_run=L0 - 1)
        ks = 8 if nl <= 30 else 5
        src = 'real/file' if k % 2 == 0 else 'real/bytesio'
        items.append((H0, A0, L0, W0, c, since_choices(rng, times, ks), src))
    chk.dist('files_real', len(items))
    metas += run_cases(chk, 'real', items, True, shard=1)
    chk.sample({'real_case': {'lines': len(line_starts(items[5][4])),
                              'len': len(items[5][4]),
                              'sinces': [str(to_dt(t)) for t in items[5][5]],
                              'head': items[5][4][:120].decode()}})

    # structured, other timestamp matchers: a pattern without ^, and a month
    # name post-processed by an override property (+ a second pattern)
    for kind in ('free', 'mon'):
        KIND[0] = kind
        items = []
        for k, nl in enumerate([1, 2, 3, 4, 5, 6, 8, 10, 14, 20, 40, 150]
                               if q else
                               [1, 2, 3, 4, 5, 6, 8, 10, 14, 20, 40, 150] * 5):
            c, times = gen_log(rng, nl, H0, ordered=True, max_run=L0 - 1)
            items.append((H0, A0, L0, W0, c, since_choices(rng, times, 6),
                          f'{kind}:real/bytesio'))
        KIND[0] = 'num'
        chk.dist(f'files_matcher_{kind}', len(items))
        metas += run_cases(chk, 'matcher_' + kind, items, True, shard=2)

    # structured, patched H (and small L), A kept large enough for the lines
    items = []
    per = 12 if q else 30
    for H in (1, 2, 3, 4, 7, 8, 16):
        for k in range(per):
            L = rng.choice([2, 3, 4, L0])
            nl = rng.choice([1, 2, 3, 4, 5, 6, 8, 10, 14])
            marks = sorted({19, 20, 21} | {m for j in (2, 3, 4) for m in
                                           (j * H - 1, j * H, j * H + 1)
                                           if 19 <= m <= 70})
            c, times = gen_log(rng, nl, H, ordered=True, max_run=L - 1,
                               len_marks=marks, maxlen=70)
            A = rng.choice([A0, (80 // H) + 2])
            W = rng.choice([W0, 19, 25])
            items.append((H, A, L, W, c, since_choices(rng, times, 6),
                          'patched/file' if k % 3 == 0 else 'patched/bytesio'))
    chk.dist('files_patched', len(items))
    metas += run_cases(chk, 'patched', items, True, shard=8)
    chk.sample({'patched_case': {'H': items[0][0], 'A': items[0][1],
                                 'L': items[0][2], 'W': items[0][3],
                                 'content': items[0][4].decode()}})

    # structured, lines exactly at the search budget (small patched A)
    items = []
    for k in range(30 if q else 200):
        H = rng.choice([7, 8, 16])
        A = rng.choice([a for a in (2, 3, 4, 5, 6, 8) if a * H >= 24])
        L = rng.choice([2, 3, 4, L0])
        c, times = gen_tight(rng, H, A, L)
        items.append((H, A, L, rng.choice([W0, 19]), c,
                      since_choices(rng, times, 5), 'tight/bytesio'))
    chk.dist('files_tight', len(items))
    metas += run_cases(chk, 'tight', items, True, shard=10)

    # hostile (model vs implementation only; the spec makes no claim)
    items = []
    nh = 160 if q else 600
    for k in range(nh):
        kind = rng.choice(['unordered', 'longrun', 'overlong', 'mixed'])
        H = rng.choice([1, 2, 3, 4, 7, 8, 16, H0])
        L = rng.choice([1, 2, 3]) if kind in ('longrun', 'mixed') else \
            rng.choice([2, 4, L0])
        A = rng.choice([1, 2, 3, 8]) if kind in ('overlong', 'mixed') else \
            rng.choice([A0, (80 // H) + 2])
        nl = rng.choice([1, 2, 3, 4, 6, 8, 12])
        c, times = gen_log(rng, nl, H, ordered=(kind not in ('unordered',
                                                             'mixed')),
                           max_run=None,
                           len_marks=[19, 20, 21, 2 * H, A * H - 1, A * H,
                                      A * H + 1] if kind in
                           ('overlong', 'mixed') else [19, 20, 21, 30, 40],
                           maxlen=90)
        items.append((H, A, L, rng.choice([W0, 19]), c,
                      since_choices(rng, times, 5), 'hostile/' + kind))
    chk.dist('files_hostile', len(items))
    run_cases(chk, 'hostile', items, False, shard=8)

    # the documented limit with the real constants (regression corpus of the
    # defect repaired by 19d446e): an older first line just below 1 MiB
    # followed by an in-window line, and an in-window unterminated last line
    # just below 1 MiB; implementation vs reference
    lim = H0 * A0
    if lim <= (1 << 22):
        bigs = []
        for k in (lim - 130, lim - 21):
            bigs.append((ts_text(0) + b' ' + b'x' * k + b'\n' +
                         ts_text(100) + b' in window\n',
                         f"b'{ts_text(0).decode()} ' + b'x'*{k} + "
                         f"b'\\n{ts_text(100).decode()} in window\\n'",
                         'first'))
            bigs.append((ts_text(0) + b' old\n' + ts_text(100) + b' ' +
                         b'x' * k,
                         f"b'{ts_text(0).decode()} old\\n"
                         f"{ts_text(100).decode()} ' + b'x'*{k}", 'last'))
        for c, recipe, edge in bigs:
            res = impl_case(c, to_dt(50), H0, A0, L0, W0)
            want = ref_first_in_window(c, to_secs(50), W0)
            chk.coverage['evaluations'] += 1
            chk.dist(f'big_{edge}_line_outcome_{res[0][0]}')
            if res[1] != [want]:
                chk.violation(
                    f'maxline-raised-within-limit edge={edge}-line: since '
                    'seek skips the file' if res[0] == [4] else
                    'since-position-differs-from-first-in-window (big)',
                    {'content': recipe, 'documented_limit': lim,
                     'since': str(to_dt(50)), 'impl_outcome': res[0],
                     'impl_position': res[1], 'first_in_window': want})

    growth_runs(chk, 60 if q else 400, H0, A0, L0, W0)
    other_file_runs(chk, 40 if q else 300, H0, A0, L0, W0)
    done = suffix_runs(chk, metas, 60 if q else 300)
    chk.dist('suffix_comparisons', done)
    nontrivial = set()
    for (H, A, L, W, c, sinces, source, inside) in metas:
        if not inside:
            continue
        for t in sinces:
            w = ref_first_in_window(c, to_secs(t), W)
            if 0 < w < len(c):
                nontrivial.add((H, A, L, W, c, t))
    chk.coverage['distinct_nontrivial'] += len(nontrivial)
    chk.assumptions += [
        "the timestamp matcher is a pure function of the <= W bytes read at "
        "the start offset of a line (oracle, tabulated with plain re + "
        "datetime); an empty line / the end of the file has no timestamp",
        "the file is positioned at 0 when apply_to_file is entered (a file "
        "that has just been opened)",
        "constants are patched through the class attributes the code reads "
        "at call time; the theorems are parametric in them"]
