"""Shared machinery of the checks: T1 regeneration + Coq build (under a file
lock), obligation counting, Print Assumptions capture, hygiene grep, in-Coq
evaluation of model/spec on generated cases, verdict, known findings,
evidence.
"""
import fcntl
import json
import os
import random
import re
import subprocess
import sys
import time
from concurrent.futures import ThreadPoolExecutor

VERIF = os.path.dirname(os.path.dirname(os.path.abspath(__file__)))
REPO = os.environ.get('VERIF_REPO', '/repo')
COQ = os.environ.get('VERIF_COQ') or os.path.join(VERIF, 'coq')
WORKROOT = os.environ.get('VERIF_WORK') or os.path.join(VERIF, 'build')
# evidence/replays of runs against scratch copies must not overwrite the
# real ones
OUTROOT = WORKROOT if os.environ.get('VERIF_WORK') else VERIF
NPROC = os.cpu_count() or 4

FORBIDDEN = re.compile(
    r'\b(Admitted|admit|Axiom|Axioms|Parameter|Parameters|Conjecture|'
    r'Hypothesis|Hypotheses|Variable|Variables|Unset\s+Guard|'
    r'bypass_check|Admit\s+Obligations|type-in-type|impredicative-set|'
    r'Unset\s+Universe\s+Checking|Unset\s+Positivity|native_compute)\b')
SECTION_OK = re.compile(r'\b(Variable|Variables|Hypothesis|Hypotheses)\b')

TRUSTED_BASE = [
    "Coq 8.16.1 kernel incl. its vm_compute conversion (no native_compute)",
    "translator/gen.py + translator/pyexpr.py + translator/skeleton.py "
    "(python ast -> coq/Gen/*.v, fail-closed, re-run on every check)",
    "correspondence harness (lib/vlib.py, harness/*.py): generators, "
    "canonicalisation, cases files evaluated with vm_compute by coqc",
    "CPython 3.12 and the OS under the implementation being compared",
    "no extraction is used: the model is evaluated inside Coq",
]


def sh(cmd, timeout=600, cwd=None, env=None):
    """ run a command, return (rc, combined output); rc 124 on timeout """
    try:
        p = subprocess.run(cmd, cwd=cwd, env=env, timeout=timeout,
                           stdout=subprocess.PIPE, stderr=subprocess.STDOUT,
                           text=True, errors='replace',
                           shell=isinstance(cmd, str))
        return p.returncode, p.stdout
    except subprocess.TimeoutExpired as exc:
        out = exc.stdout or ''
        if isinstance(out, bytes):
            out = out.decode('utf-8', 'replace')
        return 124, out + "\n[timeout]"


def impl_path_setup():
    """ make `import searchkit` resolve to REPO's working tree """
    os.environ['PYTHONHASHSEED'] = os.environ.get('PYTHONHASHSEED', '0')
    sys.path[:] = [p for p in sys.path
                   if os.path.abspath(p or '.') != os.path.abspath(REPO)]
    sys.path.insert(0, REPO)
    for m in [m for m in sys.modules if m == 'searchkit'
              or m.startswith('searchkit.')]:
        del sys.modules[m]
    import logging
    logging.disable(logging.CRITICAL)


class Lock:
    def __init__(self, path):
        self.path = path

    def __enter__(self):
        self.fd = open(self.path, 'w')
        fcntl.flock(self.fd, fcntl.LOCK_EX)
        return self

    def __exit__(self, *a):
        fcntl.flock(self.fd, fcntl.LOCK_UN)
        self.fd.close()


def build(targets, timeout=1500):
    """ T1 + make of the given .vo targets.  Returns a dict. """
    res = {'ok': False, 'log': '', 'gen_failed': [], 'gen_changed': [],
           'cmd': ''}
    with Lock(os.path.join(COQ, '.lock')):
        env = dict(os.environ, VERIF_REPO=REPO)
        rc, out = sh([sys.executable,
                      os.path.join(VERIF, 'translator', 'gen.py'),
                      os.path.join(COQ, 'Gen')], timeout=120, env=env)
        res['log'] += out
        if rc != 0:
            res['gen_failed'] = [{'item': 'translator',
                                  'reason': out[-2000:]}]
            return res
        try:
            info = json.loads(out.strip().splitlines()[-1])
            res['gen_failed'] = info['failed']
            res['gen_changed'] = info['changed']
        except (ValueError, IndexError, KeyError):
            res['gen_failed'] = [{'item': 'translator',
                                  'reason': 'unparsable output'}]
            return res
        write_coqproject()
        if not os.path.exists(os.path.join(COQ, 'Makefile')) or \
                os.path.getmtime(os.path.join(COQ, 'Makefile')) < \
                os.path.getmtime(os.path.join(COQ, '_CoqProject')):
            rc, out = sh('coq_makefile -f _CoqProject -o Makefile',
                         cwd=COQ, timeout=120)
            res['log'] += out
        cmd = ['make', f'-j{NPROC}'] + list(targets)
        res['cmd'] = (f"cd {COQ} && coq_makefile -f _CoqProject -o Makefile "
                      f"&& timeout {timeout} " + ' '.join(cmd))
        rc, out = sh(cmd, cwd=COQ, timeout=timeout)
        res['log'] += out
        res['ok'] = (rc == 0)
        res['rc'] = rc
    return res


def write_coqproject():
    """ _CoqProject lists every .v under Model Spec Proofs Props Gen """
    files = []
    for sub in ('Model', 'Spec', 'Proofs', 'Props', 'Gen'):
        d = os.path.join(COQ, sub)
        if os.path.isdir(d):
            files += sorted(f"{sub}/{f}" for f in os.listdir(d)
                            if f.endswith('.v'))
    text = ("-Q . SK\n-arg -w -arg -notation-overridden,-deprecated\n"
            + "\n".join(files) + "\n")
    path = os.path.join(COQ, '_CoqProject')
    try:
        with open(path, encoding='utf-8') as f:
            if f.read() == text:
                return
    except OSError:
        pass
    with open(path, 'w', encoding='utf-8') as f:
        f.write(text)


def gen_info():
    with open(os.path.join(COQ, 'Gen', 'gen.json'), encoding='utf-8') as f:
        return json.load(f)


def closure(prop_files):
    """ the .v files (relative to COQ) a set of Props files depends on,
    following `From SK Require Import ...` / `Require Import SK....` """
    seen, todo = set(), list(prop_files)
    while todo:
        f = todo.pop()
        if f in seen or not os.path.exists(os.path.join(COQ, f)):
            continue
        seen.add(f)
        with open(os.path.join(COQ, f), encoding='utf-8') as fh:
            text = strip_comments(fh.read())
        for m in re.finditer(r'From\s+SK\s+Require\s+(?:Import|Export)\s+'
                             r'(.*?)\.(?:\s|$)', text, re.S):
            for mod in m.group(1).split():
                todo.append(mod.replace('.', '/') + '.v')
        for m in re.finditer(r'\bSK\.([A-Za-z_][\w]*(?:\.[A-Za-z_]\w*)+)',
                             text):
            todo.append(m.group(1).replace('.', '/') + '.v')
    return seen


def hygiene(only=None):
    """ forbidden vernacular in the development (outside comments it is a
    hard failure; Variable/Hypothesis are allowed inside Sections).  With
    `only` (a set of relative paths) the scan is restricted to those files """
    bad = []
    for root, _, files in os.walk(COQ):
        for fn in files:
            if not fn.endswith('.v'):
                continue
            path = os.path.join(root, fn)
            if only is not None and os.path.relpath(path, COQ) not in only:
                continue
            with open(path, encoding='utf-8') as f:
                text = f.read()
            text = strip_comments(text)
            depth = 0
            for i, line in enumerate(text.splitlines(), 1):
                if re.match(r'\s*Section\b', line):
                    depth += 1
                for m in FORBIDDEN.finditer(line):
                    if SECTION_OK.fullmatch(m.group(0)) and depth > 0:
                        continue
                    bad.append(f"{os.path.relpath(path, COQ)}:{i}: "
                               f"{line.strip()[:120]}")
                if re.match(r'\s*End\b', line) and depth > 0:
                    depth -= 1
    return bad


def strip_comments(text):
    out = []
    depth = 0
    i = 0
    while i < len(text):
        if text.startswith('(*', i):
            depth += 1
            i += 2
        elif text.startswith('*)', i) and depth > 0:
            depth -= 1
            i += 2
        else:
            if depth == 0:
                out.append(text[i])
            elif text[i] == '\n':
                out.append('\n')
            i += 1
    return ''.join(out)


def obligations(prop_file):
    """ names of the Theorem/Lemma/Example/Corollary statements of a Props
    file (counted from the source, comments stripped) """
    with open(os.path.join(COQ, prop_file), encoding='utf-8') as f:
        text = strip_comments(f.read())
    return re.findall(r'^\s*(?:Theorem|Lemma|Example|Corollary|Fact)\s+'
                      r'([A-Za-z0-9_\']+)', text, flags=re.M)


def coqc(path, timeout=600):
    return sh(['coqc', '-Q', COQ, 'SK', '-w',
               '-notation-overridden,-deprecated', path],
              timeout=timeout, cwd=os.path.dirname(path))


def assumptions(workdir, module, names):
    """ Print Assumptions for each theorem; returns {name: text} """
    os.makedirs(workdir, exist_ok=True)
    path = os.path.join(workdir, 'assum.v')
    with open(path, 'w', encoding='utf-8') as f:
        f.write(f"From SK Require Import {module}.\n")
        for n in names:
            f.write(f'Goal True. idtac "@@@{n}". exact I. Qed.\n')
            f.write(f"Print Assumptions {n}.\n")
    rc, out = coqc(path, timeout=300)
    res = {}
    if rc != 0:
        return {n: f"ERROR: {out[-300:]}" for n in names}
    chunks = out.split('@@@')[1:]
    for ch in chunks:
        lines = ch.splitlines()
        name = lines[0].strip()
        body = ' '.join(x.strip() for x in lines[1:] if x.strip())
        res[name] = body
    return res


# ---------------------------------------------------------------- jv values
def jv(x):
    """ python value -> Coq term of type Base.jv """
    if x is None:
        return "JL []"
    if isinstance(x, bool):
        return "JZ 1" if x else "JZ 0"
    if isinstance(x, int):
        return f"JZ ({x})"
    if isinstance(x, (list, tuple)):
        return "JL [" + "; ".join(jv(y) for y in x) + "]"
    raise TypeError(f"cannot encode {x!r}")


def zl(xs):
    return "[" + "; ".join(f"({x})" if x < 0 else str(x) for x in xs) + "]"


def parse_jv(text):
    """ parse Coq's printing of a jv term back to python """
    toks = re.findall(r'JZ|JL|\(|\)|\[|\]|;|-?\d+', text)
    pos = [0]

    def term():
        t = toks[pos[0]]
        if t == '(':
            pos[0] += 1
            v = term()
            assert toks[pos[0]] == ')'
            pos[0] += 1
            return v
        if t == 'JZ':
            pos[0] += 1
            return num()
        if t == 'JL':
            pos[0] += 1
            assert toks[pos[0]] == '['
            pos[0] += 1
            out = []
            while toks[pos[0]] != ']':
                out.append(term())
                if toks[pos[0]] == ';':
                    pos[0] += 1
            pos[0] += 1
            return out
        raise ValueError(f"bad token {t}")

    def num():
        t = toks[pos[0]]
        if t == '(':
            pos[0] += 1
            v = num()
            assert toks[pos[0]] == ')'
            pos[0] += 1
            return v
        pos[0] += 1
        return int(t)
    return term()


HEADER = """From Coq Require Import String ZArith List Bool.
From SK Require Import Model.Base {imports}.
Import ListNotations.
Open Scope Z_scope.
"""


def eval_cases(workdir, tag, imports, preamble, runner, cases, wants,
               shard=250, timeout=900, stack_unlimited=False):
    """Evaluate `runner` (a Coq function : case -> jv) on every case inside
    Coq with vm_compute and compare with `wants` (python values, encoded with
    jv()).  `cases` are Coq terms (strings).  Returns (mismatch list, errors)
    where each mismatch is (index, model_value)."""
    os.makedirs(workdir, exist_ok=True)
    assert len(cases) == len(wants)
    shards = [(i, cases[i:i + shard], wants[i:i + shard])
              for i in range(0, len(cases), shard)]

    def one(sh_):
        base, cs, ws = sh_
        path = os.path.join(workdir, f"{tag}_{base}.v")
        with open(path, 'w', encoding='utf-8') as f:
            f.write(HEADER.format(imports=imports))
            f.write(preamble + "\n")
            # the list literal is elaborated against the runner's argument
            # type (an empty list inside a case needs no annotation)
            f.write("Definition want : list jv := [\n  "
                    + ";\n  ".join(jv(w) for w in ws) + "].\n")
            f.write(f"Definition got : list jv := map ({runner}) [\n  "
                    + ";\n  ".join(cs) + "].\n")
            f.write("Definition bad := Eval vm_compute in "
                    "(mismatches got want).\n")
            f.write('Goal True. idtac "@@@BAD". exact I. Qed.\n')
            f.write("Eval vm_compute in bad.\n")
            f.write('Goal True. idtac "@@@VALS". exact I. Qed.\n')
            f.write("Eval vm_compute in (map (fun i => nthZ got i (JL [])) "
                    "bad).\n")
        cmd = ['coqc', '-Q', COQ, 'SK', '-w',
               '-notation-overridden,-deprecated', path]
        if stack_unlimited:
            cmd = 'ulimit -s unlimited; ' + ' '.join(cmd)
        rc, out = sh(cmd, timeout=timeout, cwd=workdir)
        if rc != 0:
            return base, None, out[-3000:]
        try:
            bad_txt = out.split('@@@BAD')[1].split('@@@VALS')[0]
            val_txt = out.split('@@@VALS')[1]
            m = re.search(r'=\s*\[(.*?)\]\s*:\s*list Z', bad_txt, re.S)
            idx = [int(x) for x in re.findall(r'-?\d+', m.group(1))]
            vals = []
            if idx:
                body = val_txt[val_txt.index('=') + 1:
                               val_txt.rindex(': list jv')]
                vals = parse_jv("JL " + body.strip())
            return base, list(zip(idx, vals + [None] * len(idx))), None
        except (IndexError, ValueError, AttributeError,
                AssertionError) as exc:
            return base, None, f"unparsable coqc output ({exc}): {out[-800:]}"

    mism, errors = [], []
    with ThreadPoolExecutor(max_workers=max(1, NPROC - 2)) as ex:
        for base, res, err in ex.map(one, shards):
            if err is not None:
                errors.append(f"shard {base}: {err}")
                continue
            for i, v in res:
                mism.append((base + i if i >= 0 else -1, v))
    return mism, errors


# ---------------------------------------------------------------- the check
class Check:
    def __init__(self, prop, tier, seed):
        self.prop = prop
        self.tier = tier
        self.seed = seed
        self.rng = random.Random(seed * 1000003 + sum(map(ord, prop)))
        self.t0 = time.time()
        # the work directory holds generated cases files and scratch input
        # files of ONE run (several runs of one property may overlap): a
        # private directory per process, removed afterwards; directories
        # left by runs that no longer exist are swept
        import shutil
        os.makedirs(WORKROOT, exist_ok=True)
        for d in os.listdir(WORKROOT):
            m = re.fullmatch(r'(C\d+)(?:_(\d+))?', d)
            if not m:
                continue
            pid = m.group(2)
            if pid is None or not os.path.exists(f'/proc/{pid}'):
                shutil.rmtree(os.path.join(WORKROOT, d), ignore_errors=True)
        self.work = os.path.join(WORKROOT, f"{prop}_{os.getpid()}")
        shutil.rmtree(self.work, ignore_errors=True)
        os.makedirs(self.work, exist_ok=True)
        os.makedirs(os.path.join(OUTROOT, 'replays'), exist_ok=True)
        os.makedirs(os.path.join(OUTROOT, 'evidence'), exist_ok=True)
        self.violations = []      # dicts: kind, sig, detail, replay
        self.coverage = {'evaluations': 0, 'distinct_nontrivial': 0,
                         'samples': [], 'rule': '',
                         'traces_validated_against_impl': 0,
                         'distribution': {}}
        self.assumptions = []
        self.broken = []          # obligations / correspondences broken
        self.notes = []
        self.quick = (tier == 'quick')

    # -- T1 + proofs
    def prove(self, prop_files):
        """ build the Props files; record obligations """
        targets = [p[:-2] + '.vo' for p in prop_files]
        b = build(targets)
        names = []
        for p in prop_files:
            names += [(p, n) for n in obligations(p)]
        self.coverage['obligations'] = len(names) + 2
        discharged = 0
        self.coverage['checker_cmd'] = b['cmd']
        # A translation item that fails is OMITTED from its Gen file (fail
        # closed): every theorem that mentions it then fails to build, which
        # is what breaks the properties it belongs to - and only those.  A
        # crash of the translator as a whole breaks every property.
        fatal = [gf for gf in b['gen_failed'] if gf['item'] == 'translator']
        self.coverage['gen_items_not_translated'] = [
            f"{gf['item']}: {gf['reason']}"[:300] for gf in b['gen_failed']]
        self.build_ok = b['ok'] and not fatal
        for gf in fatal:
            self.broken.append({'obligation': f"T1 translation of "
                                f"{gf['item']}", 'why': gf['reason']})
        if not fatal:
            discharged += 1            # obligation: translator ran
        if not b['ok']:
            m = re.search(r'File "([^"]+)", line (\d+)[^\n]*\n(.*?)(?=\nmake|'
                          r'\Z)', b['log'], re.S)
            where = f"{m.group(1)}:{m.group(2)}" if m else "?"
            msg = (m.group(3).strip()[:600] if m else b['log'][-600:])
            thm = self._theorem_at(m.group(1), int(m.group(2))) if m else None
            if b['gen_failed']:
                msg += " || not translated from the source: " + "; ".join(
                    f"{gf['item']} ({gf['reason']})"
                    for gf in b['gen_failed'])[:900]
            self.broken.append({'obligation': f"coq build ({where}"
                                + (f", in {thm}" if thm else "") + ")",
                                'why': msg})
        # every file this property's theorems depend on must be free of
        # Admitted / admit / Axiom / Parameter / ... (a hard failure); the
        # rest of the development is scanned too and reported in the
        # evidence (tools/hygiene_all.sh is the global gate)
        deps = closure(prop_files)
        bad = hygiene(deps)
        self.coverage['hygiene_files_scanned'] = len(deps)
        elsewhere = [b for b in hygiene() if b not in bad]
        self.coverage['hygiene_elsewhere_in_development'] = elsewhere[:10]
        if bad:
            self.broken.append({'obligation': 'hygiene (no Admitted/Axiom/'
                                '...)', 'why': '; '.join(bad[:10])})
        else:
            discharged += 1
        if b['ok']:
            discharged += len(names)
            assum = {}
            for p in prop_files:
                mod = p[:-2].replace('/', '.')
                ns = [n for pp, n in names if pp == p]
                assum.update(assumptions(self.work, mod, ns))
            self.coverage['print_assumptions'] = assum
            notclosed = {n: a for n, a in assum.items()
                         if 'Closed under the global context' not in a}
            self.coverage['axioms_used'] = notclosed
            for n, a in notclosed.items():
                if a.startswith('ERROR'):
                    self.broken.append({'obligation': f'Print Assumptions '
                                        f'{n}', 'why': a})
        if b['ok'] and not self.quick:
            mods = ['SK.' + p[:-2].replace('/', '.') for p in prop_files]
            rc, out = sh(['coqchk', '-silent', '-o', '-Q', COQ, 'SK'] + mods,
                         timeout=1500)
            tail = out[out.find('CONTEXT SUMMARY'):][:3000] \
                if 'CONTEXT SUMMARY' in out else out[-1500:]
            self.coverage['coqchk'] = {'rc': rc, 'summary': tail}
            self.coverage['obligations'] += 1
            if rc == 0:
                discharged += 1
            else:
                self.broken.append({'obligation': 'coqchk re-check',
                                    'why': tail[-600:]})
        self.coverage['discharged'] = discharged
        self.coverage['trusted_base'] = list(TRUSTED_BASE)
        self.coverage['theorems'] = [n for _, n in names]
        self.coverage['gen_changed'] = b['gen_changed']
        return self.build_ok

    @staticmethod
    def _theorem_at(path, line):
        try:
            full = path if os.path.isabs(path) else os.path.join(COQ, path)
            with open(full, encoding='utf-8') as f:
                lines = f.read().splitlines()[:line]
            for ln in reversed(lines):
                m = re.match(r'\s*(?:Theorem|Lemma|Example|Corollary|Fact|'
                             r'Definition|Fixpoint)\s+([A-Za-z0-9_\']+)', ln)
                if m:
                    return m.group(1)
        except OSError:
            pass
        return None

    # -- reporting
    def replay_path(self, tag, n=0):
        return os.path.join(OUTROOT, 'replays',
                            f"{self.prop}_{self.tier}_{self.seed}_{tag}_{n}"
                            ".json")

    def violation(self, sig, detail, witness=True):
        """ record a violation; `sig` is matched against known findings """
        self.violations.append({'sig': sig, 'detail': detail,
                                'witness': witness})

    def sample(self, s, limit=6):
        if len(self.coverage['samples']) < limit:
            self.coverage['samples'].append(s)

    def dist(self, key, n=1):
        d = self.coverage['distribution']
        d[key] = d.get(key, 0) + n

    def finish(self, level='proof'):
        """ apply verdict logic, write evidence, print lines, return rc """
        known = load_known()
        rc = 0
        reported = 0
        # broken obligations / correspondences without a concrete witness
        witnessed = [v for v in self.violations if v['witness']]
        unwitnessed = [v for v in self.violations if not v['witness']]
        lines = []
        seen_known = set()
        for v in witnessed:
            k = match_known(known, self.prop, v['sig'])
            if k is not None:
                if k['id'] not in seen_known:
                    seen_known.add(k['id'])
                    lines.append(f"KNOWN-FINDING: property={self.prop} "
                                 f"{k['what']}")
                continue
            path = self.replay_path('witness', reported)
            with open(path, 'w', encoding='utf-8') as f:
                json.dump({'property': self.prop, 'seed': self.seed,
                           'tier': self.tier, 'signature': v['sig'],
                           'witness': v['detail']}, f, indent=1,
                          default=str)
            lines.append(f"VIOLATION property={self.prop} replay={path}")
            reported += 1
            rc = 1
            if reported >= 3:
                break
        if not reported and (self.broken or unwitnessed):
            # something no longer checks and no failing input was found
            # (known findings do not excuse a broken obligation)
            path = self.replay_path('unproved')
            with open(path, 'w', encoding='utf-8') as f:
                json.dump({'property': self.prop, 'seed': self.seed,
                           'tier': self.tier,
                           'no_longer_checks': self.broken,
                           'unwitnessed_mismatches':
                               [v['detail'] for v in unwitnessed][:10],
                           'searched': self.coverage.get('evaluations', 0)},
                          f, indent=1, default=str)
            lines.append(f"VIOLATION property={self.prop} replay={path} "
                         "no-failing-input-found")
            rc = 1
        cov = self.coverage
        cov['broken'] = self.broken
        cov['known_findings_seen'] = sorted(seen_known)
        ev = {'property_id': self.prop, 'tier': self.tier, 'seed': self.seed,
              'level': level, 'coverage': cov,
              'assumptions': self.assumptions,
              'wall_s': round(time.time() - self.t0, 2),
              'violations': reported + (1 if rc and not reported else 0)}
        path = os.path.join(OUTROOT, 'evidence', f"{self.prop}.json")
        tmp = path + '.tmp'
        with open(tmp, 'w', encoding='utf-8') as f:
            json.dump(ev, f, indent=1, default=str, sort_keys=True)
        os.replace(tmp, path)
        if not os.environ.get('VERIF_KEEP_WORK'):
            import shutil
            shutil.rmtree(self.work, ignore_errors=True)
        for ln in lines:
            print(ln)
        for n in self.notes:
            print("note:", n)
        print(f"{self.prop} {self.tier}: obligations "
              f"{cov.get('discharged')}/{cov.get('obligations')}, "
              f"evaluations {cov.get('evaluations')}, "
              f"nontrivial {cov.get('distinct_nontrivial')}, "
              f"{'FAIL' if rc else 'ok'} in {ev['wall_s']}s")
        sys.stdout.flush()
        return rc


def load_known():
    path = os.path.join(VERIF, 'known_findings.json')
    try:
        with open(path, encoding='utf-8') as f:
            return json.load(f)
    except OSError:
        return {'findings': []}


def match_known(known, prop, sig):
    for k in known.get('findings', []):
        if k.get('status') != 'known' or k.get('property') != prop:
            continue
        if re.search(k['signature_regex'], sig):
            return k
    return None
