"""Fail-closed translator from a small fragment of Python (ast) to Gallina text.

Supported fragment (everything is an unbounded integer `Z` or a `bool`):
  integer literals, names, `self.<attr>` (-> free variable <attr>),
  + - * // % (floor semantics, as Python), unary -, comparisons (single or
  chained), `and` / `or` / `not` (on booleans; `a or b` on integers is Python's
  "first truthy"), min/max of two or more arguments, conditional expressions,
  `int(a / b)` (truncating division - exact for |a| < 2**53), truth tests of
  integers (`if x:` == `x != 0`), calls listed in `calls` (mapped to free
  variables) and statement lists made of assignments to plain names,
  augmented assignments, if/elif/else, `return e`, and calls to `log.*`
  (skipped).  Anything else raises Untranslatable: the caller must treat that
  as a FAILED OBLIGATION, never as a default.
"""
import ast


class Untranslatable(Exception):
    pass


def fail(node, why):
    line = getattr(node, 'lineno', '?')
    raise Untranslatable(f"line {line}: {why}: {ast.dump(node)[:200]}")


class Tr:
    """ Translate expressions / statement lists of one function. """

    def __init__(self, calls=None, attrs=None, names=None, bools=(),
                 subst=None, never_none=()):
        # calls: dict mapping a call's source text to a Gallina variable
        # attrs: dict mapping 'self.x' attribute names to Gallina variables
        # names: dict mapping python names to Gallina variables (+ locals)
        self.calls = dict(calls or {})
        self.attrs = dict(attrs or {})
        self.names = dict(names or {})
        self.bools = set(bools)   # gallina variables that are booleans
        # subst: source text of an arbitrary sub-expression -> (gallina text,
        # type, [free variables used]); consulted before anything else
        self.subst = dict(subst or {})
        # source texts that are known never to be None at this point
        self.never_none = set(never_none)
        self.free = []            # free variables in order of first use

    def _use(self, var):
        if var not in self.free and var not in self.locals:
            self.free.append(var)
        return var

    locals = ()
    final = None   # optional callable giving the value at the end of a block

    # ---- expressions: return (text, type) with type in {'Z','bool'}
    def expr(self, e):
        src = ast.unparse(e)
        if src in self.subst:
            t, ty, uses = self.subst[src]
            for u in uses:
                self._use(u)
            return t, ty
        if isinstance(e, ast.Call) and ast.unparse(e.func) == 'timedelta' \
                and not e.args and e.keywords:
            unit = {'weeks': 604800, 'days': 86400, 'hours': 3600,
                    'minutes': 60, 'seconds': 1}
            terms = []
            for kw in e.keywords:
                if kw.arg not in unit:
                    fail(e, "unsupported timedelta keyword")
                t, ty = self.expr(kw.value)
                self._want(e, ty, 'Z')
                terms.append(f"{t} * {unit[kw.arg]}")
            return "(" + " + ".join(terms) + ")", 'Z'
        if isinstance(e, ast.Compare) and len(e.ops) == 1 \
                and isinstance(e.ops[0], (ast.Is, ast.IsNot)) \
                and isinstance(e.comparators[0], ast.Constant) \
                and e.comparators[0].value is None \
                and ast.unparse(e.left) in self.never_none:
            self.expr(e.left)
            return ('false' if isinstance(e.ops[0], ast.Is) else 'true'), \
                'bool'
        if isinstance(e, ast.Constant):
            if isinstance(e.value, bool):
                return ('true' if e.value else 'false'), 'bool'
            if isinstance(e.value, int):
                return (f"({e.value})" if e.value < 0 else f"{e.value}"), 'Z'
            fail(e, "unsupported constant")
        if isinstance(e, ast.Name):
            if e.id in self.names:
                v = self._use(self.names[e.id])
                return v, ('bool' if v in self.bools else 'Z')
            fail(e, "unknown name")
        if isinstance(e, ast.Attribute):
            src = ast.unparse(e)
            if src in self.attrs:
                v = self._use(self.attrs[src])
                return v, ('bool' if v in self.bools else 'Z')
            fail(e, "unknown attribute")
        if isinstance(e, ast.UnaryOp):
            if isinstance(e.op, ast.USub):
                t, ty = self.expr(e.operand)
                self._want(e, ty, 'Z')
                return f"(- {t})", 'Z'
            if isinstance(e.op, ast.Not):
                return f"(negb {self.cond(e.operand)})", 'bool'
            fail(e, "unsupported unary operator")
        if isinstance(e, ast.BinOp):
            ops = {ast.Add: '+', ast.Sub: '-', ast.Mult: '*',
                   ast.FloorDiv: '/', ast.Mod: 'mod'}
            for k, sym in ops.items():
                if isinstance(e.op, k):
                    a, ta = self.expr(e.left)
                    b, tb = self.expr(e.right)
                    self._want(e, ta, 'Z')
                    self._want(e, tb, 'Z')
                    return f"({a} {sym} {b})", 'Z'
            fail(e, "unsupported binary operator")
        if isinstance(e, ast.Compare):
            parts = []
            left = e.left
            for op, right in zip(e.ops, e.comparators):
                parts.append(self._cmp(e, op, left, right))
                left = right
            if len(parts) == 1:
                return parts[0], 'bool'
            return "(" + " && ".join(parts) + ")", 'bool'
        if isinstance(e, ast.BoolOp):
            vals = [self.expr(v) for v in e.values]
            tys = {ty for _, ty in vals}
            if tys == {'bool'} or isinstance(e.op, ast.And):
                conds = [self.cond(v) for v in e.values]
                sym = ' && ' if isinstance(e.op, ast.And) else ' || '
                return "(" + sym.join(conds) + ")", 'bool'
            if tys == {'Z'} and isinstance(e.op, ast.Or):
                # python: first truthy operand, else the last
                out = vals[-1][0]
                for t, _ in reversed(vals[:-1]):
                    out = f"(if ({t} =? 0) then {out} else {t})"
                return out, 'Z'
            fail(e, "mixed-type boolean operator")
        if isinstance(e, ast.IfExp):
            c = self.cond(e.test)
            a, ta = self.expr(e.body)
            b, tb = self.expr(e.orelse)
            if ta != tb:
                fail(e, "branches of different type")
            return f"(if {c} then {a} else {b})", ta
        if isinstance(e, ast.Call):
            src = ast.unparse(e)
            if src in self.calls:
                v = self._use(self.calls[src])
                return v, ('bool' if v in self.bools else 'Z')
            if isinstance(e.func, ast.Name) and e.func.id in ('min', 'max') \
                    and len(e.args) >= 2 and not e.keywords:
                f = 'Z.min' if e.func.id == 'min' else 'Z.max'
                args = []
                for a in e.args:
                    t, ty = self.expr(a)
                    self._want(e, ty, 'Z')
                    args.append(t)
                out = args[-1]
                for t in reversed(args[:-1]):
                    out = f"({f} {t} {out})"
                return out, 'Z'
            if isinstance(e.func, ast.Name) and e.func.id == 'int' \
                    and len(e.args) == 1 and not e.keywords \
                    and isinstance(e.args[0], ast.BinOp) \
                    and isinstance(e.args[0].op, ast.Div):
                a, ta = self.expr(e.args[0].left)
                b, tb = self.expr(e.args[0].right)
                self._want(e, ta, 'Z')
                self._want(e, tb, 'Z')
                return f"(Z.quot {a} {b})", 'Z'
            fail(e, "unsupported call")
        fail(e, "unsupported expression")

    def _want(self, node, ty, want):
        if ty != want:
            fail(node, f"expected {want}, got {ty}")

    def _cmp(self, node, op, left, right):
        a, ta = self.expr(left)
        b, tb = self.expr(right)
        if ta == 'bool' or tb == 'bool':
            fail(node, "comparison of booleans")
        table = {ast.Eq: f"({a} =? {b})", ast.NotEq: f"(negb ({a} =? {b}))",
                 ast.Lt: f"({a} <? {b})", ast.LtE: f"({a} <=? {b})",
                 ast.Gt: f"({b} <? {a})", ast.GtE: f"({b} <=? {a})"}
        for k, txt in table.items():
            if isinstance(op, k):
                return txt
        fail(node, "unsupported comparison")

    def cond(self, e):
        """ Python truth value of e as a Gallina bool. """
        t, ty = self.expr(e)
        if ty == 'bool':
            return t
        return f"(negb ({t} =? 0))"

    # ---- statements (continuation style)
    def stmts(self, body, rest=()):
        body = list(body) + list(rest)
        if not body:
            if self.final is not None:
                return self.final(self)
            raise Untranslatable("function may fall off its end (returns "
                                 "None) - not supported")
        s, tail = body[0], body[1:]
        if isinstance(s, ast.Return):
            if s.value is None:
                fail(s, "bare return")
            return self.expr(s.value)
        if isinstance(s, ast.Expr):
            v = s.value
            if isinstance(v, ast.Constant) and isinstance(v.value, str):
                return self.stmts(tail)          # docstring
            if isinstance(v, ast.Call) and ast.unparse(v.func).startswith(
                    'log.'):
                return self.stmts(tail)          # logging has no effect here
            fail(s, "expression statement with possible effect")
        if isinstance(s, ast.Assign):
            if len(s.targets) != 1:
                fail(s, "unsupported assignment target")
            tgt = s.targets[0]
            if isinstance(tgt, ast.Name):
                name = tgt.id
            elif isinstance(tgt, ast.Attribute) \
                    and ast.unparse(tgt).startswith('self.') \
                    and isinstance(tgt.value, ast.Name):
                name = ast.unparse(tgt)      # 'self.x' as a local
            else:
                fail(s, "unsupported assignment target")
            t, ty = self.expr(s.value)
            return self._let(name, t, ty, tail)
        if isinstance(s, ast.AugAssign):
            if not isinstance(s.target, ast.Name):
                fail(s, "unsupported assignment target")
            fake = ast.BinOp(left=ast.Name(id=s.target.id, ctx=ast.Load()),
                             op=s.op, right=s.value)
            ast.copy_location(fake, s)
            t, ty = self.expr(fake)
            return self._let(s.target.id, t, ty, tail)
        if isinstance(s, ast.If):
            c = self.cond(s.test)
            saved = (dict(self.names), set(self.bools), self.locals,
                     dict(self.attrs))
            a, ta = self.stmts(s.body, tail)
            self.names, self.bools, self.locals, self.attrs = \
                dict(saved[0]), set(saved[1]), saved[2], dict(saved[3])
            b, tb = self.stmts(s.orelse, tail)
            self.names, self.bools, self.locals, self.attrs = saved
            if ta != tb:
                fail(s, "branches return different types")
            return f"(if {c} then {a} else {b})", ta
        fail(s, "unsupported statement")

    def _let(self, name, t, ty, tail):
        var = "v_" + name.replace('.', '_')
        saved = (dict(self.names), set(self.bools), self.locals,
                 dict(self.attrs))
        if name.startswith('self.'):
            self.attrs[name] = var
        else:
            self.names[name] = var
        self.locals = tuple(self.locals) + (var,)
        if ty == 'bool':
            self.bools.add(var)
        else:
            self.bools.discard(var)
        body, tb = self.stmts(tail)
        self.names, self.bools, self.locals, self.attrs = saved
        return f"(let {var} := {t} in {body})", tb


def find_def(tree, qualname):
    """ Locate Class.func / func in a module ast; fail closed. """
    parts = qualname.split('.')
    body = tree.body
    node = None
    for p in parts:
        found = [n for n in body
                 if isinstance(n, (ast.FunctionDef, ast.ClassDef))
                 and n.name == p]
        if len(found) != 1:
            raise Untranslatable(f"{qualname}: expected exactly one "
                                 f"definition of {p}, found {len(found)}")
        node = found[0]
        body = node.body
    return node


def find_assign(body, name):
    """ value node of the single `name = <expr>` in body; fail closed. """
    found = []
    for n in body:
        if isinstance(n, ast.Assign) and len(n.targets) == 1 \
                and isinstance(n.targets[0], ast.Name) \
                and n.targets[0].id == name:
            found.append(n.value)
    if len(found) != 1:
        raise Untranslatable(f"expected exactly one assignment to {name}, "
                             f"found {len(found)}")
    return found[0]


def resolve_const(module, node, depth=3):
    """ a bare Name used where a literal is expected -> the value node of its
    single module-level assignment (a literal turned into a named module
    constant is the same value); fail closed when the name is assigned more
    than once at module level or not at all. """
    while isinstance(node, ast.Name) and depth > 0:
        hits = [st for st in module.body
                if isinstance(st, (ast.Assign, ast.AnnAssign))
                and any(isinstance(t, ast.Name) and t.id == node.id
                        for t in (st.targets if isinstance(st, ast.Assign)
                                  else [st.target]))]
        if len(hits) != 1 or hits[0].value is None:
            raise Untranslatable(f"{node.id}: not a single module-level "
                                 "constant")
        node = hits[0].value
        depth -= 1
    return node


def default_of(func, argname):
    """ default value node of a keyword/positional argument; fail closed. """
    a = func.args
    pos = a.posonlyargs + a.args
    defaults = [None] * (len(pos) - len(a.defaults)) + list(a.defaults)
    for arg, d in zip(pos, defaults):
        if arg.arg == argname:
            if d is None:
                raise Untranslatable(f"{func.name}: {argname} has no default")
            return d
    for arg, d in zip(a.kwonlyargs, a.kw_defaults):
        if arg.arg == argname:
            if d is None:
                raise Untranslatable(f"{func.name}: {argname} has no default")
            return d
    raise Untranslatable(f"{func.name}: no argument {argname}")
