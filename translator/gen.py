#!/usr/bin/env python3
"""T1: regenerate coq/Gen/{Params,Exprs}.v and gen.json from the CURRENT
working tree of the repository (default /repo, override VERIF_REPO).

Fail closed: every item that cannot be extracted is recorded in gen.json
under "failed" AND its definition is omitted from the generated file, so that
every proof depending on it stops compiling.
"""
import ast
import re
import json
import os
import sys

sys.path.insert(0, os.path.dirname(os.path.abspath(__file__)))
from pyexpr import (Tr, Untranslatable, find_def, find_assign,  # noqa: E402
                    default_of, resolve_const)
import skeleton  # noqa: E402

REPO = os.environ.get('VERIF_REPO', '/repo')


def parse(rel):
    path = os.path.join(REPO, rel)
    with open(path, encoding='utf-8') as f:
        return ast.parse(f.read(), filename=path)


def zlit(n):
    return f"({n})" if n < 0 else str(n)


def strlit(s):
    return "[" + "; ".join(str(ord(c)) for c in s) + "]"


class Gen:
    def __init__(self):
        self.params = []     # (name, gallina text, type, python value)
        self.exprs = []      # (name, args, body text, type, source)
        self.failed = []     # (name, reason)
        self.trees = {}

    def tree(self, rel):
        if rel not in self.trees:
            self.trees[rel] = parse(rel)
        return self.trees[rel]

    def item(self, name, fn):
        try:
            fn()
        except (Untranslatable, OSError, SyntaxError, KeyError,
                AssertionError, AttributeError, IndexError) as exc:
            self.failed.append((name, f"{type(exc).__name__}: {exc}"))

    # ---- constants
    def const_int(self, name, node, env=None):
        tr = Tr(names={k: k for k in (env or {})})
        txt, ty = tr.expr(node)
        if ty != 'Z':
            raise Untranslatable(f"{name}: not an integer")
        # evaluate with plain python over the already extracted constants
        val = eval(compile(ast.Expression(node), '<const>', 'eval'),  # noqa
                   {'__builtins__': {'int': int, 'min': min, 'max': max}},
                   dict(env or {}))
        if not isinstance(val, int) or isinstance(val, bool):
            raise Untranslatable(f"{name}: value {val!r} is not an int")
        self.params.append((name, txt, 'Z', val))
        return val

    def const_str(self, name, node):
        if not (isinstance(node, ast.Constant) and isinstance(node.value,
                                                              str)):
            raise Untranslatable(f"{name}: not a string literal")
        self.params.append((name, strlit(node.value), 'list Z', node.value))

    def run(self):
        c = 'searchkit/constraints.py'
        t = 'searchkit/task.py'
        s = 'searchkit/search.py'
        r = 'searchkit/results_store.py'
        env = {}

        def class_const(rel, cls, attr, name):
            def go():
                node = find_assign(find_def(self.tree(rel), cls).body, attr)
                env[name] = self.const_int(name, node, env)
                env[attr] = env[name]
            self.item(name, go)

        class_const(c, 'LogLine', 'MAX_DATETIME_READ_BYTES',
                    'MAX_DATETIME_READ_BYTES')
        for a in ('SEEK_HORIZON', 'MAX_SEEK_HORIZON_EXPAND',
                  'MAX_TRY_FIND_WITH_DATE_ATTEMPTS',
                  'MAX_SEARCHABLE_LINE_LENGTH'):
            class_const(c, 'LogFileDateSinceSeeker', a, a)

        def mod_const(rel, attr):
            def go():
                node = find_assign(self.tree(rel).body, attr)
                env[attr] = self.const_int(attr, node, env)
            self.item(attr, go)

        for a in ('RESULTS_QUEUE_TIMEOUT', 'MAX_QUEUE_RETRIES',
                  'RESULTS_QUEUE_SIZE', 'NUM_BUFFERED_RESULTS'):
            mod_const(t, a)
        class_const(t, 'QueueTransitBuffer', 'MAX', 'TRANSIT_MAX')

        def dflt(rel, qual, arg, name):
            def go():
                node = default_of(find_def(self.tree(rel), qual), arg)
                node = resolve_const(self.tree(rel), node)
                env[name] = self.const_int(name, node, {})
            self.item(name, go)

        dflt(r, 'ResultStoreBase.__init__', 'prealloc_block_size',
             'PREALLOC_BLOCK_SIZE')
        dflt(s, 'FileSearcher.__init__', 'max_parallel_tasks',
             'DEFAULT_MAX_PARALLEL_TASKS')
        dflt(s, 'FileSearcher.__init__', 'max_logrotate_depth',
             'DEFAULT_MAX_LOGROTATE_DEPTH')
        dflt(s, 'SearchCatalog.__init__', 'max_logrotate_depth',
             'CATALOG_MAX_LOGROTATE_DEPTH')
        dflt(s, 'SearchCatalog._filtered_dir', 'max_logrotate_depth',
             'FILTERED_DIR_MAX_LOGROTATE_DEPTH')
        dflt(c, 'SearchConstraintSearchSince.__init__', 'days',
             'SINCE_DEFAULT_DAYS')
        dflt(c, 'SearchConstraintSearchSince.__init__', 'hours',
             'SINCE_DEFAULT_HOURS')

        # ---- regex strings of the catalog
        def filters():
            f = find_def(self.tree(s), 'logrotate_log_sort')
            node = find_assign(f.body, 'filters')
            if not isinstance(node, ast.List) or len(node.elts) != 3:
                raise Untranslatable("logrotate_log_sort.filters: expected a "
                                     "list of three literals")
            for i, e in enumerate(node.elts):
                self.const_str(f"LOGROTATE_FILTER_{i}", e)
        self.item('LOGROTATE_FILTERS', filters)

        def sentinel():
            f = find_def(self.tree(s), 'logrotate_log_sort')
            rets = [n for n in ast.walk(f) if isinstance(n, ast.Return)]
            # a literal may sit behind a single-assignment module constant
            vals = [v.value for v in
                    (resolve_const(self.tree(s), n.value)
                     if isinstance(n.value, ast.Name) else n.value
                     for n in rets)
                    if isinstance(v, ast.Constant)]
            if len(rets) != 3 or sorted(vals) != [0, 100000]:
                raise Untranslatable("logrotate_log_sort: unexpected returns "
                                     f"{[ast.unparse(n) for n in rets]}")
            self.params.append(('LOGROTATE_NOMATCH_KEY', '100000', 'Z',
                                100000))
        self.item('LOGROTATE_NOMATCH_KEY', sentinel)

        def fdir():
            f = find_def(self.tree(s), 'SearchCatalog._filtered_dir')
            calls = [n for n in ast.walk(f) if isinstance(n, ast.Call)
                     and ast.unparse(n.func) == 're.compile']
            if len(calls) != 1 or len(calls[0].args) != 1:
                raise Untranslatable("_filtered_dir: expected one re.compile")
            self.const_str('FILTERED_DIR_REGEX',
                           resolve_const(self.tree(s), calls[0].args[0]))
        self.item('FILTERED_DIR_REGEX', fdir)

        # ---- function bodies
        def npt():
            f = find_def(self.tree(s), 'FileSearcher.num_parallel_tasks')
            tr = Tr(attrs={'self.max_parallel_tasks': 'max_parallel_tasks'},
                    calls={'os.cpu_count()': 'cpu_count',
                           'len(self.files)': 'len_files'})
            body, ty = tr.stmts(f.body)
            assert ty == 'Z'
            self.exprs.append(('num_parallel_tasks',
                               ['max_parallel_tasks', 'cpu_count',
                                'len_files'], 'Z', body, 'Z',
                               ast.unparse(f)))
        self.item('num_parallel_tasks', npt)

        def dispatch():
            f = find_def(self.tree(s), 'FileSearcher.run')
            ifs = [n for n in f.body if isinstance(n, ast.If)
                   and '_run_mp' in ast.unparse(n)]
            if len(ifs) != 1:
                raise Untranslatable("run(): expected exactly one top-level "
                                     "if dispatching to _run_mp")
            node = ifs[0]
            if '_run_mp' not in ast.unparse(ast.Module(node.body, [])) or \
                    '_run_single' not in ast.unparse(
                        ast.Module(node.orelse, [])) or \
                    '_run_mp' in ast.unparse(ast.Module(node.orelse, [])) or \
                    '_run_single' in ast.unparse(ast.Module(node.body, [])):
                raise Untranslatable("run(): _run_mp/_run_single not in the "
                                     "expected branches")
            tr = Tr(calls={'len(self.files)': 'len_files'})
            body = tr.cond(node.test)
            self.exprs.append(('run_uses_pool', ['len_files'], 'Z', body,
                               'bool', ast.unparse(node.test)))
        self.item('run_uses_pool', dispatch)

        def since_sel():
            f = find_def(self.tree(c), 'SearchConstraintSearchSince.__init__')
            want = {'self.days', 'self.hours'}

            def stores(n):
                return {ast.unparse(x) for x in ast.walk(n)
                        if isinstance(x, ast.Attribute)
                        and isinstance(x.ctx, ast.Store)
                        and ast.unparse(x) in want}
            sel = []
            for st in f.body:
                st_stores = stores(st)
                if not st_stores:
                    continue
                if isinstance(st, (ast.Assign, ast.If)):
                    sel.append(st)
                else:
                    raise Untranslatable("__init__: days/hours assigned in "
                                         "an unsupported statement")
            tr = Tr(names={'days': 'days', 'hours': 'hours'})

            def final(tr_):
                if not want <= set(tr_.attrs):
                    raise Untranslatable("__init__: days/hours not both "
                                         "assigned on every path")
                return (f"({tr_.attrs['self.days']}, "
                        f"{tr_.attrs['self.hours']})"), 'Z * Z'
            tr.final = final
            body, ty = tr.stmts(sel)
            self.exprs.append(('since_init', ['days', 'hours'], 'Z', body,
                               ty, '\n'.join(ast.unparse(x) for x in sel)))
        self.item('since_init', since_sel)

        def since_date():
            f = find_def(self.tree(c),
                         'SearchConstraintSearchSince.since_date')
            # `if not self.current_date: return None` guards a datetime,
            # which is always truthy: current_date comes from strptime.
            tr = Tr(attrs={'self.days': 'days', 'self.hours': 'hours',
                           'self.current_date': 'current'})
            body = [st for st in f.body
                    if not (isinstance(st, ast.If) and
                            ast.unparse(st.test) == 'not self.current_date'
                            and len(st.body) == 1
                            and ast.unparse(st.body[0]) == 'return None'
                            and not st.orelse)]
            if len(body) != len(f.body) - 1:
                raise Untranslatable("since_date: expected the single "
                                     "`if not self.current_date` guard")
            txt, ty = tr.stmts(body)
            assert ty == 'Z'
            self.exprs.append(('since_secs', ['current', 'days', 'hours'],
                               'Z', txt, 'Z', ast.unparse(f)))
        self.item('since_secs', since_date)

        def line_valid():
            f = find_def(self.tree(c),
                         'BinarySeekSearchBase._line_date_is_valid')
            tr = Tr(names={'extracted_datetime': 'ts'},
                    attrs={'self.since_date': 'since'},
                    never_none={'ts', 'extracted_datetime'})
            txt, ty = tr.stmts(f.body)
            assert ty == 'bool'
            self.exprs.append(('line_date_is_valid', ['ts', 'since'], 'Z',
                               txt, 'bool', ast.unparse(f)))
        self.item('line_date_is_valid', line_valid)

        def logline(prop, which, name):
            def go():
                f = find_def(self.tree(c), f'LogLine.{prop}')
                tr = Tr(subst={
                    f'self.{which}.status == FindTokenStatus.FOUND':
                        ('found', 'bool', ['found']),
                    f'self.{which}.offset': ('off', 'Z', ['off'])},
                    bools={'found'})
                txt, ty = tr.stmts(f.body)
                assert ty == 'Z'
                self.exprs.append((name, ['found', 'off'], 'bool*Z', txt,
                                   'Z', ast.unparse(f)))
            self.item(name, go)
        logline('start_offset', 'start_lf', 'logline_start_offset')
        logline('end_offset', 'end_lf', 'logline_end_offset')

        def rollover():
            f = find_def(self.tree(r), 'ResultStoreBase.allocations')
            ifs = [n for n in f.body if isinstance(n, ast.If) and
                   ast.unparse(n.test) == 'self._allocations is None']
            if len(ifs) != 1 or len(ifs[0].orelse) != 1 or \
                    not isinstance(ifs[0].orelse[0], ast.If) or \
                    ifs[0].orelse[0].orelse:
                raise Untranslatable("allocations: unexpected shape")
            test = ifs[0].orelse[0].test
            tr = Tr(subst={
                'self.data': ('(negb (data_len =? 0))', 'bool',
                              ['data_len']),
                'len(self.data)': ('data_len', 'Z', ['data_len']),
                'self.prealloc_block_size': ('bsize', 'Z', ['bsize']),
                'self._allocations[-1] in self.data':
                    ('last_used', 'bool', ['last_used'])},
                bools={'last_used'})
            txt = tr.cond(test)
            self.exprs.append(('alloc_rollover',
                               ['data_len', 'bsize', 'last_used'],
                               'Z*Z*bool', txt, 'bool', ast.unparse(test)))
        self.item('alloc_rollover', rollover)

        def augment(rel, qual, target, name, subst):
            """ value of the single `target += <expr>` in a function """
            def go():
                f = find_def(self.tree(rel), qual)
                found = [n for n in ast.walk(f)
                         if isinstance(n, ast.AugAssign)
                         and ast.unparse(n.target) == target]
                if len(found) != 1 or not isinstance(found[0].op, ast.Add):
                    raise Untranslatable(f"{qual}: expected exactly one "
                                         f"`{target} += ...`")
                tr = Tr(subst=subst)
                txt, ty = tr.expr(found[0].value)
                assert ty == 'Z'
                args = sorted({u for v in subst.values() for u in v[2]})
                self.exprs.append((name, args or ['tt_'], 'Z' if args
                                   else 'unit', txt, 'Z',
                                   ast.unparse(found[0])))
            self.item(name, go)
        augment(t, 'SearchTask.put_result', "self.stats['results']",
                'put_result_increment',
                {'len(results)': ('batch_len', 'Z', ['batch_len'])})
        augment(t, 'SearchTask._run_search', "self.stats['lines_searched']",
                'lines_searched_increment', {})
        augment(s, 'FileSearcher._run_mp', "self.stats['total_jobs']",
                'total_jobs_increment', {})
        augment(s, 'FileSearcher._run_mp', "self.stats['jobs_completed']",
                'jobs_completed_increment', {})

        def loop_variant(rel, qual, var, name):
            """ the single `while` loop of a function, controlled by the
            counter `var`: emits <name>_continues v (may another iteration
            start with counter value v, as far as the counter is concerned)
            and <name>_next v (the counter after one iteration).  Requires:
            exactly one while loop; inside it exactly one store to `var`,
            an unconditional top-level `var -= <const>`; the loop test is
            either a comparison on `var` alone or `True`, in which case a
            top-level `if <comparison on var>: break` must follow the
            decrement. """
            def const_value(node):
                """ integer value of a literal / extracted constant """
                txt = ast.unparse(node)
                m = re.fullmatch(r'(?:[A-Za-z_]+|self)\.([A-Z][A-Z0-9_]*)',
                                 txt)
                if m and m.group(1) in env:
                    return env[m.group(1)]
                if isinstance(node, ast.Name) and node.id in env:
                    return env[node.id]
                if isinstance(node, ast.Constant) and \
                        isinstance(node.value, int) and \
                        not isinstance(node.value, bool):
                    return node.value
                raise Untranslatable(f"{qual}: counter start `{txt}` is not "
                                     "an extracted constant")

            def emit_init(value, src):
                self.exprs.append((name + '_init', ['tt_'], 'unit',
                                   f"({value})", 'Z', src))

            def go():
                f = find_def(self.tree(rel), qual)
                loops = [n for n in ast.walk(f)
                         if isinstance(n, (ast.While, ast.For))
                         and not (isinstance(n, ast.For) and not (
                             isinstance(n.iter, ast.Call) and
                             ast.unparse(n.iter.func) == 'range'))]
                whiles = [n for n in loops if isinstance(n, ast.While)]
                if len(whiles) != 1 and len(loops) == 1 and \
                        isinstance(loops[0], ast.For):
                    # `for _ in range(E)` whose loop variable is not used is
                    # the countdown `v = E; while v > 0: v -= 1; ...`
                    lp = loops[0]
                    if not isinstance(lp.target, ast.Name) or lp.orelse or \
                            len(lp.iter.args) != 1 or lp.iter.keywords or \
                            any(isinstance(n, ast.Name) and
                                n.id == lp.target.id
                                for st in lp.body for n in ast.walk(st)):
                        raise Untranslatable(f"{qual}: for-loop is not a "
                                             "plain bounded repetition")
                    cont = Tr(names={'v': 'v'}).cond(
                        ast.parse('v > 0', mode='eval').body)
                    nxt, _ = Tr(names={'v': 'v'}).expr(
                        ast.parse('v - 1', mode='eval').body)
                    src = f"for _ in {ast.unparse(lp.iter)}: ..."
                    self.exprs.append((name + '_continues', ['v'], 'Z', cont,
                                       'bool', src))
                    self.exprs.append((name + '_next', ['v'], 'Z', nxt, 'Z',
                                       src))
                    emit_init(const_value(lp.iter.args[0]), src)
                    return
                loops = whiles
                if len(loops) != 1:
                    raise Untranslatable(f"{qual}: expected one while loop")
                lp = loops[0]
                inits = [st for st in f.body if isinstance(st, ast.Assign)
                         and len(st.targets) == 1
                         and isinstance(st.targets[0], ast.Name)
                         and st.targets[0].id == var]
                if len(inits) != 1 or f.body.index(inits[0]) > \
                        f.body.index(lp) if lp in f.body else len(inits) != 1:
                    raise Untranslatable(f"{qual}: `{var}` must be "
                                         "initialised once before the loop")
                init_value = const_value(inits[0].value)
                init_src = ast.unparse(inits[0])
                stores = [n for n in ast.walk(lp)
                          if isinstance(n, ast.Name) and n.id == var
                          and isinstance(n.ctx, ast.Store)]
                decs = [n for n in lp.body if isinstance(n, ast.AugAssign)
                        and isinstance(n.target, ast.Name)
                        and n.target.id == var]
                if not decs:
                    # `try: ...; break  except X: ...; var -= c`: an
                    # iteration either leaves the loop or decrements
                    for st in lp.body:
                        if isinstance(st, ast.Try) and st.body and \
                                isinstance(st.body[-1], ast.Break) and \
                                len(st.handlers) == 1 and not st.orelse \
                                and not st.finalbody:
                            decs = [n for n in st.handlers[0].body
                                    if isinstance(n, ast.AugAssign)
                                    and isinstance(n.target, ast.Name)
                                    and n.target.id == var]
                if len(stores) != 1 or len(decs) != 1:
                    raise Untranslatable(f"{qual}: `{var}` must be written "
                                         "exactly once in the loop, by a "
                                         "top-level augmented assignment")
                tr = Tr(names={var: 'v'})
                fake = ast.BinOp(left=ast.Name(id=var, ctx=ast.Load()),
                                 op=decs[0].op, right=decs[0].value)
                ast.copy_location(fake, decs[0])
                nxt, ty = tr.expr(fake)
                assert ty == 'Z'
                names_in_test = {n.id for n in ast.walk(lp.test)
                                 if isinstance(n, ast.Name)}
                if isinstance(lp.test, ast.Constant) and lp.test.value is True:
                    idx = lp.body.index(decs[0])
                    brk = [n for n in lp.body[idx + 1:]
                           if isinstance(n, ast.If) and len(n.body) == 1
                           and isinstance(n.body[0], ast.Break)
                           and not n.orelse
                           and {m.id for m in ast.walk(n.test)
                                if isinstance(m, ast.Name)} == {var}]
                    if len(brk) != 1:
                        raise Untranslatable(f"{qual}: `while True` needs a "
                                             f"top-level `if <{var}..>: break`"
                                             " after the decrement")
                    # continues(v): with counter v at loop top, the body
                    # decrements and does not break
                    tr2 = Tr(names={var: f"({nxt})"})
                    c = tr2.cond(brk[0].test)
                    cont = f"(negb {c})"
                    src = f"while True: ... {ast.unparse(decs[0])} ... " \
                          f"{ast.unparse(brk[0])}"
                elif names_in_test == {var}:
                    cont = Tr(names={var: 'v'}).cond(lp.test)
                    src = f"while {ast.unparse(lp.test)}: ... " \
                          f"{ast.unparse(decs[0])}"
                else:
                    raise Untranslatable(f"{qual}: loop test must depend on "
                                         f"`{var}` only")
                self.exprs.append((name + '_continues', ['v'], 'Z', cont,
                                   'bool', src))
                self.exprs.append((name + '_next', ['v'], 'Z', nxt, 'Z',
                                   ast.unparse(decs[0])))
                emit_init(init_value, init_src)
            self.item(name, go)
        loop_variant(c, 'LogFileDateSinceSeeker.find_token', 'attempts',
                     'loop_find_token')
        loop_variant(c, 'LogFileDateSinceSeeker.find_token_reverse',
                     'attempts', 'loop_find_token_reverse')
        loop_variant(c, 'LogFileDateSinceSeeker.try_find_line_with_date',
                     'attempts', 'loop_tfld')
        loop_variant(t, 'SearchTask.put_result', 'max_tries',
                     'loop_put_result')

        # ---- straight-line arithmetic of the two line-feed scans
        HZ = 'LogFileDateSinceSeeker.SEEK_HORIZON'

        def the_loop(qual):
            f = find_def(self.tree(c), qual)
            loops = [n for n in ast.walk(f) if isinstance(n, ast.While) or
                     (isinstance(n, ast.For) and isinstance(n.iter, ast.Call)
                      and ast.unparse(n.iter.func) == 'range')]
            if len(loops) != 1:
                raise Untranslatable(f"{qual}: expected one loop")
            return f, loops[0]

        def call_arg(stmts, func_text):
            """ (index, single positional argument) of the first top-level
            statement that is / assigns a call of func_text """
            for i, st in enumerate(stmts):
                v = st.value if isinstance(st, (ast.Expr, ast.Assign)) \
                    else None
                if isinstance(v, ast.Call) and \
                        ast.unparse(v.func) == func_text:
                    if len(v.args) != 1 or v.keywords:
                        raise Untranslatable(f"{func_text}: one argument "
                                             "expected")
                    return i, v.args[0]
            raise Untranslatable(f"no top-level call of {func_text}")

        def found_offset(node, what):
            rets = [n for n in ast.walk(node) if isinstance(n, ast.Return)
                    and isinstance(n.value, ast.Call)
                    and ast.unparse(n.value.func) == 'SearchState'
                    and any(k.arg == 'status' and ast.unparse(k.value) ==
                            'FindTokenStatus.' + what
                            for k in n.value.keywords)]
            return rets

        def ftr():
            f, lp = the_loop('LogFileDateSinceSeeker.find_token_reverse')
            body = lp.body
            i_seek, seek_arg = call_arg(body, 'self.file.seek')
            i_read, read_arg = call_arg(body, 'self.file.read')
            if i_read != i_seek + 1:
                raise Untranslatable("find_token_reverse: read must follow "
                                     "seek")
            tr = Tr(names={'start_offset': 'start', 'current_offset': 'cur',
                           'attempts': 'attempts'}, attrs={HZ: 'H'})
            tr.final = lambda t: (
                f"({t.expr(seek_arg)[0]}, {t.expr(read_arg)[0]})", 'Z * Z')
            txt, ty = tr.stmts(body[:i_seek])
            self.exprs.append(('ftr_window', ['start', 'cur', 'attempts',
                                              'H'], 'Z', txt, ty,
                               '\n'.join(ast.unparse(x)
                                         for x in body[:i_seek + 2])))
            rest = body[i_read + 1:]
            fr = [r for st in rest for r in found_offset(st, 'FOUND')]
            if len(fr) != 1:
                raise Untranslatable("find_token_reverse: one FOUND return "
                                     "expected in the loop")
            off = [k.value for k in fr[0].value.keywords if k.arg == 'offset']
            tr2 = Tr(names={'read_offset': 'ro', 'chunk_offset': 'i'})
            t2, _ = tr2.expr(off[0])
            self.exprs.append(('ftr_found', ['ro', 'i'], 'Z', t2, 'Z',
                               ast.unparse(fr[0])))
            # after the FOUND return: `if attempts <= 0: break`,
            # `current_offset = ...`, `if <stop>: return REACHED_EOF 0`
            upd = [st for st in rest
                   if (isinstance(st, ast.Assign)
                       and ast.unparse(st.targets[0]) == 'current_offset')
                   or (isinstance(st, ast.AugAssign)
                       and ast.unparse(st.target) == 'current_offset')]
            if len(upd) != 1:
                raise Untranslatable("find_token_reverse: one update of "
                                     "current_offset expected")
            tr3 = Tr(names={'current_offset': 'cur'},
                     subst={'len(chunk)': ('n', 'Z', ['n'])})
            # `current_offset -= e` is `current_offset = current_offset - e`
            upd_value = upd[0].value if isinstance(upd[0], ast.Assign) else \
                ast.fix_missing_locations(ast.copy_location(ast.BinOp(
                    left=ast.Name(id='current_offset', ctx=ast.Load()),
                    op=upd[0].op, right=upd[0].value), upd[0]))
            t3, _ = tr3.expr(upd_value)
            self.exprs.append(('ftr_next_cur', ['cur', 'n'], 'Z', t3, 'Z',
                               ast.unparse(upd[0])))
            after = rest[rest.index(upd[0]) + 1:]
            stops = [st for st in after if isinstance(st, ast.If)
                     and found_offset(st, 'REACHED_EOF')]
            if len(stops) != 1 or stops[0].orelse:
                raise Untranslatable("find_token_reverse: one start-of-file "
                                     "stop expected after the update")
            tr4 = Tr(names={'read_offset': 'ro', 'start_offset': 'start',
                            'current_offset': 'cur'})
            t4 = tr4.cond(stops[0].test)
            args = [a for a in ['ro', 'start', 'cur'] if a in tr4.free]
            self.exprs.append(('ftr_stop', args, 'Z', t4, 'bool',
                               ast.unparse(stops[0])))
            before = rest[:rest.index(upd[0])]
            brk = [st for st in before
                   if isinstance(st, ast.If) and len(st.body) == 1
                   and isinstance(st.body[0], ast.Break)]
            if len(brk) != 1:
                raise Untranslatable("find_token_reverse: attempts break "
                                     "expected before the update")
            # start-of-file stops BEFORE the attempts test: the empty-chunk
            # test (on `chunk`) and the clipped-window test (on read_size)
            early = [st for st in before[:before.index(brk[0])]
                     if isinstance(st, ast.If)
                     and found_offset(st, 'REACHED_EOF')
                     and 'read_size' in {m.id for m in ast.walk(st.test)
                                         if isinstance(m, ast.Name)}]
            if len(early) != 1 or early[0].orelse:
                raise Untranslatable("find_token_reverse: one clipped-window "
                                     "stop expected before the attempts test")
            tr5 = Tr(names={'read_size': 'rs'}, attrs={HZ: 'H'})
            t5 = tr5.cond(early[0].test)
            self.exprs.append(('ftr_clipped', ['rs', 'H'], 'Z', t5, 'bool',
                               ast.unparse(early[0])))
        self.item('find_token_reverse arithmetic', ftr)

        def ft():
            f, lp = the_loop('LogFileDateSinceSeeker.find_token')
            i_read, read_arg = call_arg(lp.body, 'self.file.read')
            tr = Tr(attrs={HZ: 'H'})
            t1, _ = tr.expr(read_arg)
            self.exprs.append(('ft_read_size', ['H'], 'Z', t1, 'Z',
                               ast.unparse(lp.body[i_read])))
            fr = found_offset(lp, 'FOUND')
            if len(fr) != 1:
                raise Untranslatable("find_token: one FOUND return expected")
            off = [k.value for k in fr[0].value.keywords if k.arg == 'offset']
            # found_offset may be a local computed just before
            defs_ = [st for st in ast.walk(lp) if isinstance(st, ast.Assign)
                     and ast.unparse(st.targets[0]) == ast.unparse(off[0])]
            e = defs_[0].value if len(defs_) == 1 else off[0]
            # the cursor: the one local updated from itself and len(chunk)
            upd = [st for st in lp.body
                   if isinstance(st, (ast.Assign, ast.AugAssign))
                   and isinstance(st.targets[0] if isinstance(st, ast.Assign)
                                  else st.target, ast.Name)
                   and 'len(chunk)' in ast.unparse(st.value)]
            if len(upd) != 1:
                raise Untranslatable("find_token: one cursor update "
                                     "`<cursor> = <cursor> + len(chunk)` "
                                     "expected")
            if isinstance(upd[0], ast.AugAssign):
                cursor = upd[0].target.id
                fake = ast.Assign(
                    targets=[upd[0].target],
                    value=ast.BinOp(left=ast.Name(id=cursor, ctx=ast.Load()),
                                    op=upd[0].op, right=upd[0].value))
                ast.copy_location(fake, upd[0])
                ast.fix_missing_locations(fake)
                upd_value = fake.value
            else:
                cursor = upd[0].targets[0].id
                upd_value = upd[0].value
            zero = [st for st in f.body if isinstance(st, ast.Assign)
                    and ast.unparse(st.targets[0]) == cursor]
            if len(zero) != 1 or ast.unparse(zero[0].value) != '0':
                raise Untranslatable(f"find_token: `{cursor} = 0` expected "
                                     "once before the loop")
            tr2 = Tr(names={'start_offset': 'start', cursor: 'cur',
                            'chunk_offset': 'i'})
            t2, _ = tr2.expr(e)
            self.exprs.append(('ft_found', ['start', 'cur', 'i'], 'Z', t2,
                               'Z', ast.unparse(e)))
            tr3 = Tr(names={cursor: 'cur'},
                     subst={'len(chunk)': ('n', 'Z', ['n'])})
            t3, _ = tr3.expr(upd_value)
            self.exprs.append(('ft_next_cur', ['cur', 'n'], 'Z', t3, 'Z',
                               ast.unparse(upd[0])))
            after_upd = lp.body[lp.body.index(upd[0]) + 1:]
            short = [st for st in after_upd if isinstance(st, ast.If)
                     and found_offset(st, 'REACHED_EOF') and not st.orelse]
            if len(short) != 1:
                raise Untranslatable("find_token: one short-read stop "
                                     "expected after the cursor update")
            tr4 = Tr(subst={'len(chunk)': ('n', 'Z', ['n'])}, attrs={HZ: 'H'})
            t4 = tr4.cond(short[0].test)
            self.exprs.append(('ft_short', ['n', 'H'], 'Z', t4, 'bool',
                               ast.unparse(short[0])))
            seeks = [n for n in f.body if isinstance(n, ast.Expr)
                     and isinstance(n.value, ast.Call)
                     and ast.unparse(n.value.func) == 'self.file.seek']
            if len(seeks) != 1 or \
                    ast.unparse(seeks[0].value.args[0]) != 'start_offset':
                raise Untranslatable("find_token: initial seek(start_offset) "
                                     "expected before the loop")
        self.item('find_token arithmetic', ft)

    # ---- output
    def params_v(self):
        out = ["(* GENERATED from the repository working tree by "
               "translator/gen.py - do not edit *)",
               "From Coq Require Import ZArith List.",
               "Import ListNotations.", "Open Scope Z_scope.", ""]
        for name, txt, ty, _ in self.params:
            out.append(f"Definition {name} : {ty} := {txt}.")
        return "\n".join(out) + "\n"

    def exprs_v(self):
        out = ["(* GENERATED from the repository working tree by "
               "translator/gen.py - do not edit *)",
               "From Coq Require Import ZArith Bool.",
               "Open Scope Z_scope.", ""]
        for name, args, argty, body, ty, src in self.exprs:
            out.append("(* source:")
            for ln in src.splitlines():
                out.append("   " + ln.replace('*)', '* )').replace('(*',
                                                                    '( *'))
            out.append("*)")
            tys = argty.split('*')
            if len(tys) == 1:
                tys = tys * len(args)
            binders = " ".join(f"({a} : {t.strip()})"
                               for a, t in zip(args, tys))
            out.append(f"Definition {name} {binders} : {ty} :=\n  {body}.")
            out.append("")
        return "\n".join(out) + "\n"


def write_if_changed(path, text):
    try:
        with open(path, encoding='utf-8') as f:
            if f.read() == text:
                return False
    except OSError:
        pass
    with open(path, 'w', encoding='utf-8') as f:
        f.write(text)
    return True


def main():
    outdir = sys.argv[1] if len(sys.argv) > 1 else \
        os.path.join(os.path.dirname(os.path.abspath(__file__)), '..', 'coq',
                     'Gen')
    g = Gen()
    g.run()
    sk_text, sk_tree, sk_json, sk_failed = skeleton.generate(REPO)
    g.failed += sk_failed
    changed = []
    if write_if_changed(os.path.join(outdir, 'Params.v'), g.params_v()):
        changed.append('Params.v')
    if write_if_changed(os.path.join(outdir, 'Exprs.v'), g.exprs_v()):
        changed.append('Exprs.v')
    if write_if_changed(os.path.join(outdir, 'Skeleton.v'), sk_text):
        changed.append('Skeleton.v')
    if write_if_changed(os.path.join(outdir, 'SkelTree.v'), sk_tree):
        changed.append('SkelTree.v')
    # plugins: translator/plugins/<name>.py with
    #   generate(repo) -> (coq_text, json_info, [(item, reason), ...])
    # each writes Gen/X<Name>.v (fail closed: a failing plugin writes a file
    # WITHOUT the definitions that failed and reports them)
    import importlib.util
    plug_dir = os.path.join(os.path.dirname(os.path.abspath(__file__)),
                            'plugins')
    plug_info = {}
    for fn in sorted(os.listdir(plug_dir)) if os.path.isdir(plug_dir) else []:
        if not fn.endswith('.py') or fn.startswith('_'):
            continue
        name = fn[:-3]
        try:
            spec = importlib.util.spec_from_file_location(
                'plugin_' + name, os.path.join(plug_dir, fn))
            mod = importlib.util.module_from_spec(spec)
            spec.loader.exec_module(mod)
            text, pj, pfailed = mod.generate(REPO)
        except Exception as exc:  # noqa
            text, pj, pfailed = (
                "(* GENERATED - plugin failed *)\n", {},
                [(f"plugin:{name}", f"{type(exc).__name__}: {exc}")])
        g.failed += list(pfailed)
        plug_info[name] = pj
        out_name = 'X' + name[0].upper() + name[1:] + '.v'
        if write_if_changed(os.path.join(outdir, out_name), text):
            changed.append(out_name)
    info = {'repo': REPO, 'plugins': plug_info,
            'params': {n: v for n, _, _, v in g.params},
            'exprs': {e[0]: {'args': e[1], 'body': e[3], 'source': e[5]}
                      for e in g.exprs},
            'skeleton': sk_json,
            'failed': [{'item': n, 'reason': why} for n, why in g.failed]}
    write_if_changed(os.path.join(outdir, 'gen.json'),
                     json.dumps(info, indent=1, sort_keys=True) + "\n")
    print(json.dumps({'changed': changed, 'failed': info['failed']}))
    return 0


if __name__ == '__main__':
    sys.exit(main())
