"""T1 (part 2): extract *lock skeletons* of the functions that touch state
shared between processes/threads.

A skeleton is the ordered list of the function's shared-state events, with
lock acquisition/release, loops and try/except/finally structure made
explicit:

  Acq l | Rel l | Rd c | Wr c | Call f | LoopB | LoopE
  | TryB | Handler e | FinallyB | TryE | RaiseE e | Ret

Only the accesses/calls listed in CONFIG for a function are emitted (so that
adding a log line or a local variable does not change the skeleton); lock
names are those in the function's `locks` list.  `with <lock>:` bodies and
decorators listed in `decorators` (after checking the decorator's own body)
become Acq ... Rel.  The Coq development never compares a skeleton with a
pinned copy: it evaluates boolean discipline checkers (`well_locked ...`) on
it, which are the hypotheses of the schedule-quantified theorems.

Fail closed: an unknown decorator, a missing function or a `with` item this
module cannot classify while it mentions a lock raises, the skeleton is
omitted, and every proof that instantiates it stops compiling.
"""
import ast
import os

from pyexpr import Untranslatable, find_def


def _txt(n):
    return ast.unparse(n)


def _ends_in_return(block):
    if not block:
        return False
    last = block[-1]
    if isinstance(last, ast.Return):
        return True
    return isinstance(last, ast.If) and _ends_in_return(last.body) \
        and _ends_in_return(last.orelse)


def _to_tail(stmts):
    """ statements with early returns -> the same statements with what
    follows an `if` whose one branch returns moved into its other branch, so
    that every `return` is the last statement of its branch.  None if that
    is not possible (a return inside a loop / try / with, dead code). """
    out = []
    for i, s in enumerate(stmts):
        if isinstance(s, ast.Return):
            if i != len(stmts) - 1:
                return None
            out.append(s)
            return out
        if isinstance(s, ast.If):
            body, orelse = _to_tail(s.body), _to_tail(s.orelse)
            if body is None or orelse is None:
                return None
            rest = stmts[i + 1:]
            b_ret, o_ret = _ends_in_return(body), _ends_in_return(orelse)
            if rest and b_ret != o_ret:
                rest_t = _to_tail(rest)
                if rest_t is None:
                    return None
                new = ast.If(test=s.test,
                             body=body if b_ret else body + rest_t,
                             orelse=orelse + rest_t if b_ret else orelse)
                out.append(ast.copy_location(new, s))
                return out
            if rest and b_ret and o_ret:
                return None
            out.append(ast.copy_location(
                ast.If(test=s.test, body=body, orelse=orelse), s))
            continue
        if any(isinstance(n, ast.Return) for n in ast.walk(s)):
            return None
        out.append(s)
    return out


class Walker:
    def __init__(self, cfg):
        self.locks = cfg.get('locks', {})          # source text -> name
        self.cells = cfg.get('cells', {})          # source text -> name
        self.calls = cfg.get('calls', {})          # func source text -> name
        self.withs = cfg.get('withs', {})          # func text -> (enter, exit)
        # func text -> (argument source text, name if the single argument is
        # exactly that, name otherwise)
        self.calls_by_arg = cfg.get('calls_by_arg', {})
        self.out = []
        # inlining of private helpers (see inline_target): the class body
        # the function lives in, and the helpers being inlined right now
        self.klass = None
        self.module = None
        self.inlining = []
        # > 0 while walking a helper in tail form: its returns end the
        # helper, not the function it is inlined into, so they emit no Ret
        self.tail_inline = 0

    # ----- private helpers: `self._helper(...)` whose body was extracted
    # from the function (a refactoring that keeps every event where it was)
    # is walked in place of the call.  Only helpers of the SAME class (or
    # module-level private functions), not mapped in the configuration,
    # without decorators other than staticmethod/classmethod, not recursive,
    # and whose only `return` is their last statement, are inlined; for
    # anything else the call is what it was before: no event.
    def inline_target(self, e):
        f = e.func
        name = None
        if isinstance(f, ast.Attribute) and isinstance(f.value, ast.Name) \
                and f.value.id in ('self', 'cls') or \
                isinstance(f, ast.Attribute) and self.klass is not None and \
                isinstance(f.value, ast.Name) and \
                f.value.id == self.klass.name:
            name, scope = f.attr, (self.klass.body if self.klass else [])
        elif isinstance(f, ast.Name):
            name, scope = f.id, (self.module.body if self.module else [])
        if not name or not name.startswith('_') or name.startswith('__') \
                or name in self.inlining or len(self.inlining) >= 2:
            return None
        hits = [n for n in scope if isinstance(n, ast.FunctionDef)
                and n.name == name]
        if len(hits) != 1:
            return None
        fn = hits[0]
        if any(_txt(d) not in ('staticmethod', 'classmethod')
               for d in fn.decorator_list):
            return None
        rets = [n for n in ast.walk(fn) if isinstance(n, ast.Return)]
        if any(isinstance(n, (ast.Yield, ast.YieldFrom)) for n in ast.walk(fn)):
            return None
        if rets and (len(rets) != 1 or fn.body[-1] is not rets[0]):
            # early returns: `if c: A; return x` followed by REST is the same
            # as `if c: A; return x  else: REST`; if that puts every return
            # at the end of its branch the helper can still be walked in
            # place (see _to_tail); otherwise: no event, as before
            tail = _to_tail(fn.body)
            if tail is None:
                return None
            fn = ast.FunctionDef(name=fn.name, args=fn.args, body=tail,
                                 decorator_list=fn.decorator_list,
                                 returns=None, type_comment=None,
                                 lineno=fn.lineno, col_offset=0)
            fn._tail_form = True
        return fn

    def inline(self, e, fn):
        for a in e.args:
            self.expr(a)
        for k in e.keywords:
            self.expr(k.value)
        self.inlining.append(fn.name)
        tail = getattr(fn, '_tail_form', False)
        if tail:
            self.tail_inline += 1
        try:
            for st in fn.body:
                if isinstance(st, ast.Return):
                    self.expr(st.value)
                else:
                    self.stmt(st)
        finally:
            self.inlining.pop()
            if tail:
                self.tail_inline -= 1

    def emit(self, *ev):
        self.out.append(ev)

    # ----- expressions, in evaluation order
    def expr(self, e):
        if e is None:
            return
        if isinstance(e, (ast.Attribute, ast.Subscript, ast.Name)):
            t = _txt(e)
            base = t
            if isinstance(e, ast.Subscript) and t not in self.cells:
                base = _txt(e.value)
            if base in self.cells:
                if isinstance(e, ast.Subscript):
                    self.expr(e.slice)
                store = isinstance(e.ctx, (ast.Store, ast.Del))
                self.emit('Wr' if store else 'Rd', self.cells[base])
                return
        if isinstance(e, ast.Call):
            f = _txt(e.func)
            # method call on a shared cell, e.g. db.get('0') / db.pop(...)
            if isinstance(e.func, ast.Attribute):
                owner = _txt(e.func.value)
                if owner in self.cells and f not in self.calls \
                        and f not in self.calls_by_arg:
                    for a in e.args:
                        self.expr(a)
                    for k in e.keywords:
                        self.expr(k.value)
                    meth = e.func.attr
                    wr = meth in ('pop', 'update', 'clear', 'setdefault',
                                  'append', 'add', 'put', 'put_nowait')
                    self.emit('Wr' if wr else 'Rd', self.cells[owner])
                    return
            if f in self.calls_by_arg and len(e.args) == 1 \
                    and not e.keywords:
                want, yes, no = self.calls_by_arg[f]
                self.emit('Call', yes if _txt(e.args[0]) == want else no)
                return
            # '*.meth' in CONFIG: the method, whatever the (local) receiver
            # is called
            if f not in self.calls and isinstance(e.func, ast.Attribute) \
                    and isinstance(e.func.value, ast.Name) \
                    and '*.' + e.func.attr in self.calls:
                self.calls[f] = self.calls['*.' + e.func.attr]
            if f in self.calls:
                if isinstance(e.func, ast.Attribute):
                    self.expr(e.func.value) if _txt(e.func.value) \
                        not in self.cells else None
                for a in e.args:
                    self.expr(a)
                for k in e.keywords:
                    self.expr(k.value)
                self.emit('Call', self.calls[f])
                return
            if f == 'len' and len(e.args) == 1 and \
                    _txt(e.args[0]) in self.cells:
                self.emit('Rd', self.cells[_txt(e.args[0])])
                return
            helper = self.inline_target(e)
            if helper is not None:
                self.inline(e, helper)
                return
        for ch in ast.iter_child_nodes(e):
            if isinstance(ch, ast.expr):
                self.expr(ch)
            elif isinstance(ch, (ast.keyword,)):
                self.expr(ch.value)
            elif isinstance(ch, ast.comprehension):
                self.expr(ch.iter)
                for c in ch.ifs:
                    self.expr(c)

    # ----- statements
    def block(self, body):
        for s in body:
            self.stmt(s)

    def stmt(self, s):
        if isinstance(s, ast.With):
            closers = []
            for it in s.items:
                ce = it.context_expr
                t = _txt(ce)
                if t in self.locks:
                    self.emit('Acq', self.locks[t])
                    closers.append(('Rel', self.locks[t]))
                    continue
                f = _txt(ce.func) if isinstance(ce, ast.Call) else t
                if f in self.withs:
                    if isinstance(ce, ast.Call):
                        for a in ce.args:
                            self.expr(a)
                    ent, ext = self.withs[f]
                    self.emit('Call', ent)
                    closers.append(('Call', ext))
                    continue
                if any(lk in t for lk in self.locks):
                    raise Untranslatable(f"with-item mentions a lock in an "
                                         f"unrecognised way: {t}")
                self.expr(ce)
            self.block(s.body)
            for c in reversed(closers):
                self.emit(*c)
            return
        if isinstance(s, (ast.For, ast.While)):
            if isinstance(s, ast.For):
                self.expr(s.iter)
            self.emit('LoopB')
            if isinstance(s, ast.While):
                self.expr(s.test)
            self.block(s.body)
            self.emit('LoopE')
            self.block(s.orelse)
            return
        if isinstance(s, ast.If):
            self.expr(s.test)
            self.emit('IfB')
            self.block(s.body)
            self.emit('Else')
            self.block(s.orelse)
            self.emit('IfE')
            return
        if isinstance(s, ast.Try):
            self.emit('TryB')
            self.block(s.body)
            for h in s.handlers:
                # `except (A, B):` = one handler per class, same body
                types = h.type.elts if isinstance(h.type, ast.Tuple) \
                    else [h.type]
                for ty in types:
                    self.emit('Handler', _txt(ty) if ty is not None else '*')
                    self.block(h.body)
            if s.orelse:
                self.emit('TryElse')
                self.block(s.orelse)
            if s.finalbody:
                self.emit('FinallyB')
                self.block(s.finalbody)
            self.emit('TryE')
            return
        if isinstance(s, ast.Raise):
            if s.exc is None:
                self.emit('RaiseE', 'reraise')
            else:
                e = s.exc
                name = _txt(e.func) if isinstance(e, ast.Call) else _txt(e)
                # `raise self._build_error(..)`: a private factory whose
                # single return builds the exception - the class raised is
                # the one it returns
                helper = self.inline_target(e) \
                    if isinstance(e, ast.Call) else None
                if helper is not None and \
                        isinstance(helper.body[-1], ast.Return) and \
                        helper.body[-1].value is not None:
                    rv = helper.body[-1].value
                    name = _txt(rv.func) if isinstance(rv, ast.Call) \
                        else _txt(rv)
                self.emit('RaiseE', name)
            return
        if isinstance(s, ast.Return):
            self.expr(s.value)
            if not self.tail_inline:
                self.emit('Ret')
            return
        if isinstance(s, (ast.Break, ast.Continue)):
            self.emit('Break' if isinstance(s, ast.Break) else 'Continue')
            return
        if isinstance(s, ast.Assign):
            self.expr(s.value)
            for t in s.targets:
                self.expr(t)
            return
        if isinstance(s, ast.AugAssign):
            load = ast.parse(_txt(s.target), mode='eval').body
            self.expr(load)
            self.expr(s.value)
            self.expr(s.target)
            return
        if isinstance(s, ast.Delete):
            for t in s.targets:
                self.expr(t)
            return
        if isinstance(s, (ast.FunctionDef, ast.ClassDef)):
            return
        for ch in ast.iter_child_nodes(s):
            if isinstance(ch, ast.expr):
                self.expr(ch)


STORE_LOCKS = {'RESULTS_STORE_LOCK': 'store'}
STORE_CELLS = {'self.alloc_pointer.value': 'alloc_pointer',
               'self.data': 'data',
               'self.value_store': 'value_store',
               'self.tag_store': 'tag_store',
               'self.sequence_id_store': 'sequence_id_store'}
COLL_LOCKS = {'RESULTS_COLLECTION_LOCK': 'collection',
              'RESULTS_STORE_LOCK': 'store'}
CACHE_LOCKS = {'self.cache_lock': 'cache', 'self.global_lock': 'global'}
CACHE = {'locks': CACHE_LOCKS, 'cells': {'db': 'record'},
         'withs': {'shelve.open': ('open', 'close')},
         'calls': {}}

CONFIG = [
    # name, file, qualname, cfg
    ('rs_locked', 'searchkit/results_store.py', 'rs_locked',
     {'locks': STORE_LOCKS, 'calls': {'f': 'wrapped'}}),
    ('preallocate', 'searchkit/results_store.py',
     'ResultStoreParallel.preallocate',
     {'locks': STORE_LOCKS, 'cells': STORE_CELLS}),
    ('sync', 'searchkit/results_store.py', 'ResultStoreParallel.sync',
     {'locks': STORE_LOCKS, 'cells': STORE_CELLS,
      'calls': {'self._add_to_store': 'add_to_store'}}),
    ('unproxy_results', 'searchkit/results_store.py',
     'ResultStoreParallel.unproxy_results',
     {'locks': STORE_LOCKS, 'cells': STORE_CELLS}),
    ('cache_get', 'searchkit/utils.py', 'MPCacheSimple.get', CACHE),
    ('cache_set', 'searchkit/utils.py', 'MPCacheSimple.set', CACHE),
    ('cache_bulk_set', 'searchkit/utils.py', 'MPCacheSimple.bulk_set',
     CACHE),
    ('cache_unset', 'searchkit/utils.py', 'MPCacheSimple.unset', CACHE),
    ('cache_base_path', 'searchkit/utils.py', 'MPCacheBase.cache_base_path',
     {'locks': CACHE_LOCKS, 'calls': {'os.makedirs': 'makedirs',
                                      'os.path.isdir': 'isdir'}}),
    ('get_results', 'searchkit/search.py', 'FileSearcher._get_results',
     {'locks': COLL_LOCKS,
      'calls': {'results_queue.empty': 'q_empty',
                'results_queue.get': 'q_get', 'results.add': 'coll_add',
                'event.is_set': 'stop_requested'},
      'cells': {'results': 'collection'}}),
    ('purge_results', 'searchkit/search.py', 'FileSearcher._purge_results',
     {'locks': COLL_LOCKS,
      'calls': {'results_queue.empty': 'q_empty',
                'results_queue.get': 'q_get', 'results.add': 'coll_add'},
      'cells': {'results': 'collection', 'expected': 'expected'}}),
    ('get_info', 'searchkit/search.py', 'FileSearcher._get_info',
     {'locks': COLL_LOCKS,
      'calls': {'event.is_set': 'stop_requested'},
      'cells': {'results': 'collection', 'results_store': 'store_len'}}),
    ('run_mp', 'searchkit/search.py', 'FileSearcher._run_mp',
     {'locks': COLL_LOCKS,
      'withs': {'concurrent.futures.ProcessPoolExecutor':
                ('pool_enter', 'pool_exit')},
      'calls': {'executor.submit': 'submit',
                'info_thread.start': 'info_start',
                'results_thread.start': 'results_start',
                'info_thread.stop': 'info_stop',
                'results_thread.stop': 'results_stop',
                'future.result': 'future_result',
                'self.stats.update': 'stats_update',
                'self._purge_results': 'purge',
                'self._ensure_worker_processes_killed': 'kill_workers',
                'RESULTS_STORE_LOCK.acquire': 'store_lock_try_acquire',
                'RESULTS_STORE_LOCK.release': 'store_lock_force_release',
                'concurrent.futures.as_completed': 'as_completed'},
      'cells': {"self.stats['jobs_completed']": 'jobs_completed',
                "self.stats['total_jobs']": 'total_jobs',
                "self.stats['results']": 'stats_results'}}),
    ('run', 'searchkit/search.py', 'FileSearcher.run',
     {'locks': COLL_LOCKS,
      'withs': {'multiprocessing.Manager': ('mgr_enter', 'mgr_exit')},
      'calls': {'self._run_mp': 'run_mp', 'self._run_single': 'run_single',
                '*.unproxy_results': 'unproxy',
                'self.stats.reset': 'stats_reset'}}),
    ('execute', 'searchkit/task.py', 'SearchTask.execute',
     {'locks': {},
      'withs': {'gzip.open': ('gzip_open', 'gzip_close'),
                'open': ('plain_open', 'plain_close')},
      'calls': {'self._run_search': 'run_search', 'fd.peek': 'gzip_probe',
                'self._flush_results_buffer': 'flush',
                'self.results_manager.results_store.sync': 'sync',
                'os.path.getsize': 'getsize'}}),
    ('put_result', 'searchkit/task.py', 'SearchTask.put_result',
     {'locks': {},
      'calls': {'self.results_manager.results_queue.put_nowait': 'q_put',
                'self.results_manager.results_queue.put': 'q_put_block',
                'self.results_manager.results_collection.add': 'coll_add',
                'time.sleep': 'sleep'},
      'cells': {"self.stats['results']": 'stats_results'}}),
    ('apply_to_file', 'searchkit/constraints.py',
     'SearchConstraintSearchSince.apply_to_file',
     {'locks': {},
      'calls': {'seeker.run': 'seeker_run', 'fd.seek': 'fd_seek',
                'fd.tell': 'fd_tell',
                'LogFileDateSinceSeeker': 'seeker_new'},
      'cells': {'self._results': 'offset_cache'}}),
    ('extracted_datetime', 'searchkit/constraints.py',
     'SearchConstraintSearchSince.extracted_datetime',
     {'locks': {}, 'cells': {'timestamp.strptime': 'strptime'},
      'calls': {'line.decode': 'decode_window',
                'self.ts_matcher_cls': 'ts_match'}}),
    ('seeker_run', 'searchkit/constraints.py', 'LogFileDateSinceSeeker.run',
     {'locks': {}, 'calls': {'bisect.bisect_left': 'bisect_left',
                             'self.try_find_line_with_date': 'tfld'},
      'cells': {'result.date': 'line_date'}}),
    ('seeker_getitem', 'searchkit/constraints.py',
     'LogFileDateSinceSeeker.__getitem__',
     {'locks': {}, 'calls': {'self.try_find_line_with_date': 'tfld'},
      'cells': {'result.date': 'line_date'}}),
    ('find_token', 'searchkit/constraints.py',
     'LogFileDateSinceSeeker.find_token',
     {'locks': {}, 'calls': {'self.file.read': 'read',
                             'self.file.seek': 'seek'}}),
    ('find_token_reverse', 'searchkit/constraints.py',
     'LogFileDateSinceSeeker.find_token_reverse',
     {'locks': {}, 'calls': {'self.file.read': 'read',
                             'self.file.seek': 'seek'}}),
    ('run_search', 'searchkit/task.py', 'SearchTask._run_search',
     {'locks': {},
      'calls': {'self.stats.reset': 'stats_reset',
                'self.constraints_manager.apply_global': 'apply_global',
                'self.constraints_manager.apply_single': 'apply_single',
                'line.decode': 'decode_line',
                'self._sequence_search': 'sequence_search',
                'self._simple_search': 'simple_search',
                'self._process_sequence_results': 'process_sequences',
                's_def.reset': 'seq_reset', 'enumerate': 'enumerate_lines'},
      'cells': {"self.stats['lines_searched']": 'lines_searched'}}),
    ('run_single', 'searchkit/search.py', 'FileSearcher._run_single',
     {'locks': {},
      'calls': {'self.stats.update': 'stats_update',
                'task.execute': 'task_execute'},
      'cells': {"self.stats['jobs_completed']": 'jobs_completed',
                "self.stats['total_jobs']": 'total_jobs'}}),
    ('stats_update', 'searchkit/task.py', 'SearchTaskStats.update',
     {'locks': {}, 'cells': {'self.data[key]': 'stat_slot'}}),
    ('apply_global', 'searchkit/search.py',
     'SearchConstraintsManager.apply_global',
     {'locks': {}, 'calls': {'c.apply_to_file': 'apply_to_file'}}),
    ('apply_single', 'searchkit/search.py',
     'SearchConstraintsManager.apply_single',
     {'locks': {}, 'calls': {'c.apply_to_line': 'apply_to_line'}}),
    ('apply_to_line', 'searchkit/constraints.py',
     'SearchConstraintSearchSince.apply_to_line',
     {'locks': {}, 'calls': {'self.extracted_datetime':
                             'extracted_datetime'}}),
    ('try_find_line', 'searchkit/constraints.py',
     'LogFileDateSinceSeeker.try_find_line',
     {'locks': {}, 'calls': {'self.find_token': 'find_token',
                             'self.find_token_reverse':
                             'find_token_reverse'}}),
    ('tfld', 'searchkit/constraints.py',
     'LogFileDateSinceSeeker.try_find_line_with_date',
     {'locks': {}, 'calls': {'self.try_find_line': 'try_find_line'},
      'cells': {'log_line.date': 'line_date'}}),
    ('logline_date', 'searchkit/constraints.py', 'LogLine.date',
     {'locks': {}, 'calls': {'self._constraint.extracted_datetime':
                             'extracted_datetime',
                             'self._read_line': 'read_line'}}),
    ('sequence_search', 'searchkit/task.py', 'SearchTask._sequence_search',
     {'locks': {},
      'calls': {'seq_def.s_start.run': 'start_run',
                'seq_def.s_end.run': 'end_run',
                'seq_def.s_body.run': 'body_run',
                'sequence_results.remove': 'results_remove',
                'sequence_results.add': 'results_add',
                'seq_def.reset': 'def_reset', 'seq_def.start': 'def_start',
                'seq_def.stop': 'def_stop'},
      'cells': {'seq_def.started': 'started', 'seq_def.s_end': 's_end',
                'seq_def.s_body': 's_body',
                'seq_def.current_section_id': 'section_id',
                'ret': 'ret'}}),
    ('process_sequence_results', 'searchkit/task.py',
     'SearchTask._process_sequence_results',
     {'locks': {},
      'calls': {'sequence_results.add': 'results_add',
                'self.results_buffer.append': 'buffer_append',
                'self._flush_results_buffer': 'flush'},
      # the end pattern must be tried on the EMPTY string
      'calls_by_arg': {'seq_def.s_end.run': ("''", 'end_run_empty',
                                             'end_run_other'),
                       's_def.s_end.run': ("''", 'end_run_empty',
                                           'end_run_other')},
      'cells': {'seq_def.started': 'started', 'seq_def.s_end': 's_end',
                'seq_def.current_section_id': 'section_id',
                's_def.started': 'started', 's_def.s_end': 's_end',
                's_def.current_section_id': 'section_id',
                'filter_section_id': 'filter', 'ret': 'ret'}}),
    ('searchdef_run', 'searchkit/searchdef.py', 'SearchDef.run',
     {'locks': {},
      'calls': {'self.hint.search': 'hint_search',
                'pattern.match': 'pattern_match'},
      'cells': {'self.hint': 'hint', 'self.patterns': 'patterns'}}),
    ('simple_search', 'searchkit/task.py', 'SearchTask._simple_search',
     {'locks': {},
      'calls': {'search_def.run': 'def_run', 'SearchResult': 'new_result',
                'self.results_buffer.append': 'buffer_append',
                'self._flush_results_buffer': 'flush'}}),
    ('flush_results_buffer', 'searchkit/task.py',
     'SearchTask._flush_results_buffer',
     {'locks': {},
      'calls': {'self.put_result': 'put_result',
                'self.results_buffer.pop': 'buffer_pop',
                'QueueTransitBuffer': 'slice_buffer'},
      'cells': {'self.results_buffer': 'buffer'}}),
    ('store_result', 'searchkit/result.py', 'SearchResult.store_result',
     {'locks': {},
      'calls': {'self._save_part': 'save_part', 'result.groups': 'groups',
                'result.group': 'group'}}),
    ('add_to_store', 'searchkit/results_store.py',
     'ResultStoreBase._add_to_store',
     {'locks': STORE_LOCKS,
      'calls': {'self._allocate_next': 'allocate_next'},
      'cells': {'store': 'reverse_map', 'value': 'value', 'idx': 'idx'}}),
    ('allocate_next', 'searchkit/results_store.py',
     'ResultStoreBase._allocate_next',
     {'locks': STORE_LOCKS,
      'calls': {'self.data.items': 'scan_data'},
      'cells': {'self.allocations': 'allocations', 'self.data': 'data',
                'value': 'value'}}),
    ('allocations', 'searchkit/results_store.py',
     'ResultStoreBase.allocations',
     {'locks': STORE_LOCKS,
      'calls': {'self.f_preallocator': 'preallocator'},
      'cells': {'self._allocations': 'current_block', 'self.data': 'data',
                'self.prealloc_block_size': 'bsize'}}),
    ('store_add', 'searchkit/results_store.py', 'ResultStoreBase.add',
     {'locks': STORE_LOCKS,
      'calls': {'self._add_to_store': 'add_to_store'},
      'cells': {'self.value_store': 'value_store',
                'self.tag_store': 'tag_store',
                'self.sequence_id_store': 'sequence_id_store'}}),
    ('save_part', 'searchkit/result.py', 'SearchResult._save_part',
     {'locks': {},
      'calls': {'self.field_info.index_to_name': 'index_to_name',
                'self.field_info.ensure_type': 'ensure_type',
                'self.results_store.add': 'store_add',
                'self.data.append': 'parts_append'},
      'cells': {'self.field_info': 'field_info', 'value': 'value'}}),
    ('get_store_id', 'searchkit/result.py',
     'SearchResultBase._get_store_id',
     {'locks': {}, 'cells': {'self.data': 'parts'}}),
    ('result_get', 'searchkit/result.py', 'SearchResultBase.get',
     {'locks': {}, 'calls': {'self._get_store_id': 'get_store_id'},
      'cells': {'self.results_store': 'store'}}),
    ('collection_add', 'searchkit/search.py', 'SearchResultsCollection.add',
     {'locks': {},
      'calls': {'result.register_results_store': 'register_store',
                'self.search_catalog.source_id_to_path': 'resolve_source'},
      'cells': {'self._results_by_path': 'by_path'}}),
    ('filtered_dir', 'searchkit/search.py', 'SearchCatalog._filtered_dir',
     {'locks': {},
      'calls': {'os.path.isfile': 'isfile', 'path.endswith': 'endswith_log',
                'sorted': 'sorted', 'new_contents.append': 'keep'},
      'cells': {'logrotated': 'groups', 'limit': 'limit'}}),
    ('register', 'searchkit/search.py', 'SearchCatalog.register',
     {'locks': {},
      'calls': {'self._expand_path': 'expand_path',
                'self.get_source_id': 'get_source_id'},
      'cells': {'self._entries': 'entries',
                'self._search_tags': 'search_tags'}}),
    ('fs_add', 'searchkit/search.py', 'FileSearcher.add',
     {'locks': {},
      'calls': {'self.constraints_manager.global_restrictions.add':
                'restrict', 'self.catalog.register': 'register'}}),
    ('resolve_from_tag', 'searchkit/search.py',
     'SearchCatalog.resolve_from_tag',
     {'locks': {},
      'calls': {'self.resolve_from_id': 'resolve_from_id',
                'searches.append': 'append'},
      'cells': {'self._search_tags': 'search_tags'}}),
    ('resolve_from_id', 'searchkit/search.py',
     'SearchCatalog.resolve_from_id',
     {'locks': {},
      'cells': {'self._simple_searches': 'simple',
                'self._sequence_searches': 'sequence'}}),
    ('source_id_to_path', 'searchkit/search.py',
     'SearchCatalog.source_id_to_path',
     {'locks': {}, 'cells': {'self._source_ids': 'source_ids'}}),
    ('collection_init', 'searchkit/search.py',
     'SearchResultsCollection.__init__',
     {'locks': {}, 'calls': {'self.reset': 'reset'},
      'cells': {'self._results_by_path': 'by_path'}}),
    ('collection_reset', 'searchkit/search.py',
     'SearchResultsCollection.reset',
     {'locks': {}, 'cells': {'self._results_by_path': 'by_path'}}),
    # --- C10: helper-thread manager, worker clean-up, exception classes
    ('tm_init', 'searchkit/search.py', 'ThreadManager.__init__',
     {'locks': {},
      'calls': {'threading.Event': 'event_new',
                'self.event.clear': 'event_clear',
                'self.event.set': 'event_set',
                'threading.Thread': 'thread_new',
                'self.thread.start': 'thread_start',
                'self.thread.join': 'thread_join'},
      'cells': {'self.running': 'running'}}),
    ('tm_start', 'searchkit/search.py', 'ThreadManager.start',
     {'locks': {},
      'calls': {'self.thread.start': 'thread_start',
                'self.event.set': 'event_set',
                'self.thread.join': 'thread_join'},
      'cells': {'self.running': 'running'}}),
    ('tm_stop', 'searchkit/search.py', 'ThreadManager.stop',
     {'locks': {},
      'calls': {'self.event.set': 'event_set',
                'self.event.clear': 'event_clear',
                'self.thread.join': 'thread_join',
                'self.thread.start': 'thread_start'},
      'cells': {'self.running': 'running'}}),
    ('kill_workers', 'searchkit/search.py',
     'FileSearcher._ensure_worker_processes_killed',
     {'locks': {},
      'calls': {'multiprocessing.active_children': 'active_children',
                'subprocess.check_output': 'ps_children',
                'os.kill': 'kill', 'os.getpid': 'getpid',
                'worker_pids.append': 'remember_worker'}}),
    ('cm_init', 'searchkit/search.py', 'SearchConstraintsManager.__init__',
     {'locks': {},
      'cells': {'self.search_catalog': 'search_catalog',
                'self.global_constraints': 'global_constraints',
                'self.global_restrictions': 'global_restrictions'}}),
    ('fs_stats', 'searchkit/search.py', 'FileSearcher.stats',
     {'locks': {}, 'calls': {'self._stats.reset': 'stats_reset'},
      'cells': {'self._stats': 'stats'}}),
    ('rse_init', 'searchkit/exception.py', 'ResultStoreException.__init__',
     {'locks': {}, 'calls': {'super().__init__': 'super_init'},
      'cells': {'self.msg': 'msg', 'self.args': 'args'}}),
    ('fse_init', 'searchkit/exception.py', 'FileSearchException.__init__',
     {'locks': {}, 'calls': {'super().__init__': 'super_init'},
      'cells': {'self.msg': 'msg', 'self.args': 'args'}}),
    # ---- constructors / accessors mirrored by Model/Task.v (C01 / C07):
    # which argument flows into which attribute, what is compiled, in which
    # order (arguments are cells named arg_*)
    ('searchdefbase_init', 'searchkit/searchdef.py', 'SearchDefBase.__init__',
     {'locks': {},
      'cells': {'self._constraints': 'constraints_attr',
                'constraints': 'arg_constraints', 'self.id': 'id'}}),
    ('searchdefbase_constraints', 'searchkit/searchdef.py',
     'SearchDefBase.constraints',
     {'locks': {},
      'cells': {'self._constraints': 'constraints_attr',
                'c.id': 'constraint_id'}}),
    ('searchdefbase_id', 'searchkit/searchdef.py', 'SearchDefBase.id',
     {'locks': {}, 'calls': {'uuid.uuid4': 'uuid4'}}),
    ('searchdef_init', 'searchkit/searchdef.py', 'SearchDef.__init__',
     {'locks': {},
      'calls': {'re.compile': 're_compile', 'super().__init__': 'super_init',
                'isinstance': 'isinstance'},
      'cells': {'self.patterns': 'patterns', 'pattern': 'arg_pattern',
                'self.store_result_contents': 'store_result_contents',
                'store_result_contents': 'arg_store_result_contents',
                'self.tag': 'tag', 'tag': 'arg_tag',
                'self.field_info': 'field_info',
                'field_info': 'arg_field_info',
                'self.hint': 'hint', 'hint': 'arg_hint',
                'self.sequence_def': 'sequence_def'}}),
    ('searchdef_link_to_sequence', 'searchkit/searchdef.py',
     'SearchDef.link_to_sequence',
     {'locks': {},
      'cells': {'self.sequence_def': 'sequence_def',
                'sequence_def': 'arg_sequence_def',
                'self.tag': 'tag', 'tag': 'arg_tag'}}),
    ('searchtask_init', 'searchkit/task.py', 'SearchTask.__init__',
     {'locks': {},
      'calls': {'SearchTaskStats': 'stats_new'},
      'cells': {'self.proc': 'proc', 'self.info': 'info', 'info': 'arg_info',
                'self.stats': 'stats',
                'self.constraints_manager': 'constraints_manager',
                'constraints_manager': 'arg_constraints_manager',
                'self.results_manager': 'results_manager',
                'results_manager': 'arg_results_manager',
                'self.decode_kwargs': 'decode_kwargs',
                'decode_errors': 'arg_decode_errors',
                'self.results_buffer': 'results_buffer'}}),
    ('resultsmanager_init', 'searchkit/task.py',
     'SearchTaskResultsManager.__init__',
     {'locks': {},
      'cells': {'self._results_store': 'results_store',
                'results_store': 'arg_results_store',
                'self._results_queue': 'results_queue',
                'results_queue': 'arg_results_queue',
                'self._results_collection': 'results_collection',
                'results_collection': 'arg_results_collection'}}),
    ('resultsmanager_results_store', 'searchkit/task.py',
     'SearchTaskResultsManager.results_store',
     {'locks': {}, 'cells': {'self._results_store': 'results_store'}}),
    ('resultsmanager_results_queue', 'searchkit/task.py',
     'SearchTaskResultsManager.results_queue',
     {'locks': {}, 'cells': {'self._results_queue': 'results_queue'}}),
    ('resultsmanager_results_collection', 'searchkit/task.py',
     'SearchTaskResultsManager.results_collection',
     {'locks': {},
      'cells': {'self._results_collection': 'results_collection'}}),
    # ---- store / result (C15, C06, C05): the remaining functions
    ('rsp_init', 'searchkit/results_store.py', 'ResultStoreParallel.__init__',
     {'locks': STORE_LOCKS,
      'calls': {'super().__init__': 'base_init', 'mgr.Value': 'mgr_value',
                'mgr.dict': 'mgr_dict'},
      'cells': {'self.alloc_pointer': 'alloc_pointer', 'self.data': 'data',
                'self.value_store': 'value_store',
                'self.tag_store': 'tag_store',
                'self.sequence_id_store': 'sequence_id_store',
                'self._local_store': 'local_store'}}),
    ('rsp_allocate_next', 'searchkit/results_store.py',
     'ResultStoreParallel._allocate_next',
     {'locks': STORE_LOCKS, 'cells': STORE_CELLS,
      'calls': {'super()._allocate_next': 'base_allocate_next'}}),
    ('rsp_local', 'searchkit/results_store.py', 'ResultStoreParallel.local',
     {'locks': STORE_LOCKS,
      'calls': {'os.getpid': 'getpid', 'ResultStoreSimple': 'new_local_store'},
      'cells': {'self._local_store': 'local_store',
                'self.preallocate': 'preallocate_fn',
                'self.prealloc_block_size': 'bsize'}}),
    ('rsp_add', 'searchkit/results_store.py', 'ResultStoreParallel.add',
     {'locks': STORE_LOCKS, 'calls': {'self.local.add': 'local_add'},
      'cells': dict(STORE_CELLS, **{'self.local': 'local'})}),
    ('base_sync', 'searchkit/results_store.py', 'ResultStoreBase.sync',
     {'locks': STORE_LOCKS, 'cells': STORE_CELLS}),
    # sync once more, this time looking at the worker-LOCAL tables: they are
    # only read
    ('sync_local', 'searchkit/results_store.py', 'ResultStoreParallel.sync',
     {'locks': STORE_LOCKS,
      'cells': {'self.local.data': 'local_data',
                'self.local.value_store': 'local_value_store',
                'self.local.tag_store': 'local_tag_store',
                'self.local.sequence_id_store': 'local_sequence_id_store',
                'self.local': 'local'}}),
    ('result_base_init', 'searchkit/result.py', 'SearchResultBase.__init__',
     {'locks': {}, 'calls': {'super().__init__': 'base_init'},
      'cells': {'self.results_store': 'store',
                'self.linenumber': 'linenumber',
                'self.section_id': 'section_id'}}),
    ('result_iter', 'searchkit/result.py', 'SearchResultBase.__iter__',
     {'locks': {}, 'calls': {'self.results_store.get': 'store_get'},
      'cells': {'self.data': 'parts', 'self.results_store': 'store'}}),
    ('minimal_init', 'searchkit/result.py', 'SearchResultMinimal.__init__',
     {'locks': {},
      'cells': {'self.data': 'parts', 'self.metadata': 'meta',
                'self.linenumber': 'linenumber',
                'self.source_id': 'source_id',
                'self.section_id': 'section_id',
                'self.field_names': 'field_names',
                'self.results_store': 'store'}}),
    ('minimal_getattr', 'searchkit/result.py',
     'SearchResultMinimal.__getattr__',
     {'locks': {}, 'calls': {'self.get': 'get'},
      'cells': {'self.field_names': 'field_names'}}),
    ('minimal_tag', 'searchkit/result.py', 'SearchResultMinimal.tag',
     {'locks': {}, 'calls': {'self.results_store.get': 'store_get'},
      'cells': {'self.metadata': 'meta', 'self.results_store': 'store'}}),
    ('minimal_sequence_id', 'searchkit/result.py',
     'SearchResultMinimal.sequence_id',
     {'locks': {}, 'calls': {'self.results_store.get': 'store_get'},
      'cells': {'self.metadata': 'meta', 'self.results_store': 'store'}}),
    ('register_results_store', 'searchkit/result.py',
     'SearchResultMinimal.register_results_store',
     {'locks': {}, 'cells': {'self.results_store': 'store'}}),
    ('result_init', 'searchkit/result.py', 'SearchResult.__init__',
     {'locks': {}, 'calls': {'self.store_result': 'store_result'},
      'cells': {'self.results_store': 'store', 'self.data': 'parts',
                'self.linenumber': 'linenumber',
                'self.source_id': 'source_id', 'self.tag': 'tag',
                'self.section_id': 'section_id',
                'self.sequence_id': 'sequence_id',
                'self.field_info': 'field_info',
                'search_def.tag': 'def_tag',
                'search_def.sequence_def.id': 'def_sequence_id',
                'search_def.sequence_def': 'def_sequence',
                'search_def.field_info': 'def_field_info',
                'search_def.store_result_contents': 'def_store_contents'}}),
    ('result_metadata', 'searchkit/result.py', 'SearchResult.metadata',
     {'locks': {}, 'calls': {'self.results_store.add': 'store_add'},
      'cells': {'self.tag': 'tag', 'self.sequence_id': 'sequence_id',
                'self.results_store': 'store'}}),
    ('result_export', 'searchkit/result.py', 'SearchResult.export',
     {'locks': {}, 'calls': {'SearchResultMinimal': 'new_minimal'},
      'cells': {'self.data': 'parts', 'self.metadata': 'metadata_property',
                'self.linenumber': 'linenumber',
                'self.source_id': 'source_id',
                'self.section_id': 'section_id',
                'self.field_info': 'field_info'}}),
]

ARG0 = {'Acq', 'Rel', 'Rd', 'Wr', 'Call', 'Handler', 'RaiseE'}


def coq_ev(ev):
    if ev[0] in ARG0:
        return f'{ev[0]} "{ev[1]}"'
    return ev[0]


def to_tree(evs):
    """ flat event list with structure markers -> nested Coq `list stm` """
    pos = [0]

    def block(stops):
        out = []
        while pos[0] < len(evs) and evs[pos[0]][0] not in stops:
            e = evs[pos[0]]
            k = e[0]
            pos[0] += 1
            if k == 'IfB':
                a = block({'Else'})
                pos[0] += 1
                b = block({'IfE'})
                pos[0] += 1
                out.append(f"SIf {a} {b}")
            elif k == 'LoopB':
                b = block({'LoopE'})
                pos[0] += 1
                out.append(f"SLoop {b}")
            elif k == 'TryB':
                body = block({'Handler', 'TryElse', 'FinallyB', 'TryE'})
                hs, orelse, fin = [], "[]", "[]"
                while evs[pos[0]][0] != 'TryE':
                    m = evs[pos[0]]
                    pos[0] += 1
                    part = block({'Handler', 'TryElse', 'FinallyB', 'TryE'})
                    if m[0] == 'Handler':
                        hs.append(f'("{m[1]}", {part})')
                    elif m[0] == 'TryElse':
                        orelse = part
                    else:
                        fin = part
                pos[0] += 1
                out.append(f"STry {body} [{'; '.join(hs)}] {orelse} {fin}")
            elif k == 'RaiseE':
                out.append(f'SRaise "{e[1]}"')
            elif k in ('Ret', 'Break', 'Continue'):
                out.append("SExit")
            else:
                out.append(f"SEv ({coq_ev(e)})")
        return "[" + "; ".join(out) + "]"
    t = block(set())
    if pos[0] != len(evs):
        raise Untranslatable("unbalanced structure markers")
    return t


def decorator_events(tree, fn, cfg):
    """ Acq/Rel implied by decorators (only rs_locked is understood). """
    pre, post = [], []
    for d in fn.decorator_list:
        t = _txt(d)
        if t in ('staticmethod', 'property', 'cached_property',
                 'abc.abstractmethod', 'classmethod'):
            continue
        if t == 'rs_locked':
            deco = find_def(tree, 'rs_locked')
            w = Walker({'locks': STORE_LOCKS, 'calls': {'f': 'wrapped'}})
            inner = [n for n in deco.body if isinstance(n, ast.FunctionDef)]
            if len(inner) != 1:
                raise Untranslatable("rs_locked: unexpected shape")
            w.block(inner[0].body)
            evs = [e for e in w.out if e[0] in ('Acq', 'Rel', 'Call')]
            if evs != [('Acq', 'store'), ('Call', 'wrapped'),
                       ('Rel', 'store')]:
                raise Untranslatable(f"rs_locked no longer wraps the call in "
                                     f"the store lock: {evs}")
            pre.append(('Acq', 'store'))
            post.insert(0, ('Rel', 'store'))
            continue
        raise Untranslatable(f"{fn.name}: unknown decorator {t}")
    return pre, post


def class_of(tree, qual):
    """ ClassDef node of `Class.method` qualnames (None for functions) """
    parts = qual.split('.')
    if len(parts) < 2:
        return None
    for n in tree.body:
        if isinstance(n, ast.ClassDef) and n.name == parts[0]:
            return n
    return None


def generate(repo):
    trees = {}
    failed = []
    defs = []
    tdefs = []
    js = {}
    for name, rel, qual, cfg in CONFIG:
        try:
            if rel not in trees:
                with open(os.path.join(repo, rel), encoding='utf-8') as f:
                    trees[rel] = ast.parse(f.read())
            fn = find_def(trees[rel], qual)
            pre, post = decorator_events(trees[rel], fn, cfg)
            w = Walker(cfg)
            w.module = trees[rel]
            w.klass = class_of(trees[rel], qual)
            w.block(fn.body)
            evs = pre + w.out + post
            js[name] = [list(e) for e in evs]
            to_tree(evs)
            body = ";\n   ".join(coq_ev(e) for e in evs)
            tree_txt = to_tree(evs)
            defs.append(f"Definition sk_{name} : list ev :=\n  [{body}].\n")
            tdefs.append(f"Definition tk_{name} : list stm :=\n  "
                         f"{tree_txt}.\n")
        except (Untranslatable, OSError, SyntaxError) as exc:
            failed.append((f"skeleton:{name}", f"{type(exc).__name__}: {exc}"))
    text = ("(* GENERATED from the repository working tree by "
            "translator/skeleton.py - do not edit *)\n"
            "From Coq Require Import String List.\n"
            "From SK Require Import Model.Skel.\n"
            "Import ListNotations.\nOpen Scope string_scope.\n\n"
            + "\n".join(defs))
    ttext = ("(* GENERATED from the repository working tree by "
             "translator/skeleton.py - do not edit *)\n"
             "From Coq Require Import String List.\n"
             "From SK Require Import Model.Skel Model.Stm.\n"
             "Import ListNotations.\nOpen Scope string_scope.\n\n"
             + "\n".join(tdefs))
    return text, ttext, js, failed
