"""T1 plugin for C17: the parts of SearchTaskStats (searchkit/task.py) that
neither the increments in Gen/Exprs.v nor the tree skeletons show, as Gallina
definitions in Gen/XStats.v:

  reset      stats_reset_fields   the dictionary a reset installs: key ->
                                  Some n for an integer literal, None for a
                                  FRESH empty list literal `[]`
  __init__   stats_init_resets    the constructor ends by calling self.reset()
  update     stats_update_op      `self.data[key] += val` for every item of
                                  the argument (the merge is one `+=` per key)

Fail closed: `reset` must consist of exactly one statement
`self.data = {<literal dict>}` (docstring and log calls aside) whose values
are integer literals or `[]` - a value taken from anywhere else (a class
attribute, a module constant, a copy of a template) may be shared between
instances and is refused.
"""
import ast
import os


class Bad(Exception):
    pass


def _find(tree, cls, fn):
    for n in tree.body:
        if isinstance(n, ast.ClassDef) and n.name == cls:
            for m in n.body:
                if isinstance(m, ast.FunctionDef) and m.name == fn:
                    return m
    raise Bad(f"{cls}.{fn} not found")


def _nolog(body):
    out = []
    for st in body:
        if isinstance(st, ast.Expr) and isinstance(st.value, ast.Constant) \
                and isinstance(st.value.value, str):
            continue            # docstring
        if isinstance(st, ast.Expr) and isinstance(st.value, ast.Call) and \
                ast.unparse(st.value.func).startswith('log.'):
            continue
        out.append(st)
    return out


def reset_fields(fn):
    body = _nolog(fn.body)
    if len(body) != 1 or not isinstance(body[0], ast.Assign) or \
            len(body[0].targets) != 1 or \
            ast.unparse(body[0].targets[0]) != 'self.data' or \
            not isinstance(body[0].value, ast.Dict):
        raise Bad("reset: expected the single statement "
                  "`self.data = {<literal>}`")
    items = []
    for k, v in zip(body[0].value.keys, body[0].value.values):
        if not (isinstance(k, ast.Constant) and isinstance(k.value, str)):
            raise Bad("reset: non-literal key")
        if isinstance(v, ast.Constant) and isinstance(v.value, int) and \
                not isinstance(v.value, bool):
            items.append((k.value, f"Some ({v.value})"))
        elif isinstance(v, ast.List) and not v.elts:
            items.append((k.value, "None"))
        else:
            raise Bad(f"reset: value of {k.value!r} is neither an integer "
                      f"literal nor a fresh `[]`: {ast.unparse(v)}")
    txt = ("(* " + ast.unparse(body[0]).replace('(*', '( *') + " *)\n"
           "Definition stats_reset_fields : list (string * option Z) :=\n  ["
           + "; ".join(f'("{k}", {v})' for k, v in items) + "].\n")
    return txt, [k for k, _ in items]


def init_resets(fn):
    body = _nolog(fn.body)
    ok = (len(body) == 2 and
          ast.unparse(body[0]) == 'super().__init__()' and
          ast.unparse(body[1]) == 'self.reset()')
    if not ok:
        raise Bad("__init__: expected `super().__init__(); self.reset()`")
    return "Definition stats_init_resets : bool := true.\n", None


def update_op(fn):
    body = _nolog(fn.body)
    if len(body) != 2:
        raise Bad("update: expected a guard and one loop")
    g, lp = body
    if not (isinstance(g, ast.If) and ast.unparse(g.test) == 'not stats' and
            len(g.body) == 1 and isinstance(g.body[0], ast.Return) and
            g.body[0].value is None and not g.orelse):
        raise Bad("update: guard `if not stats: return`")
    if not (isinstance(lp, ast.For) and not lp.orelse and
            ast.unparse(lp.iter) == 'stats.items()' and
            isinstance(lp.target, ast.Tuple) and len(lp.target.elts) == 2):
        raise Bad("update: loop `for key, val in stats.items()`")
    k, v = (ast.unparse(e) for e in lp.target.elts)
    inner = _nolog(lp.body)
    if not (len(inner) == 1 and isinstance(inner[0], ast.AugAssign) and
            isinstance(inner[0].op, ast.Add) and
            ast.unparse(inner[0].target) == f'self.data[{k}]' and
            ast.unparse(inner[0].value) == v):
        raise Bad("update: body `self.data[key] += val`")
    return 'Definition stats_update_op : string := "+=".\n', None


def generate(repo):
    with open(os.path.join(repo, 'searchkit', 'task.py'),
              encoding='utf-8') as f:
        tree = ast.parse(f.read())
    text = ("(* GENERATED from the repository working tree by "
            "translator/plugins/stats.py - do not edit *)\n"
            "From Coq Require Import String ZArith List Bool.\n"
            "Import ListNotations.\nOpen Scope string_scope.\n"
            "Open Scope Z_scope.\n\n")
    info, failed = {}, []
    jobs = [('reset', lambda: reset_fields(_find(tree, 'SearchTaskStats',
                                                 'reset'))),
            ('init', lambda: init_resets(_find(tree, 'SearchTaskStats',
                                               '__init__'))),
            ('update', lambda: update_op(_find(tree, 'SearchTaskStats',
                                               'update')))]
    for name, job in jobs:
        try:
            txt, extra = job()
            text += txt + "\n"
            info[name] = extra
        except Bad as exc:
            failed.append((f"stats:{name}", str(exc)))
    return text, info, failed
