"""T1 plugin for C15 / C06 / C05: small source-derived facts about
results_store.py that the tree skeletons cannot see (-> coq/Gen/XStore.v).

x_sync_data_guard_is_not_none
    ResultStoreParallel.sync(): the loop that copies the worker-local
    idx -> value table into the shared one guards the copy with
    `<value> is not None` - NOT with the value's truthiness (0, '', 0.0,
    False, () are legal stored values) - where <value> is the loop's own
    value variable and the guarded statement assigns self.data[<idx>].
Fail closed: if the statement no longer has that shape the definition is
omitted and the theorems naming it stop compiling.  Names of locals, an
alias for self.local, logging and comments may change freely.
"""
import ast
import os
import sys

sys.path.insert(0, os.path.dirname(os.path.dirname(os.path.abspath(__file__))))
from pyexpr import Untranslatable, find_def  # noqa: E402


def U(n):
    return ast.unparse(n)


def sync_guard(tree):
    f = find_def(tree, 'ResultStoreParallel.sync')
    found = []
    for loop in [n for n in ast.walk(f) if isinstance(n, ast.For)]:
        if not (isinstance(loop.target, ast.Tuple)
                and len(loop.target.elts) == 2
                and all(isinstance(e, ast.Name) for e in loop.target.elts)):
            continue
        idx, val = (e.id for e in loop.target.elts)
        for st in ast.walk(loop):
            if not isinstance(st, ast.If):
                continue
            writes = [a for a in ast.walk(st) if isinstance(a, ast.Assign)
                      and any(U(t) == f"self.data[{idx}]" for t in a.targets)]
            if not writes:
                continue
            t = st.test
            ok = (isinstance(t, ast.Compare) and len(t.ops) == 1
                  and isinstance(t.ops[0], ast.IsNot)
                  and isinstance(t.left, ast.Name) and t.left.id == val
                  and isinstance(t.comparators[0], ast.Constant)
                  and t.comparators[0].value is None)
            if not ok:
                raise Untranslatable(
                    f"line {st.lineno}: sync(): the copy into self.data is "
                    f"guarded by `{U(t)}`, expected `{val} is not None`")
            found.append(st.lineno)
    if len(found) != 1:
        raise Untranslatable("sync(): expected exactly one guarded copy "
                             f"`self.data[idx] = value`, found {len(found)}")
    return ("Definition x_sync_data_guard_is_not_none : bool := true.",
            {'line': found[0]})


def generate(repo):
    with open(os.path.join(repo, 'searchkit', 'results_store.py'),
              encoding='utf-8') as fh:
        tree = ast.parse(fh.read())
    text = ("(* GENERATED from the repository working tree by "
            "translator/plugins/store.py - do not edit *)\n"
            "From Coq Require Import Bool.\n\n")
    info, failed = {}, []
    for name, job in [('x_sync_data_guard', lambda: sync_guard(tree))]:
        try:
            txt, extra = job()
            text += txt + "\n"
            info[name] = extra
        except (Untranslatable, AttributeError, IndexError, KeyError,
                TypeError) as exc:
            failed.append((f"store:{name}", f"{type(exc).__name__}: {exc}"))
    return text, info, failed
