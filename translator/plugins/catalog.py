"""T1 plugin for C09 / C14: source-derived pieces of SearchCatalog,
logrotate_log_sort and SearchResultsCollection (-> coq/Gen/XCatalog.v).

Every item is a small RECOGNISER of the exact statement shape the Coq model
was written against, plus a translation of the expression inside it
(pyexpr.Tr) where there is one.  Fail closed: an item whose statement no
longer has the recognised shape is reported as failed and its definition is
omitted, so the theorems of Props/C09.v / Props/C14.v that mention it stop
compiling.  Reads, logging, comments and docstrings may change freely.
"""
import ast
import os
import sys

sys.path.insert(0, os.path.dirname(os.path.dirname(os.path.abspath(__file__))))
from pyexpr import Tr, Untranslatable, find_def, find_assign  # noqa: E402


def U(n):
    return ast.unparse(n)


def need(cond, why, node=None):
    if not cond:
        where = f"line {getattr(node, 'lineno', '?')}: " if node is not None \
            else ''
        raise Untranslatable(where + why)


def strlit(s):
    return "[" + "; ".join(str(ord(c)) for c in s) + "]"


def real_body(f):
    """ statements of a function without docstring / logging calls """
    out = []
    for n in f.body:
        if isinstance(n, ast.Expr) and isinstance(n.value, ast.Constant):
            continue
        if isinstance(n, ast.Expr) and isinstance(n.value, ast.Call) \
                and U(n.value.func).startswith('log.'):
            continue
        out.append(n)
    return out


def strip_log(stmts):
    return [n for n in stmts
            if not (isinstance(n, ast.Expr) and isinstance(n.value, ast.Call)
                    and U(n.value.func).startswith('log.'))]


def one(xs, why, node=None):
    need(len(xs) == 1, f"{why}: expected exactly one, found {len(xs)}", node)
    return xs[0]


def is_continue_if(n):
    return isinstance(n, ast.If) and not n.orelse and \
        len(strip_log(n.body)) == 1 and isinstance(strip_log(n.body)[0],
                                                   ast.Continue)


class Out:
    def __init__(self):
        self.defs = []
        self.info = {}
        self.failed = []

    def item(self, name, fn):
        try:
            text, info = fn()
            self.defs.append(text)
            self.info[name] = info
        except (Untranslatable, AssertionError, AttributeError, IndexError,
                KeyError, TypeError) as exc:
            self.failed.append((name, f"{type(exc).__name__}: {exc}"))


def path_selector(f, name):
    """ `if path: paths = [path] else: paths = list(<dict>.keys())` """
    ifs = [n for n in real_body(f) if isinstance(n, ast.If)]
    n = one(ifs, f"{f.name}: top-level if", f)
    need(isinstance(n.test, ast.Name) and n.test.id == 'path',
         f"{f.name}: the path test is not the truthiness of `path`: "
         f"{U(n.test)}", n)
    need(len(n.body) == 1 and U(n.body[0]) == 'paths = [path]',
         f"{f.name}: restricted branch is not `paths = [path]`", n)
    need(len(n.orelse) == 1 and
         U(n.orelse[0]) == 'paths = list(self._results_by_path.keys())',
         f"{f.name}: unrestricted branch is not all keys", n)
    return (f"Definition {name} (p : Z) : bool := truthy p.",
            {'test': U(n.test)})


def nested_filter(f, outer_iter, inner_iter):
    """ the `for _path in paths: for result in self.find_by_path(_path):`
    nest; returns the inner body """
    fors = [n for n in real_body(f) if isinstance(n, ast.For)]
    o = one(fors, f"{f.name}: outer loop", f)
    need(U(o.iter) == outer_iter, f"{f.name}: outer loop over {U(o.iter)}", o)
    inner = one([n for n in strip_log(o.body)], f"{f.name}: outer body", o)
    need(isinstance(inner, ast.For) and U(inner.iter) == inner_iter,
         f"{f.name}: inner loop is not over {inner_iter}", inner)
    return strip_log(inner.body), inner


def generate(repo):
    out = Out()
    with open(os.path.join(repo, 'searchkit/search.py'),
              encoding='utf-8') as fh:
        tree = ast.parse(fh.read())

    # ------------------------------------------------------------- C09
    def fd_cap():
        f = find_def(tree, 'SearchCatalog._filtered_dir')
        lim = find_assign(f.body, 'limit')
        t_lim, ty = Tr(names={'max_logrotate_depth': 'depth'}).expr(lim)
        need(ty == 'Z', "limit is not an integer expression", lim)
        loops = [n for n in f.body if isinstance(n, ast.For)
                 and U(n.iter).endswith('.values()')]
        lp = one(loops, "_filtered_dir: loop over the groups", f)
        need(isinstance(lp.target, ast.Name), "group loop target", lp)
        g = lp.target.id
        body = strip_log(lp.body)
        need(len(body) == 2, "_filtered_dir: group loop body changed", lp)
        cap = body[0]
        need(isinstance(cap, ast.Assign) and U(cap.targets[0]) == 'capped'
             and isinstance(cap.value, ast.Subscript), "capped = ...[...]",
             cap)
        srt, sl = cap.value.value, cap.value.slice
        need(isinstance(srt, ast.Call) and U(srt.func) == 'sorted'
             and len(srt.args) == 1 and U(srt.args[0]) == g
             and [(k.arg, U(k.value)) for k in srt.keywords]
             == [('key', 'logrotate_log_sort')],
             "sorted(<group>, key=logrotate_log_sort)", srt)
        need(isinstance(sl, ast.Slice) and sl.lower is None
             and sl.step is None and sl.upper is not None,
             "the cap is not a plain [:upper] slice", cap)
        t_up, ty = Tr(names={'limit': 'limit'}).expr(sl.upper)
        need(ty == 'Z', "slice bound is not an integer expression", sl)
        need(U(body[1]) == 'new_contents += capped',
             "capped copies are not appended to the result", body[1])
        return (f"Definition x_fd_limit (depth : Z) : Z := {t_lim}.\n"
                "Definition x_fd_cap {A} (key : A -> Z) (limit : Z) "
                f"(l : list A) : list A :=\n  py_take ({t_up}) "
                "(sort_by key l).",
                {'limit': U(lim), 'slice_upper': U(sl.upper)})
    out.item('x_fd_cap', fd_cap)

    def fd_loop():
        f = find_def(tree, 'SearchCatalog._filtered_dir')
        lp = one([n for n in f.body if isinstance(n, ast.For)
                  and U(n.iter) == 'contents'], "loop over contents", f)
        body = strip_log(lp.body)
        need(len(body) == 5, "_filtered_dir: per-path body changed", lp)
        skip, assign, nomatch, pfx, live = body
        need(is_continue_if(skip), "isfile skip", skip)
        t_skip = Tr(calls={'os.path.isfile(path)': 'isfile'},
                    bools=['isfile']).cond(skip.test)
        need(isinstance(assign, ast.Assign) and U(assign.targets[0]) == 'ret'
             and isinstance(assign.value, ast.Call)
             and U(assign.value.func).startswith('re.compile(')
             and U(assign.value.func).endswith('.match')
             and [U(a) for a in assign.value.args] == ['path'],
             "ret = re.compile(..).match(path)", assign)
        need(isinstance(nomatch, ast.If) and U(nomatch.test) == 'not ret'
             and [U(x) for x in strip_log(nomatch.body)]
             == ['new_contents.append(path)', 'continue']
             and not nomatch.orelse, "unmatched path kept as is", nomatch)
        need(U(pfx) == 'fnamepfix = ret.group(1)', "group(1) prefix", pfx)
        need(isinstance(live, ast.If) and isinstance(live.test, ast.Call)
             and U(live.test.func) == 'path.endswith'
             and len(live.test.args) == 1
             and isinstance(live.test.args[0], ast.Constant)
             and isinstance(live.test.args[0].value, str),
             "path.endswith('<literal>')", live)
        sfx = live.test.args[0].value
        app = one(strip_log(live.body), "live branch", live)
        need(isinstance(app, ast.Expr) and isinstance(app.value, ast.Call)
             and U(app.value.func) == 'new_contents.append'
             and len(app.value.args) == 1
             and isinstance(app.value.args[0], ast.BinOp)
             and isinstance(app.value.args[0].op, ast.Add)
             and U(app.value.args[0].left) == 'fnamepfix'
             and isinstance(app.value.args[0].right, ast.Constant)
             and isinstance(app.value.args[0].right.value, str),
             "new_contents.append(fnamepfix + '<literal>')", app)
        added = app.value.args[0].right.value
        grp = one(live.orelse, "rotated branch", live)
        need(isinstance(grp, ast.If)
             and U(grp.test) == 'fnamepfix not in logrotated'
             and [U(x) for x in grp.body] == ['logrotated[fnamepfix] = [path]']
             and [U(x) for x in grp.orelse]
             == ['logrotated[fnamepfix].append(path)'],
             "grouping by prefix (new list / append)", grp)
        return ("Definition x_fd_skips (isfile : bool) : bool := "
                f"{t_skip}.\n"
                f"Definition x_fd_live_suffix : list Z := {strlit(sfx)}.\n"
                "Definition x_fd_live_appended (pfx : list Z) : list Z := "
                f"pfx ++ {strlit(added)}.\n"
                "Definition x_fd_groups_by_prefix : bool := true.",
                {'skip': U(skip.test), 'suffix': sfx, 'appended': added})
    out.item('x_fd_loop', fd_loop)

    def source_id():
        f = find_def(tree, 'SearchCatalog.get_source_id')
        top = one([n for n in real_body(f) if isinstance(n, ast.If)],
                  "get_source_id: if", f)
        need(U(top.test) == 'not self._source_ids', "empty-table test", top)
        first = one(strip_log(top.body), "first id", top)
        need(isinstance(first, ast.Assign)
             and U(first.targets[0]) == 'source_id', "source_id = ..", first)
        t0, ty = Tr().expr(first.value)
        need(ty == 'Z', "first id not an integer", first)
        rest = strip_log(top.orelse)
        need(len(rest) == 2, "lookup loop + new id", top)
        loop, new = rest
        need(isinstance(loop, ast.For)
             and U(loop.iter) == 'self._source_ids.items()'
             and U(loop.target) == '(source_id, _path)'
             and [U(x) for x in strip_log(loop.body)]
             == ['if _path == path:\n    return source_id'],
             "existing path returns its id", loop)
        need(isinstance(new, ast.Assign) and U(new.targets[0]) == 'source_id',
             "new id assignment", new)
        t1, ty = Tr(subst={'max(list(self._source_ids))':
                           ('m', 'Z', ['m'])}).expr(new.value)
        need(ty == 'Z', "new id not an integer", new)
        tail = [U(x) for x in real_body(f)[-2:]]
        need(tail == ['self._source_ids[source_id] = path',
                      'return source_id'], "table update / return", f)
        return (f"Definition x_first_source_id : Z := {t0}.\n"
                f"Definition x_next_source_id (m : Z) : Z := {t1}.",
                {'first': U(first.value), 'next': U(new.value)})
    out.item('x_source_id', source_id)

    def sort_key():
        f = find_def(tree, 'logrotate_log_sort')
        body = real_body(f)
        rets = [n for n in ast.walk(f) if isinstance(n, ast.Return)]
        need(len(rets) == 3, "three returns", f)
        live = one([n for n in body if isinstance(n, ast.If)
                    and U(n.test) == 'len(ret.groups()) == 0'],
                   "no-group test", f)
        r0 = one(strip_log(live.body), "live return", live)
        need(isinstance(r0, ast.Return), "live return", r0)
        t0, ty = Tr().expr(r0.value)
        last = body[-1]
        need(isinstance(last, ast.Return) and isinstance(last.value, ast.Call)
             and U(last.value.func) == 'int'
             and len(last.value.args) == 1
             and isinstance(last.value.args[0], ast.Call)
             and U(last.value.args[0].func) == 'ret.group'
             and len(last.value.args[0].args) == 1
             and isinstance(last.value.args[0].args[0], ast.Constant),
             "return int(ret.group(<k>))", last)
        k = last.value.args[0].args[0].value
        need(isinstance(k, int), "group index", last)
        lp = one([n for n in body if isinstance(n, ast.For)], "filter loop",
                 f)
        need(U(lp.iter) == 'filters'
             and [U(x) for x in strip_log(lp.body)]
             == ['ret = re.compile(f).match(fname)', 'if ret:\n    break'],
             "first matching filter wins (re.match)", lp)
        return (f"Definition x_sort_live_key : Z := {t0}.\n"
                f"Definition x_sort_group_index : Z := {k}.\n"
                "Definition x_sort_first_match_wins : bool := true.",
                {'live': U(r0.value), 'group': k})
    out.item('x_sort_key', sort_key)

    def expand():
        f = find_def(tree, 'SearchCatalog._expand_path')
        body = real_body(f)
        need(len(body) == 3, "_expand_path: three cases", f)
        a, b, c = body
        need(isinstance(a, ast.If) and U(a.test) == 'os.path.isfile(path)'
             and [U(x) for x in a.body] == ['return [path]'] and not a.orelse,
             "a file denotes itself", a)
        need(isinstance(b, ast.If) and U(b.test) == 'os.path.isdir(path)'
             and len(b.body) == 1 and isinstance(b.body[0], ast.Return)
             and U(b.body[0].value).replace(' ', '').replace('\n', '')
             == ('self._filtered_dir([os.path.join(path,f)forfin'
                 'os.listdir(path)],self.max_logrotate_depth)'),
             "directory: joined listing through _filtered_dir", b)
        need(isinstance(c, ast.Return) and U(c.value) ==
             'self._filtered_dir(glob.glob(path), self.max_logrotate_depth)',
             "glob through _filtered_dir", c)
        return ("Definition x_expand_file_is_itself : bool := true.\n"
                "Definition x_expand_dir_joins : bool := true.\n"
                "Definition x_expand_glob_filtered : bool := true.", {})
    out.item('x_expand_path', expand)

    # ------------------------------------------------------------- C14
    def fbt():
        f = find_def(tree, 'SearchResultsCollection.find_by_tag')
        sel, info = path_selector(f, 'x_fbt_restrict')
        body, inner = nested_filter(f, 'paths', 'self.find_by_path(_path)')
        need(len(body) == 2 and is_continue_if(body[0])
             and U(body[0].test) == 'result.tag != tag'
             and U(body[1]) == 'results.append(result)',
             "find_by_tag: keep iff not (result.tag != tag)", inner)
        need(U(real_body(f)[-1]) == 'return results', "return results", f)
        # `if result.tag != tag: continue` = keep iff the tags are equal
        return (sel + "\nDefinition x_fbt_keeps (rt t : option Z) : bool := "
                "oz_eqb rt t.", info)
    out.item('x_find_by_tag', fbt)

    def gasr():
        f = find_def(tree,
                     'SearchResultsCollection._get_all_sequence_results')
        sel, info = path_selector(f, 'x_seq_restrict')
        body, inner = nested_filter(f, 'paths', 'self.find_by_path(_path)')
        need(len(body) == 2 and is_continue_if(body[0])
             and U(body[0].test) == 'result.sequence_id is None'
             and U(body[1]) == 'sequences.append(result)',
             "keep iff sequence_id is not None", inner)
        need(U(real_body(f)[-1]) == 'return sequences', "return", f)
        return (sel + "\nDefinition x_seq_keeps (s : option Z) : bool := "
                "match s with Some _ => true | None => false end.", info)
    out.item('x_all_sequence_results', gasr)

    def fss():
        f = find_def(tree, 'SearchResultsCollection.find_sequence_sections')
        lp = one([n for n in real_body(f) if isinstance(n, ast.For)],
                 "loop", f)
        need(U(lp.iter) == 'self._get_all_sequence_results(path=path)',
             "iterates the (path-restricted) sequence results", lp)
        body = strip_log(lp.body)
        need([U(x) for x in body] ==
             ['s_id = result.sequence_id',
              'if s_id != sequence_obj.id:\n    continue',
              'section_id = result.section_id',
              'if section_id not in _results:\n    _results[section_id] = []',
              '_results[section_id].append(result)'],
             "find_sequence_sections: filter by definition id, group by "
             "section_id", lp)
        need(U(real_body(f)[-1]) == 'return _results', "return", f)
        return ("Definition x_fss_keeps (s : option Z) (d : Z) : bool := "
                "oz_eqb s (Some d).\n"
                "Definition x_fss_groups_by_section_id : bool := true.", {})
    out.item('x_find_sequence_sections', fss)

    def fsbt():
        f = find_def(tree, 'SearchResultsCollection.find_sequence_by_tag')
        body = real_body(f)
        need([U(x) for x in body] ==
             ['sections = {}',
              'for seq_obj in self.search_catalog.resolve_from_tag(tag):\n'
              '    sections.update(self.find_sequence_sections(seq_obj, '
              'path))',
              'return sections'],
             "find_sequence_by_tag: dict.update per resolved definition", f)
        return ("Definition x_fsbt_updates_per_definition : bool := true.",
                {})
    out.item('x_find_sequence_by_tag', fsbt)

    def length():
        f = find_def(tree, 'SearchResultsCollection.__len__')
        body = real_body(f)
        need(len(body) == 3, "__len__ body", f)
        init, lp, ret = body
        need(isinstance(init, ast.Assign) and U(init.targets[0]) == '_count',
             "_count = ..", init)
        t0, ty = Tr().expr(init.value)
        need(isinstance(lp, ast.For) and U(lp.iter) == 'self.files'
             and U(lp.target) == 'f' and len(lp.body) == 1
             and isinstance(lp.body[0], ast.AugAssign)
             and isinstance(lp.body[0].op, ast.Add)
             and U(lp.body[0].target) == '_count', "loop over files", lp)
        t1, ty = Tr(subst={'len(self.find_by_path(f))': ('n', 'Z', ['n'])}
                    ).expr(lp.body[0].value)
        need(ty == 'Z' and U(ret) == 'return _count', "return _count", ret)
        return (f"Definition x_len_init : Z := {t0}.\n"
                "Definition x_len_step (count n : Z) : Z := "
                f"count + {t1}.", {'step': U(lp.body[0].value)})
    out.item('x_len', length)

    def add_():
        f = find_def(tree, 'SearchResultsCollection.add')
        lp = one(real_body(f), "add: one loop", f)
        need(isinstance(lp, ast.For) and U(lp.iter) == 'results', "loop", lp)
        body = [x for x in strip_log(lp.body)
                if not (isinstance(x, ast.Expr)
                        and isinstance(x.value, ast.Constant))]
        need([U(x) for x in body] ==
             ['result.register_results_store(self.results_store)',
              'path = self.search_catalog.source_id_to_path('
              'result.source_id)',
              'if path not in self._results_by_path:\n'
              '    self._results_by_path[path] = [result]\n'
              'else:\n    self._results_by_path[path].append(result)'],
             "add: resolve the source id, new list or append", lp)
        g = find_def(tree, 'SearchResultsCollection.find_by_path')
        need([U(x) for x in real_body(g)] ==
             ['return self._results_by_path.get(path, [])'],
             "find_by_path: dict.get with [] default", g)
        a = find_def(tree, 'SearchResultsCollection.all')
        need([U(x) for x in real_body(a)] ==
             ['for results in self._results_by_path.values():\n'
              '    yield from results'], "all: every value, in order", a)
        return ("Definition x_add_appends_by_resolved_path : bool := true.\n"
                "Definition x_find_by_path_default_empty : bool := true.\n"
                "Definition x_all_yields_every_value : bool := true.", {})
    out.item('x_add', add_)

    def result_meta():
        with open(os.path.join(repo, 'searchkit/result.py'),
                  encoding='utf-8') as fh:
            rt = ast.parse(fh.read())
        base = find_def(rt, 'SearchResultBase')
        consts = {U(n.targets[0]): n.value.value for n in base.body
                  if isinstance(n, ast.Assign)
                  and isinstance(n.value, ast.Constant)}
        need(consts.get('META_OFFSET_TAG') == 0
             and consts.get('META_OFFSET_SEQ_ID') == 1, "metadata offsets",
             base)
        for prop, off in (('tag', 'META_OFFSET_TAG'),
                          ('sequence_id', 'META_OFFSET_SEQ_ID')):
            f = find_def(rt, 'SearchResultMinimal.' + prop)
            need([U(x) for x in real_body(f)] ==
                 [f'idx = self.metadata[self.{off}]',
                  'if idx is None:\n    return None',
                  'return self.results_store.get(idx)'],
                 f"SearchResultMinimal.{prop}: None iff the metadata slot "
                 "is None, else the store entry", f)
        # SearchResult.__init__: the sequence id is taken from the linked
        # sequence definition BEFORE the early return of results that do not
        # store their contents (a marker result still belongs to its section)
        init = find_def(rt, 'SearchResult.__init__')
        top = [U(n.test) if isinstance(n, ast.If) else None
               for n in init.body]
        need('search_def.sequence_def' in top
             and 'not search_def.store_result_contents' in top
             and top.index('search_def.sequence_def')
             < top.index('not search_def.store_result_contents'),
             "SearchResult.__init__: sequence_id is not set before the "
             "store_result_contents early return", init)
        seq_if = init.body[top.index('search_def.sequence_def')]
        need(U(seq_if.body[-1]) ==
             'self.sequence_id = search_def.sequence_def.id',
             "sequence_id = id of the linked sequence definition", seq_if)
        return ("Definition x_result_meta_none_iff_slot_none : bool := true."
                "\nDefinition x_result_sequence_id_before_early_return : "
                "bool := true.", {})
    out.item('x_result_meta', result_meta)

    def task_defs():
        with open(os.path.join(repo, 'searchkit/task.py'),
                  encoding='utf-8') as fh:
            tt = ast.parse(fh.read())
        sd = find_def(tt, 'SearchTask.search_defs')
        first = real_body(sd)[0]
        need(U(first) ==
             "alldefs = {s_def: True for s_def in self.info['searches']}",
             "search_defs: dict keyed by the definition", first)
        need(U(real_body(sd)[-1]) == 'return alldefs', "return alldefs", sd)
        rs = find_def(tt, 'SearchTask._run_search')
        lines = one([n for n in rs.body if isinstance(n, ast.For)
                     and U(n.iter).startswith('enumerate(fd')],
                    "_run_search: loop over lines", rs)
        inner = one([n for n in lines.body if isinstance(n, ast.For)],
                    "per-line loop over definitions", lines)
        need(U(inner.iter) == 'self.search_defs' and U(inner.target) == 's_def',
             "the per-line loop does not iterate self.search_defs: "
             + U(inner.iter), inner)
        return ("Definition x_task_defs_dict_keyed_by_definition : bool := "
                "true.\nDefinition x_task_line_loop_over_search_defs : bool "
                ":= true.", {})
    out.item('x_task_defs', task_defs)

    # ------------------------------------------- round 3: remaining lookups
    def fs_add():
        f = find_def(tree, 'FileSearcher.add')
        body = real_body(f)
        need(len(body) == 2, "FileSearcher.add: restriction + register", f)
        test, reg = body
        need(isinstance(test, ast.If) and not test.orelse
             and [U(x) for x in strip_log(test.body)] ==
             ['self.constraints_manager.global_restrictions.add('
              'searchdef.id)'],
             "restriction keyed by the definition id", test)
        t = Tr(names={'allow_global_constraints': 'allow'},
               bools=['allow']).cond(test.test)
        need(U(reg) == 'self.catalog.register(searchdef, path)',
             "register(searchdef, path)", reg)
        g = find_def(tree, 'FileSearcher.files')
        need([U(x) for x in real_body(g)] ==
             ["return [e['path'] for e in self.catalog]"],
             "FileSearcher.files: entry paths in catalog order", g)
        h = find_def(tree, 'FileSearcher.resolve_source_id')
        need([U(x) for x in real_body(h)] ==
             ['return self.catalog.source_id_to_path(source_id)'],
             "resolve_source_id delegates to the catalog", h)
        return (f"Definition x_fs_add_restricts (allow : bool) : bool := {t}."
                "\nDefinition x_fs_files_are_entry_paths : bool := true.\n"
                "Definition x_fs_resolve_source_delegates : bool := true.",
                {'test': U(test.test)})
    out.item('x_fs_add', fs_add)

    def catalog_lookups():
        f = find_def(tree, 'SearchCatalog.resolve_from_id')
        need([U(x) for x in real_body(f)] ==
             ['if search_id in self._simple_searches:\n'
              '    return self._simple_searches[search_id]',
              'return self._sequence_searches[search_id]'],
             "resolve_from_id: simple table first, then sequence table", f)
        g = find_def(tree, 'SearchCatalog.resolve_from_tag')
        need([U(x) for x in real_body(g)] ==
             ['searches = []',
              'for search_id in self._search_tags[tag]:\n'
              '    searches.append(self.resolve_from_id(search_id))',
              'return searches'],
             "resolve_from_tag: every id of _search_tags[tag], in order "
             "(KeyError for an unknown tag)", g)
        h = find_def(tree, 'SearchCatalog.source_id_to_path')
        body = real_body(h)
        need(len(body) == 2 and isinstance(body[0], ast.Try)
             and [U(x) for x in body[0].body] ==
             ['return self._source_ids[s_id]']
             and len(body[0].handlers) == 1
             and U(body[0].handlers[0].type) == 'KeyError'
             and not strip_log(body[0].handlers[0].body)
             and not body[0].orelse and not body[0].finalbody
             and U(body[1]) == 'return None',
             "source_id_to_path: table entry, None for an unknown id", h)
        ln = find_def(tree, 'SearchCatalog.__len__')
        it = find_def(tree, 'SearchCatalog.__iter__')
        need([U(x) for x in real_body(ln)] == ['return len(self._entries)']
             and [U(x) for x in real_body(it)] ==
             ['yield from self._entries.values()'],
             "catalog length / iteration = the entries, in order", ln)
        return ("Definition x_resolve_from_id_simple_then_sequence : bool := "
                "true.\nDefinition x_resolve_from_tag_maps_tag_table : bool "
                ":= true.\nDefinition x_source_id_unknown_is_none : bool := "
                "true.\nDefinition x_catalog_iterates_entries : bool := "
                "true.", {})
    out.item('x_catalog_lookups', catalog_lookups)

    def collection_state():
        cls = find_def(tree, 'SearchResultsCollection')
        init = find_def(tree, 'SearchResultsCollection.__init__')
        ib = [U(x) for x in real_body(init)]
        need(ib[0] == 'super().__init__()' and ib[-1] == 'self.reset()'
             and 'self.search_catalog = search_catalog' in ib
             and 'self.results_store = results_store' in ib,
             "__init__: catalog, store, then reset()", init)
        reset = find_def(tree, 'SearchResultsCollection.reset')
        rb = real_body(reset)
        need(all(isinstance(x, ast.Assign) and len(x.targets) == 1
                 and isinstance(x.targets[0], ast.Attribute)
                 and U(x.targets[0].value) == 'self' for x in rb),
             "reset: only assignments to attributes", reset)
        cleared = {U(x.targets[0]): U(x.value) for x in rb}
        need(cleared.get('self._results_by_path') == '{}',
             "reset empties _results_by_path", reset)
        # every piece of state that add()/__init__ maintain besides the
        # catalog and the store must be re-initialised by reset()
        state = set()
        for fn in (find_def(tree, 'SearchResultsCollection.add'), init):
            for n in ast.walk(fn):
                tgt = []
                if isinstance(n, ast.Assign):
                    tgt = n.targets
                elif isinstance(n, (ast.AugAssign, ast.AnnAssign)):
                    tgt = [n.target]
                elif isinstance(n, ast.Call) and isinstance(n.func,
                                                            ast.Attribute):
                    tgt = [n.func.value]       # self.x.append(..) etc.
                for t in tgt:
                    while isinstance(t, ast.Subscript):
                        t = t.value
                    if isinstance(t, ast.Attribute) and U(t.value) == 'self' \
                            and isinstance(getattr(t, 'ctx', None),
                                           (ast.Store, ast.Load)):
                        state.add(U(t))
        state -= {'self.search_catalog', 'self.results_store', 'self.reset',
                  'self.search_catalog.source_id_to_path'}
        state = {x for x in state if x.count('.') == 1}
        missing = sorted(state - set(cleared))
        need(not missing, "reset() does not re-initialise state that add()/"
             f"__init__ maintain: {missing}", reset)
        # and __len__ & co read only that state (through files/find_by_path)
        files = find_def(tree, 'SearchResultsCollection.files')
        need([U(x) for x in real_body(files)] ==
             ['return list(self._results_by_path.keys())'],
             "files = keys of _results_by_path", files)
        ga = find_def(tree, 'SearchResultsCollection.__getattribute__')
        need([U(x) for x in real_body(ga)] ==
             ["if name != 'data':\n"
              "    return super().__getattribute__(name)",
              'results = {}',
              'for path, _results in self._results_by_path.items():\n'
              '    results[path] = _results',
              'return results'],
             "`data` is a fresh dict filled from _results_by_path", ga)
        del cls
        return ("Definition x_collection_init_resets : bool := true.\n"
                "Definition x_reset_reinitialises_all_state : bool := true.\n"
                "Definition x_files_are_keys : bool := true.\n"
                "Definition x_data_is_copy_of_by_path : bool := true.",
                {'state': sorted(state), 'reset': sorted(cleared)})
    out.item('x_collection_state', collection_state)

    def searcher_base():
        for name in ('files', 'num_parallel_tasks', 'add', 'run'):
            f = find_def(tree, 'SearcherBase.' + name)
            need(any(U(d) == 'abc.abstractmethod' for d in f.decorator_list)
                 and not real_body(f),
                 f"SearcherBase.{name}: abstract, docstring only", f)
        return "Definition x_searcher_base_is_abstract : bool := true.", {}
    out.item('x_searcher_base', searcher_base)

    def field_info():
        init = find_def(tree, 'ResultFieldInfo.__init__')
        need([U(x) for x in real_body(init)] ==
             ['if issubclass(fields.__class__, dict):\n    data = fields\n'
              'else:\n    data = {f: None for f in fields}',
              'super().__init__(data)'],
             "ResultFieldInfo: a dict keeps its types, a list has none", init)
        et = find_def(tree, 'ResultFieldInfo.ensure_type')
        need([U(x) for x in real_body(et)] ==
             ['if name not in self.data or self.data[name] is None:\n'
              '    return value',
              'return self.data[name](value)'],
             "ensure_type: cast iff the field declares a type", et)
        itn = find_def(tree, 'ResultFieldInfo.index_to_name')
        body = real_body(itn)
        need(len(body) == 2 and U(body[0]) ==
             'for i, _field in enumerate(self.data):\n'
             '    if index == i:\n        return _field'
             and isinstance(body[1], ast.Raise)
             and U(body[1].exc.func) == 'FileSearchException',
             "index_to_name: the index-th field name, else "
             "FileSearchException", itn)
        return ("Definition x_field_info_list_untyped : bool := true.\n"
                "Definition x_ensure_type_casts_iff_typed : bool := true.\n"
                "Definition x_index_to_name_is_nth : bool := true.", {})
    out.item('x_field_info', field_info)

    text = ("(* GENERATED from the repository working tree by "
            "translator/plugins/catalog.py - do not edit *)\n"
            "From Coq Require Import ZArith List Bool.\n"
            "From SK Require Import Model.Collection Model.Catalog.\n"
            "Import ListNotations.\nOpen Scope Z_scope.\n\n"
            + "\n\n".join(out.defs) + "\n")
    return text, out.info, out.failed
