"""T1 plugin for C09 / C14: source-derived pieces of SearchCatalog,
logrotate_log_sort and SearchResultsCollection (-> coq/Gen/XCatalog.v).

Every item is a small RECOGNISER of the exact statement shape the Coq model
was written against, plus a translation of the expression inside it
(pyexpr.Tr) where there is one.  Fail closed: an item whose statement no
longer has the recognised shape is reported as failed and its definition is
omitted, so the theorems of Props/C09.v / Props/C14.v that mention it stop
compiling.  Reads, logging, comments and docstrings may change freely.
"""
import ast
import os
import sys

sys.path.insert(0, os.path.dirname(os.path.dirname(os.path.abspath(__file__))))
from pyexpr import Tr, Untranslatable, find_def, find_assign  # noqa: E402


def U(n):
    return ast.unparse(n)


def need(cond, why, node=None):
    if not cond:
        where = f"line {getattr(node, 'lineno', '?')}: " if node is not None \
            else ''
        raise Untranslatable(where + why)


def strlit(s):
    return "[" + "; ".join(str(ord(c)) for c in s) + "]"


def real_body(f):
    """ statements of a function without docstring / logging calls """
    out = []
    for n in f.body:
        if isinstance(n, ast.Expr) and isinstance(n.value, ast.Constant):
            continue
        if isinstance(n, ast.Expr) and isinstance(n.value, ast.Call) \
                and U(n.value.func).startswith('log.'):
            continue
        out.append(n)
    return out


def strip_log(stmts):
    return [n for n in stmts
            if not (isinstance(n, ast.Expr) and isinstance(n.value, ast.Call)
                    and U(n.value.func).startswith('log.'))]


def one(xs, why, node=None):
    need(len(xs) == 1, f"{why}: expected exactly one, found {len(xs)}", node)
    return xs[0]


def is_continue_if(n):
    return isinstance(n, ast.If) and not n.orelse and \
        len(strip_log(n.body)) == 1 and isinstance(strip_log(n.body)[0],
                                                   ast.Continue)



# ---------------------------------------------------------------- normal forms
class _Rename(ast.NodeTransformer):
    def __init__(self, mapping):
        self.mapping = mapping

    def visit_Name(self, n):
        return ast.copy_location(
            ast.Name(id=self.mapping.get(n.id, n.id), ctx=n.ctx), n)


def ren(node, mapping):
    """ source text of node with local names renamed """
    import copy
    return U(_Rename(mapping).visit(copy.deepcopy(node)))


_FLIP = {ast.Is: ast.IsNot, ast.IsNot: ast.Is, ast.Eq: ast.NotEq,
         ast.NotEq: ast.Eq, ast.In: ast.NotIn, ast.NotIn: ast.In}


def negate(t):
    """ the negation of a test, with `not` pushed into a single comparison """
    if isinstance(t, ast.UnaryOp) and isinstance(t.op, ast.Not):
        return t.operand
    if isinstance(t, ast.Compare) and len(t.ops) == 1 \
            and type(t.ops[0]) in _FLIP:
        return ast.Compare(left=t.left, ops=[_FLIP[type(t.ops[0])]()],
                           comparators=t.comparators)
    if isinstance(t, ast.BoolOp):          # De Morgan
        return ast.BoolOp(op=ast.Or() if isinstance(t.op, ast.And)
                          else ast.And(), values=[negate(v) for v in t.values])
    return ast.UnaryOp(op=ast.Not(), operand=t)


def inline_temps(stmts):
    """ `t = E ; ... t ...` with t a local assigned once in this block: the
    last statement with every such temporary replaced by its expression """
    import copy
    env = {}

    class Sub(ast.NodeTransformer):
        def visit_Name(self, n):
            if isinstance(n.ctx, ast.Load) and n.id in env:
                return copy.deepcopy(env[n.id])
            return n

    stmts = strip_log(stmts)
    for st in stmts[:-1]:
        need(isinstance(st, ast.Assign) and len(st.targets) == 1
             and isinstance(st.targets[0], ast.Name)
             and st.targets[0].id not in env,
             "a statement that is not a single-assignment temporary", st)
        env[st.targets[0].id] = Sub().visit(copy.deepcopy(st.value))
    need(stmts, "empty block")
    last = copy.deepcopy(stmts[-1])
    return ast.fix_missing_locations(Sub().visit(last))


def tail_if(body):
    """ `if T: return A` + `return B`   ==   `if T: return A else: return B`;
    returns (T, A, B) """
    body = strip_log(body)
    if len(body) == 1 and isinstance(body[0], ast.If) \
            and len(strip_log(body[0].body)) == 1 \
            and len(strip_log(body[0].orelse)) == 1:
        a, b = strip_log(body[0].body)[0], strip_log(body[0].orelse)[0]
    else:
        need(len(body) == 2 and isinstance(body[0], ast.If)
             and not body[0].orelse
             and len(strip_log(body[0].body)) == 1, "if-return / return",
             body[0] if body else None)
        a, b = strip_log(body[0].body)[0], body[1]
    need(isinstance(a, ast.Return) and isinstance(b, ast.Return),
         "both branches return", body[0])
    return body[0].test, a.value, b.value


def canon(t):
    """ `not (a != b)` -> `a == b` etc. """
    if isinstance(t, ast.UnaryOp) and isinstance(t.op, ast.Not):
        inner = canon(t.operand)
        n = negate(inner)
        return n
    return t


def loop_nf(stmts, fname):
    """ Normal form of an accumulation written as a loop nest or as a
    comprehension:
        acc = [] ; for a in X: for r in Y: [if C: continue] acc.append(E) ;
        return acc                      ==  return [E for a in X for r in Y
                                                    if not C]
        acc = 0 ; for a in X: acc += E ; return acc  ==  return sum(E for ..)
    Returns (kind, [iter texts], condition text or None, element text) with
    the loop variables renamed g0, g1, ... (so renamed locals do not
    matter); kind is 'list' or 'sum'. """
    stmts = strip_log(stmts)
    gens, cond, elt, kind = [], None, None, None
    if len(stmts) == 1 and isinstance(stmts[0], ast.Return):
        v = stmts[0].value
        if isinstance(v, ast.Call) and U(v.func) == 'sum' \
                and len(v.args) == 1 and not v.keywords:
            kind, v = 'sum', v.args[0]
        else:
            kind = 'list'
        need(isinstance(v, (ast.ListComp, ast.GeneratorExp))
             and (kind == 'sum' or isinstance(v, ast.ListComp)),
             f"{fname}: not a comprehension", stmts[0])
        conds = []
        for g in v.generators:
            need(not g.is_async, f"{fname}: async generator", stmts[0])
            gens.append((g.target, g.iter))
            conds += g.ifs
        need(len(conds) <= 1 and (not conds or v.generators[-1].ifs),
             f"{fname}: more than one filter", stmts[0])
        cond = conds[0] if conds else None
        elt = v.elt
    else:
        need(len(stmts) == 3 and isinstance(stmts[0], ast.Assign)
             and isinstance(stmts[0].targets[0], ast.Name)
             and isinstance(stmts[1], ast.For)
             and isinstance(stmts[2], ast.Return)
             and U(stmts[2].value) == stmts[0].targets[0].id,
             f"{fname}: not `acc = ..; for ..; return acc`",
             stmts[0] if stmts else None)
        acc = stmts[0].targets[0].id
        init = U(stmts[0].value)
        need(init in ('[]', '0'), f"{fname}: accumulator starts at {init}",
             stmts[0])
        kind = 'list' if init == '[]' else 'sum'
        loop = stmts[1]
        while True:
            need(not loop.orelse, f"{fname}: for/else", loop)
            gens.append((loop.target, loop.iter))
            body = strip_log(loop.body)
            if len(body) == 1 and isinstance(body[0], ast.For):
                loop = body[0]
                continue
            break
        if len(body) == 2 and is_continue_if(body[0]):
            cond = negate(body[0].test)
            body = body[1:]
        elif len(body) == 1 and isinstance(body[0], ast.If) \
                and not body[0].orelse:
            cond = body[0].test
            body = strip_log(body[0].body)
        need(len(body) == 1, f"{fname}: loop body", loop)
        st = body[0]
        if kind == 'list':
            need(isinstance(st, ast.Expr) and isinstance(st.value, ast.Call)
                 and U(st.value.func) == acc + '.append'
                 and len(st.value.args) == 1, f"{fname}: {acc}.append(..)",
                 st)
            elt = st.value.args[0]
        else:
            need(isinstance(st, ast.AugAssign) and isinstance(st.op, ast.Add)
                 and U(st.target) == acc, f"{fname}: {acc} += ..", st)
            elt = st.value
    mapping = {}
    iters = []
    for i, (tgt, it) in enumerate(gens):
        iters.append(ren(it, mapping))
        need(isinstance(tgt, ast.Name), f"{fname}: loop target", tgt)
        mapping[tgt.id] = f"g{i}"
    return (kind, iters,
            None if cond is None else ren(canon(cond), mapping),
            ren(elt, mapping))


class Out:
    def __init__(self):
        self.defs = []
        self.info = {}
        self.failed = []

    def item(self, name, fn):
        try:
            text, info = fn()
            self.defs.append(text)
            self.info[name] = info
        except (Untranslatable, AssertionError, AttributeError, IndexError,
                KeyError, TypeError) as exc:
            self.failed.append((name, f"{type(exc).__name__}: {exc}"))


ALL_KEYS = ('list(self._results_by_path.keys())',
            'list(self._results_by_path)', 'self.files')


def path_selector(f, name, cls=None):
    """ `if path: paths = [path] else: paths = <all keys>`, inline or in a
    private helper `paths = self._helper(path)` whose body is
    `if path: return [path]` / `return <all keys>`; returns the definition
    text, info and the statements after it """
    body = real_body(f)
    first = body[0] if body else None
    if isinstance(first, ast.Assign) and U(first.targets[0]) == 'paths' \
            and isinstance(first.value, ast.Call) and cls is not None \
            and U(first.value.func).startswith('self.') \
            and [U(a) for a in first.value.args] + \
                [U(k.value) for k in first.value.keywords] == ['path']:
        hname = U(first.value.func)[5:]
        helper = one([n for n in cls.body if isinstance(n, ast.FunctionDef)
                      and n.name == hname], f"helper {hname}", first)
        params = [a.arg for a in helper.args.args]
        need(len(params) == 2, f"{hname}(self, path)", helper)
        test, a, b = tail_if(real_body(helper))
        mp = {params[1]: 'path'}
        need(ren(test, mp) == 'path' and ren(a, mp) == '[path]'
             and ren(b, mp) in ALL_KEYS,
             f"{f.name}: helper {hname} is not `[path] if path else all "
             "keys`", helper)
        return (f"Definition {name} (p : Z) : bool := truthy p.",
                {'test': 'path', 'helper': hname}, body[1:])
    ifs = [i for i, n in enumerate(body) if isinstance(n, ast.If)]
    need(len(ifs) >= 1, f"{f.name}: path test", f)
    n = body[ifs[0]]
    need(isinstance(n.test, ast.Name) and n.test.id == 'path',
         f"{f.name}: the path test is not the truthiness of `path`: "
         f"{U(n.test)}", n)
    need(len(n.body) == 1 and U(n.body[0]) == 'paths = [path]',
         f"{f.name}: restricted branch is not `paths = [path]`", n)
    need(len(n.orelse) == 1 and U(n.orelse[0]) in
         tuple('paths = ' + k for k in ALL_KEYS),
         f"{f.name}: unrestricted branch is not all keys", n)
    need(not strip_log(body[:ifs[0]]), f"{f.name}: statements before the "
         "path test", f)
    return (f"Definition {name} (p : Z) : bool := truthy p.",
            {'test': U(n.test)}, body[ifs[0] + 1:])


def generate(repo):
    out = Out()
    with open(os.path.join(repo, 'searchkit/search.py'),
              encoding='utf-8') as fh:
        tree = ast.parse(fh.read())

    # ------------------------------------------------------------- C09
    def fd_cap():
        f = find_def(tree, 'SearchCatalog._filtered_dir')
        # `limit = <expr>` is a temporary: inline it when present
        lims = [n for n in f.body if isinstance(n, ast.Assign)
                and U(n.targets[0]) == 'limit']
        need(len(lims) <= 1, "limit assigned more than once", f)
        names = {'max_logrotate_depth': 'depth'}
        subst = {}
        if lims:
            t_lim, ty = Tr(names=names).expr(lims[0].value)
            need(ty == 'Z', "limit is not an integer expression", lims[0])
            subst = {'limit': (t_lim, 'Z', ['depth'])}
        loops = [n for n in f.body if isinstance(n, ast.For)
                 and U(n.iter).endswith('.values()')]
        lp = one(loops, "_filtered_dir: loop over the groups", f)
        need(isinstance(lp.target, ast.Name), "group loop target", lp)
        g = lp.target.id
        body = strip_log(lp.body)
        # `capped = sorted(..)[..]; new_contents += capped`, with or without
        # temporaries, or new_contents.extend(..)
        tail = inline_temps(body)
        val = tail.value if isinstance(tail, ast.AugAssign) else (
            tail.value.args[0]
            if isinstance(tail, ast.Expr)
            and isinstance(tail.value, ast.Call)
            and U(tail.value.func) == 'new_contents.extend'
            and len(tail.value.args) == 1 else None)
        need(val is not None and isinstance(val, ast.Subscript)
             and ((isinstance(tail, ast.AugAssign)
                   and isinstance(tail.op, ast.Add)
                   and U(tail.target) == 'new_contents')
                  or isinstance(tail, ast.Expr)),
             "the capped copies are not appended to new_contents", lp)
        srt, sl = val.value, val.slice
        need(isinstance(srt, ast.Call) and U(srt.func) == 'sorted'
             and len(srt.args) == 1 and U(srt.args[0]) == g
             and [(k.arg, U(k.value)) for k in srt.keywords]
             == [('key', 'logrotate_log_sort')],
             "sorted(<group>, key=logrotate_log_sort)", srt)
        need(isinstance(sl, ast.Slice) and sl.lower is None
             and sl.step is None and sl.upper is not None,
             "the cap is not a plain [:upper] slice", val)
        t_up, ty = Tr(names=names, subst=subst).expr(sl.upper)
        need(ty == 'Z', "slice bound is not an integer expression", sl)
        return ("Definition x_fd_cap {A} (key : A -> Z) (depth : Z) "
                f"(l : list A) : list A :=\n  py_take ({t_up}) "
                "(sort_by key l).",
                {'slice_upper': U(sl.upper),
                 'limit': U(lims[0].value) if lims else None})
    out.item('x_fd_cap', fd_cap)

    def fd_loop():
        f = find_def(tree, 'SearchCatalog._filtered_dir')
        lp = one([n for n in f.body if isinstance(n, ast.For)
                  and U(n.iter) == 'contents'], "loop over contents", f)
        body = strip_log(lp.body)
        need(len(body) == 5, "_filtered_dir: per-path body changed", lp)
        skip, assign, nomatch, pfx, live = body
        need(is_continue_if(skip), "isfile skip", skip)
        t_skip = Tr(calls={'os.path.isfile(path)': 'isfile'},
                    bools=['isfile']).cond(skip.test)
        need(isinstance(assign, ast.Assign)
             and isinstance(assign.targets[0], ast.Name)
             and isinstance(assign.value, ast.Call)
             and U(assign.value.func).startswith('re.compile(')
             and U(assign.value.func).endswith('.match')
             and [U(a) for a in assign.value.args] == ['path'],
             "<m> = re.compile(..).match(path)", assign)
        mv = assign.targets[0].id
        need(isinstance(nomatch, ast.If) and U(nomatch.test) == 'not ' + mv
             and [U(x) for x in strip_log(nomatch.body)]
             == ['new_contents.append(path)', 'continue']
             and not nomatch.orelse, "unmatched path kept as is", nomatch)
        need(U(pfx) == f'fnamepfix = {mv}.group(1)', "group(1) prefix", pfx)
        need(isinstance(live, ast.If) and isinstance(live.test, ast.Call)
             and U(live.test.func) == 'path.endswith'
             and len(live.test.args) == 1
             and isinstance(live.test.args[0], ast.Constant)
             and isinstance(live.test.args[0].value, str),
             "path.endswith('<literal>')", live)
        sfx = live.test.args[0].value
        app = one(strip_log(live.body), "live branch", live)
        need(isinstance(app, ast.Expr) and isinstance(app.value, ast.Call)
             and U(app.value.func) == 'new_contents.append'
             and len(app.value.args) == 1
             and isinstance(app.value.args[0], ast.BinOp)
             and isinstance(app.value.args[0].op, ast.Add)
             and U(app.value.args[0].left) == 'fnamepfix'
             and isinstance(app.value.args[0].right, ast.Constant)
             and isinstance(app.value.args[0].right.value, str),
             "new_contents.append(fnamepfix + '<literal>')", app)
        added = app.value.args[0].right.value
        grp = one(live.orelse, "rotated branch", live)
        need(isinstance(grp, ast.If)
             and U(grp.test) == 'fnamepfix not in logrotated'
             and [U(x) for x in grp.body] == ['logrotated[fnamepfix] = [path]']
             and [U(x) for x in grp.orelse]
             == ['logrotated[fnamepfix].append(path)'],
             "grouping by prefix (new list / append)", grp)
        return ("Definition x_fd_skips (isfile : bool) : bool := "
                f"{t_skip}.\n"
                f"Definition x_fd_live_suffix : list Z := {strlit(sfx)}.\n"
                "Definition x_fd_live_appended (pfx : list Z) : list Z := "
                f"pfx ++ {strlit(added)}.\n"
                "Definition x_fd_groups_by_prefix : bool := true.",
                {'skip': U(skip.test), 'suffix': sfx, 'appended': added})
    out.item('x_fd_loop', fd_loop)

    def source_id():
        f = find_def(tree, 'SearchCatalog.get_source_id')
        body = real_body(f)
        tab = 'self._source_ids'
        # (A) if not T: id = 0 / else: <lookup loop>; id = max(T) + 1
        # (B) <lookup loop>; if T: id = max(T) + 1 / else: id = 0
        # (the lookup loop over an empty table is a no-op)
        top = [n for n in body if isinstance(n, (ast.If, ast.For))]
        need(top and isinstance(top[-1] if isinstance(top[0], ast.For)
                                else top[0], ast.If), "get_source_id: if", f)
        if isinstance(top[0], ast.For):
            need(len(top) == 2, "lookup loop then if", f)
            loop, branch = top
            seq_before = []
        else:
            need(len(top) == 1, "single top-level if", f)
            branch = top[0]
            loop = None
            seq_before = None
        test = canon(branch.test)
        if U(test) == 'not ' + tab:
            empty, nonempty = branch.body, branch.orelse
        else:
            need(U(test) == tab, "empty-table test", branch)
            empty, nonempty = branch.orelse, branch.body
        nonempty = strip_log(nonempty)
        if loop is None:
            need(len(nonempty) == 2 and isinstance(nonempty[0], ast.For),
                 "lookup loop + new id", branch)
            loop, nonempty = nonempty[0], nonempty[1:]
        del seq_before
        need(U(loop.iter) == tab + '.items()'
             and isinstance(loop.target, ast.Tuple)
             and len(loop.target.elts) == 2, "loop over the table", loop)
        idv, pv = [U(x) for x in loop.target.elts]
        lb = strip_log(loop.body)
        need(len(lb) == 1 and isinstance(lb[0], ast.If) and not lb[0].orelse
             and U(canon(lb[0].test)) in (f'{pv} == path', f'path == {pv}')
             and [U(x) for x in strip_log(lb[0].body)] == [f'return {idv}'],
             "an existing path returns its id", loop)
        first = one(strip_log(empty), "first id", branch)
        new = one(nonempty, "new id", branch)
        for st in (first, new):
            need(isinstance(st, ast.Assign)
                 and U(st.targets[0]) == 'source_id', "source_id = ..", st)
        t0, ty = Tr().expr(first.value)
        need(ty == 'Z', "first id not an integer", first)
        mx = ('m', 'Z', ['m'])
        t1, ty = Tr(subst={f'max(list({tab}))': mx, f'max({tab})': mx,
                           f'max({tab}.keys())': mx,
                           f'max(list({tab}.keys()))': mx}).expr(new.value)
        need(ty == 'Z', "new id not an integer", new)
        tail = [U(x) for x in body[-2:]]
        need(tail == [f'{tab}[source_id] = path', 'return source_id'],
             "table update / return", f)
        return (f"Definition x_first_source_id : Z := {t0}.\n"
                f"Definition x_next_source_id (m : Z) : Z := {t1}.",
                {'first': U(first.value), 'next': U(new.value)})
    out.item('x_source_id', source_id)

    def sort_key():
        f = find_def(tree, 'logrotate_log_sort')
        body = real_body(f)
        rets = [n for n in ast.walk(f) if isinstance(n, ast.Return)]
        need(len(rets) == 3, "three returns", f)
        live = one([n for n in body if isinstance(n, ast.If)
                    and U(n.test) == 'len(ret.groups()) == 0'],
                   "no-group test", f)
        r0 = one(strip_log(live.body), "live return", live)
        need(isinstance(r0, ast.Return), "live return", r0)
        t0, ty = Tr().expr(r0.value)
        last = body[-1]
        need(isinstance(last, ast.Return) and isinstance(last.value, ast.Call)
             and U(last.value.func) == 'int'
             and len(last.value.args) == 1
             and isinstance(last.value.args[0], ast.Call)
             and U(last.value.args[0].func) == 'ret.group'
             and len(last.value.args[0].args) == 1
             and isinstance(last.value.args[0].args[0], ast.Constant),
             "return int(ret.group(<k>))", last)
        k = last.value.args[0].args[0].value
        need(isinstance(k, int), "group index", last)
        lp = one([n for n in body if isinstance(n, ast.For)], "filter loop",
                 f)
        need(U(lp.iter) == 'filters' and isinstance(lp.target, ast.Name)
             and [ren(x, {lp.target.id: 'g0'}) for x in strip_log(lp.body)]
             == ['ret = re.compile(g0).match(fname)', 'if ret:\n    break'],
             "first matching filter wins (re.match)", lp)
        return (f"Definition x_sort_live_key : Z := {t0}.\n"
                f"Definition x_sort_group_index : Z := {k}.\n"
                "Definition x_sort_first_match_wins : bool := true.",
                {'live': U(r0.value), 'group': k})
    out.item('x_sort_key', sort_key)

    def expand():
        f = find_def(tree, 'SearchCatalog._expand_path')
        body = real_body(f)
        a = body[0]
        need(isinstance(a, ast.If) and U(a.test) == 'os.path.isfile(path)'
             and [U(x) for x in a.body] == ['return [path]'] and not a.orelse,
             "a file denotes itself", a)

        def flat(x):
            return U(x).replace(' ', '').replace('\n', '')

        join = '[os.path.join(path,f)forfinos.listdir(path)]'
        call = 'self._filtered_dir({},self.max_logrotate_depth)'
        rest = body[1:]
        if len(rest) == 2 and isinstance(rest[1], ast.Return):
            b, c = rest
            need(isinstance(b, ast.If) and U(b.test) == 'os.path.isdir(path)',
                 "directory test", b)
            if len(b.body) == 1 and isinstance(b.body[0], ast.Return) \
                    and not b.orelse:
                # return f(dir listing) ... return f(glob)
                need(flat(b.body[0].value) == call.format(join)
                     and flat(c.value) == call.format('glob.glob(path)'),
                     "directory: joined listing / glob, through "
                     "_filtered_dir", b)
            else:
                # X = dir listing / else: X = glob ... return f(X)
                need(len(b.body) == 1 and len(b.orelse) == 1
                     and isinstance(b.body[0], ast.Assign)
                     and isinstance(b.orelse[0], ast.Assign)
                     and U(b.body[0].targets[0]) == U(b.orelse[0].targets[0])
                     and flat(b.body[0].value) == join
                     and flat(b.orelse[0].value) == 'glob.glob(path)'
                     and flat(c.value)
                     == call.format(U(b.body[0].targets[0])),
                     "directory: joined listing / glob, through "
                     "_filtered_dir", b)
        else:
            need(False, "_expand_path: unrecognised layout", f)
        return ("Definition x_expand_file_is_itself : bool := true.\n"
                "Definition x_expand_dir_joins : bool := true.\n"
                "Definition x_expand_glob_filtered : bool := true.", {})
    out.item('x_expand_path', expand)

    # ------------------------------------------------------------- C14
    def fbt():
        f = find_def(tree, 'SearchResultsCollection.find_by_tag')
        sel, info, rest = path_selector(
            f, 'x_fbt_restrict', find_def(tree, 'SearchResultsCollection'))
        nf = loop_nf(rest, 'find_by_tag')
        need(nf == ('list', ['paths', 'self.find_by_path(g0)'],
                    'g1.tag == tag', 'g1'),
             f"find_by_tag: not `every result of every selected path whose "
             f"tag equals tag`: {nf}", f)
        return (sel + "\nDefinition x_fbt_keeps (rt t : option Z) : bool := "
                "oz_eqb rt t.", info)
    out.item('x_find_by_tag', fbt)

    def gasr():
        f = find_def(tree,
                     'SearchResultsCollection._get_all_sequence_results')
        sel, info, rest = path_selector(
            f, 'x_seq_restrict', find_def(tree, 'SearchResultsCollection'))
        nf = loop_nf(rest, '_get_all_sequence_results')
        need(nf == ('list', ['paths', 'self.find_by_path(g0)'],
                    'g1.sequence_id is not None', 'g1'),
             "_get_all_sequence_results: not `every result of every "
             f"selected path with a sequence id`: {nf}", f)
        return (sel + "\nDefinition x_seq_keeps (s : option Z) : bool := "
                "match s with Some _ => true | None => false end.", info)
    out.item('x_all_sequence_results', gasr)

    def fss():
        f = find_def(tree, 'SearchResultsCollection.find_sequence_sections')
        lp = one([n for n in real_body(f) if isinstance(n, ast.For)],
                 "loop", f)
        need(U(lp.iter) == 'self._get_all_sequence_results(path=path)',
             "iterates the (path-restricted) sequence results", lp)
        body = strip_log(lp.body)
        need([U(x) for x in body] ==
             ['s_id = result.sequence_id',
              'if s_id != sequence_obj.id:\n    continue',
              'section_id = result.section_id',
              'if section_id not in _results:\n    _results[section_id] = []',
              '_results[section_id].append(result)'],
             "find_sequence_sections: filter by definition id, group by "
             "section_id", lp)
        need(U(real_body(f)[-1]) == 'return _results', "return", f)
        return ("Definition x_fss_keeps (s : option Z) (d : Z) : bool := "
                "oz_eqb s (Some d).\n"
                "Definition x_fss_groups_by_section_id : bool := true.", {})
    out.item('x_find_sequence_sections', fss)

    def fsbt():
        f = find_def(tree, 'SearchResultsCollection.find_sequence_by_tag')
        body = real_body(f)
        need([U(x) for x in body] ==
             ['sections = {}',
              'for seq_obj in self.search_catalog.resolve_from_tag(tag):\n'
              '    sections.update(self.find_sequence_sections(seq_obj, '
              'path))',
              'return sections'],
             "find_sequence_by_tag: dict.update per resolved definition", f)
        return ("Definition x_fsbt_updates_per_definition : bool := true.",
                {})
    out.item('x_find_sequence_by_tag', fsbt)

    def length():
        f = find_def(tree, 'SearchResultsCollection.__len__')
        kind, iters, cond, elt = loop_nf(real_body(f), '__len__')
        need(kind == 'sum' and iters in (['self.files'],
                                         ['self._results_by_path'])
             and cond is None and elt == 'len(self.find_by_path(g0))',
             f"__len__: not the sum of the per-path list lengths: "
             f"{(kind, iters, cond, elt)}", f)
        return ("Definition x_len_init : Z := 0.\n"
                "Definition x_len_step (count n : Z) : Z := count + n.",
                {'elt': elt})
    out.item('x_len', length)

    def add_():
        f = find_def(tree, 'SearchResultsCollection.add')
        lp = one(real_body(f), "add: one loop", f)
        need(isinstance(lp, ast.For) and U(lp.iter) == 'results', "loop", lp)
        body = [x for x in strip_log(lp.body)
                if not (isinstance(x, ast.Expr)
                        and isinstance(x.value, ast.Constant))]
        need([U(x) for x in body] ==
             ['result.register_results_store(self.results_store)',
              'path = self.search_catalog.source_id_to_path('
              'result.source_id)',
              'if path not in self._results_by_path:\n'
              '    self._results_by_path[path] = [result]\n'
              'else:\n    self._results_by_path[path].append(result)'],
             "add: resolve the source id, new list or append", lp)
        g = find_def(tree, 'SearchResultsCollection.find_by_path')
        need([U(x) for x in real_body(g)] ==
             ['return self._results_by_path.get(path, [])'],
             "find_by_path: dict.get with [] default", g)
        a = find_def(tree, 'SearchResultsCollection.all')
        need([U(x) for x in real_body(a)] ==
             ['for results in self._results_by_path.values():\n'
              '    yield from results'], "all: every value, in order", a)
        return ("Definition x_add_appends_by_resolved_path : bool := true.\n"
                "Definition x_find_by_path_default_empty : bool := true.\n"
                "Definition x_all_yields_every_value : bool := true.", {})
    out.item('x_add', add_)

    def result_meta():
        with open(os.path.join(repo, 'searchkit/result.py'),
                  encoding='utf-8') as fh:
            rt = ast.parse(fh.read())
        base = find_def(rt, 'SearchResultBase')
        consts = {U(n.targets[0]): n.value.value for n in base.body
                  if isinstance(n, ast.Assign)
                  and isinstance(n.value, ast.Constant)}
        need(consts.get('META_OFFSET_TAG') == 0
             and consts.get('META_OFFSET_SEQ_ID') == 1, "metadata offsets",
             base)
        for prop, off in (('tag', 'META_OFFSET_TAG'),
                          ('sequence_id', 'META_OFFSET_SEQ_ID')):
            f = find_def(rt, 'SearchResultMinimal.' + prop)
            need([U(x) for x in real_body(f)] ==
                 [f'idx = self.metadata[self.{off}]',
                  'if idx is None:\n    return None',
                  'return self.results_store.get(idx)'],
                 f"SearchResultMinimal.{prop}: None iff the metadata slot "
                 "is None, else the store entry", f)
        # SearchResult.__init__: the sequence id is taken from the linked
        # sequence definition BEFORE the early return of results that do not
        # store their contents (a marker result still belongs to its section)
        init = find_def(rt, 'SearchResult.__init__')
        top = [U(n.test) if isinstance(n, ast.If) else None
               for n in init.body]
        need('search_def.sequence_def' in top
             and 'not search_def.store_result_contents' in top
             and top.index('search_def.sequence_def')
             < top.index('not search_def.store_result_contents'),
             "SearchResult.__init__: sequence_id is not set before the "
             "store_result_contents early return", init)
        seq_if = init.body[top.index('search_def.sequence_def')]
        need(U(seq_if.body[-1]) ==
             'self.sequence_id = search_def.sequence_def.id',
             "sequence_id = id of the linked sequence definition", seq_if)
        return ("Definition x_result_meta_none_iff_slot_none : bool := true."
                "\nDefinition x_result_sequence_id_before_early_return : "
                "bool := true.", {})
    out.item('x_result_meta', result_meta)

    def task_defs():
        with open(os.path.join(repo, 'searchkit/task.py'),
                  encoding='utf-8') as fh:
            tt = ast.parse(fh.read())
        sd = find_def(tt, 'SearchTask.search_defs')
        first = real_body(sd)[0]
        need(U(first) ==
             "alldefs = {s_def: True for s_def in self.info['searches']}",
             "search_defs: dict keyed by the definition", first)
        last = real_body(sd)[-1]
        keyed = U(last) == 'return alldefs'
        if not keyed and isinstance(last, ast.Return) \
                and isinstance(last.value, ast.DictComp):
            dc = last.value          # {d: <flag> for d in alldefs}
            keyed = (len(dc.generators) == 1 and not dc.generators[0].ifs
                     and U(dc.generators[0].iter) in
                     ('alldefs', "self.info['searches']")
                     and U(dc.key) == U(dc.generators[0].target))
        need(keyed, "search_defs returns a dict keyed by the definitions",
             last)
        rs = find_def(tt, 'SearchTask._run_search')
        lines = one([n for n in rs.body if isinstance(n, ast.For)
                     and U(n.iter).startswith('enumerate(fd')],
                    "_run_search: loop over lines", rs)
        inner = one([n for n in lines.body if isinstance(n, ast.For)],
                    "per-line loop over definitions", lines)
        need(U(inner.iter) == 'self.search_defs' and U(inner.target) == 's_def',
             "the per-line loop does not iterate self.search_defs: "
             + U(inner.iter), inner)
        return ("Definition x_task_defs_dict_keyed_by_definition : bool := "
                "true.\nDefinition x_task_line_loop_over_search_defs : bool "
                ":= true.", {})
    out.item('x_task_defs', task_defs)

    # ------------------------------------------- round 3: remaining lookups
    def fs_add():
        f = find_def(tree, 'FileSearcher.add')
        body = real_body(f)
        need(len(body) == 2, "FileSearcher.add: restriction + register", f)
        test, reg = body
        need(isinstance(test, ast.If) and not test.orelse
             and [U(x) for x in strip_log(test.body)] ==
             ['self.constraints_manager.global_restrictions.add('
              'searchdef.id)'],
             "restriction keyed by the definition id", test)
        t = Tr(names={'allow_global_constraints': 'allow'},
               bools=['allow']).cond(test.test)
        need(U(reg) == 'self.catalog.register(searchdef, path)',
             "register(searchdef, path)", reg)
        g = find_def(tree, 'FileSearcher.files')
        need([U(x) for x in real_body(g)] ==
             ["return [e['path'] for e in self.catalog]"],
             "FileSearcher.files: entry paths in catalog order", g)
        h = find_def(tree, 'FileSearcher.resolve_source_id')
        need([U(x) for x in real_body(h)] ==
             ['return self.catalog.source_id_to_path(source_id)'],
             "resolve_source_id delegates to the catalog", h)
        return (f"Definition x_fs_add_restricts (allow : bool) : bool := {t}."
                "\nDefinition x_fs_files_are_entry_paths : bool := true.\n"
                "Definition x_fs_resolve_source_delegates : bool := true.",
                {'test': U(test.test)})
    out.item('x_fs_add', fs_add)

    def catalog_lookups():
        f = find_def(tree, 'SearchCatalog.resolve_from_id')
        need([U(x) for x in real_body(f)] ==
             ['if search_id in self._simple_searches:\n'
              '    return self._simple_searches[search_id]',
              'return self._sequence_searches[search_id]'],
             "resolve_from_id: simple table first, then sequence table", f)
        g = find_def(tree, 'SearchCatalog.resolve_from_tag')
        nf = loop_nf(real_body(g), 'resolve_from_tag')
        need(nf == ('list', ['self._search_tags[tag]'], None,
                    'self.resolve_from_id(g0)'),
             "resolve_from_tag: not `resolve_from_id of every id of "
             f"_search_tags[tag], in order (KeyError if unknown)`: {nf}", g)
        h = find_def(tree, 'SearchCatalog.source_id_to_path')
        body = real_body(h)
        need(len(body) == 2 and isinstance(body[0], ast.Try)
             and [U(x) for x in body[0].body] ==
             ['return self._source_ids[s_id]']
             and len(body[0].handlers) == 1
             and U(body[0].handlers[0].type) == 'KeyError'
             and not strip_log(body[0].handlers[0].body)
             and not body[0].orelse and not body[0].finalbody
             and U(body[1]) == 'return None',
             "source_id_to_path: table entry, None for an unknown id", h)
        ln = find_def(tree, 'SearchCatalog.__len__')
        it = find_def(tree, 'SearchCatalog.__iter__')
        need([U(x) for x in real_body(ln)] == ['return len(self._entries)']
             and [U(x) for x in real_body(it)] ==
             ['yield from self._entries.values()'],
             "catalog length / iteration = the entries, in order", ln)
        return ("Definition x_resolve_from_id_simple_then_sequence : bool := "
                "true.\nDefinition x_resolve_from_tag_maps_tag_table : bool "
                ":= true.\nDefinition x_source_id_unknown_is_none : bool := "
                "true.\nDefinition x_catalog_iterates_entries : bool := "
                "true.", {})
    out.item('x_catalog_lookups', catalog_lookups)

    def collection_state():
        cls = find_def(tree, 'SearchResultsCollection')
        init = find_def(tree, 'SearchResultsCollection.__init__')
        ib = [U(x) for x in real_body(init)]
        need(ib[0] == 'super().__init__()' and ib[-1] == 'self.reset()'
             and 'self.search_catalog = search_catalog' in ib
             and 'self.results_store = results_store' in ib,
             "__init__: catalog, store, then reset()", init)
        reset = find_def(tree, 'SearchResultsCollection.reset')
        rb = real_body(reset)
        need(all(isinstance(x, ast.Assign) and len(x.targets) == 1
                 and isinstance(x.targets[0], ast.Attribute)
                 and U(x.targets[0].value) == 'self' for x in rb),
             "reset: only assignments to attributes", reset)
        cleared = {U(x.targets[0]): U(x.value) for x in rb}
        need(cleared.get('self._results_by_path') == '{}',
             "reset empties _results_by_path", reset)
        # every piece of state that add()/__init__ maintain besides the
        # catalog and the store must be re-initialised by reset()
        state = set()
        for fn in (find_def(tree, 'SearchResultsCollection.add'), init):
            for n in ast.walk(fn):
                tgt = []
                if isinstance(n, ast.Assign):
                    tgt = n.targets
                elif isinstance(n, (ast.AugAssign, ast.AnnAssign)):
                    tgt = [n.target]
                elif isinstance(n, ast.Call) and isinstance(n.func,
                                                            ast.Attribute):
                    tgt = [n.func.value]       # self.x.append(..) etc.
                for t in tgt:
                    while isinstance(t, ast.Subscript):
                        t = t.value
                    if isinstance(t, ast.Attribute) and U(t.value) == 'self' \
                            and isinstance(getattr(t, 'ctx', None),
                                           (ast.Store, ast.Load)):
                        state.add(U(t))
        state -= {'self.search_catalog', 'self.results_store', 'self.reset',
                  'self.search_catalog.source_id_to_path'}
        state = {x for x in state if x.count('.') == 1}
        missing = sorted(state - set(cleared))
        need(not missing, "reset() does not re-initialise state that add()/"
             f"__init__ maintain: {missing}", reset)
        # and __len__ & co read only that state (through files/find_by_path)
        files = find_def(tree, 'SearchResultsCollection.files')
        need([U(x) for x in real_body(files)] ==
             ['return list(self._results_by_path.keys())'],
             "files = keys of _results_by_path", files)
        ga = find_def(tree, 'SearchResultsCollection.__getattribute__')
        gb = real_body(ga)
        need(U(gb[0]) == "if name != 'data':\n"
             "    return super().__getattribute__(name)",
             "__getattribute__: everything but `data` is untouched", ga)
        rest = [U(x) for x in strip_log(gb[1:])]
        src = 'self._results_by_path'
        copies = [
            [f'return dict({src})'], [f'return {src}.copy()'],
            [f'return dict({src}.items())'],
            [f'return {{**{src}}}'],
        ]
        ok = rest in copies
        if not ok and len(gb) == 2 and isinstance(gb[1], ast.Return) \
                and isinstance(gb[1].value, ast.DictComp):
            dc = gb[1].value
            ok = (len(dc.generators) == 1 and not dc.generators[0].ifs
                  and U(dc.generators[0].iter) == src + '.items()'
                  and isinstance(dc.generators[0].target, ast.Tuple)
                  and [U(x) for x in dc.generators[0].target.elts]
                  == [U(dc.key), U(dc.value)])
        if not ok and len(gb) == 4 and isinstance(gb[2], ast.For):
            acc = U(gb[1].targets[0]) if isinstance(gb[1], ast.Assign) \
                else None
            lp = gb[2]
            ok = (acc is not None and U(gb[1].value) == '{}'
                  and U(lp.iter) == src + '.items()'
                  and isinstance(lp.target, ast.Tuple)
                  and len(lp.target.elts) == 2
                  and [U(x) for x in strip_log(lp.body)] ==
                  [f'{acc}[{U(lp.target.elts[0])}] = '
                   f'{U(lp.target.elts[1])}']
                  and U(gb[3]) == f'return {acc}')
        need(ok, "`data` is not a fresh shallow copy of _results_by_path: "
             f"{rest}", ga)
        del cls
        return ("Definition x_collection_init_resets : bool := true.\n"
                "Definition x_reset_reinitialises_all_state : bool := true.\n"
                "Definition x_files_are_keys : bool := true.\n"
                "Definition x_data_is_copy_of_by_path : bool := true.",
                {'state': sorted(state), 'reset': sorted(cleared)})
    out.item('x_collection_state', collection_state)

    def searcher_base():
        for name in ('files', 'num_parallel_tasks', 'add', 'run'):
            f = find_def(tree, 'SearcherBase.' + name)
            need(any(U(d) == 'abc.abstractmethod' for d in f.decorator_list)
                 and not real_body(f),
                 f"SearcherBase.{name}: abstract, docstring only", f)
        return "Definition x_searcher_base_is_abstract : bool := true.", {}
    out.item('x_searcher_base', searcher_base)

    def field_info():
        init = find_def(tree, 'ResultFieldInfo.__init__')
        need([U(x) for x in real_body(init)] ==
             ['if issubclass(fields.__class__, dict):\n    data = fields\n'
              'else:\n    data = {f: None for f in fields}',
              'super().__init__(data)'],
             "ResultFieldInfo: a dict keeps its types, a list has none", init)
        et = find_def(tree, 'ResultFieldInfo.ensure_type')
        test, a, b = tail_if(real_body(et))
        untyped = 'name not in self.data or self.data[name] is None'
        if U(canon(test)) != untyped:
            test, a, b = negate(test), b, a
        need(U(canon(test)) == untyped and U(a) == 'value'
             and U(b) == 'self.data[name](value)',
             "ensure_type: cast iff the field declares a type", et)
        itn = find_def(tree, 'ResultFieldInfo.index_to_name')
        body = real_body(itn)
        need(len(body) == 2 and U(body[0]) ==
             'for i, _field in enumerate(self.data):\n'
             '    if index == i:\n        return _field'
             and isinstance(body[1], ast.Raise)
             and U(body[1].exc.func) == 'FileSearchException',
             "index_to_name: the index-th field name, else "
             "FileSearchException", itn)
        return ("Definition x_field_info_list_untyped : bool := true.\n"
                "Definition x_ensure_type_casts_iff_typed : bool := true.\n"
                "Definition x_index_to_name_is_nth : bool := true.", {})
    out.item('x_field_info', field_info)

    text = ("(* GENERATED from the repository working tree by "
            "translator/plugins/catalog.py - do not edit *)\n"
            "From Coq Require Import ZArith List Bool.\n"
            "From SK Require Import Model.Collection Model.Catalog.\n"
            "Import ListNotations.\nOpen Scope Z_scope.\n\n"
            + "\n\n".join(out.defs) + "\n")
    return text, out.info, out.failed
