"""T1 plugin for C19: source-derived facts about MPCacheBase / MPCacheSimple /
MPCache that the lock skeletons do not carry (-> coq/Gen/XCache.v).

* MPCacheBase.__init__ : which locks are created (self.<attr> =
  fasteners.InterProcessLock(<path>)) and the SYMBOLIC path of each lock
  file; the attributes copied from the constructor's parameters.
* MPCacheBase.cache_base_path : symbolic value of the returned path.
* MPCacheSimple.get / set / bulk_set / unset : symbolic path handed to
  shelve.open (private helpers `self._x(...)` with straight-line bodies are
  inlined, locals are resolved, so renaming a local or extracting a helper
  changes nothing).
* MPCacheBase.__enter__ / MPCacheBase.__exit__ / MPCacheSimple.__exit__ :
  lock skeletons (they must not touch locks or files) and `return self`.
* MPCacheBase.get / set / bulk_set / unset / __iter__ / __len__ : the
  abstract methods (no effect) and the methods MPCacheSimple defines; the
  bases and own methods of MPCache (the default cache type).
* MPCacheSimple.get : the retry bound and sleep of the open-retry handler.

A symbolic path is a list of components, a component a list of atoms
(PLit "text" | PVar "name"); variables are global_path, cache_type,
cache_id, key.  Anything the evaluator does not understand (hash(key),
slicing, a call it cannot inline ...) fails closed: the definition is
omitted and every theorem of Props/C19.v that mentions it stops compiling.
"""
import ast
import os
import sys

sys.path.insert(0, os.path.dirname(os.path.dirname(os.path.abspath(__file__))))
from pyexpr import Untranslatable, find_def, resolve_const  # noqa: E402
import skeleton  # noqa: E402

REL = 'searchkit/utils.py'
PARAMS = ('global_path', 'cache_type', 'cache_id')


def U(n):
    return ast.unparse(n)


def is_doc_or_log(n):
    if isinstance(n, ast.Expr) and isinstance(n.value, ast.Constant):
        return True
    return isinstance(n, ast.Expr) and isinstance(n.value, ast.Call) \
        and U(n.value.func).startswith('log.')


class PathEval:
    """ symbolic evaluation of path-valued expressions.
    values: ('path', [comp, ...]) | ('comp', [atom, ...]);
    atom = ('L', text) | ('V', name) """

    def __init__(self, tree, selfvals, depth=0):
        self.tree = tree
        self.selfvals = dict(selfvals)   # self.<attr> -> value
        self.env = {}
        self.depth = depth

    def ev(self, e):
        if isinstance(e, ast.Constant) and isinstance(e.value, str):
            return ('comp', [('L', e.value)] if e.value else [])
        if isinstance(e, ast.Name):
            if e.id in self.env:
                return self.env[e.id]
            if e.id == 'key':
                return ('comp', [('V', 'key')])
            # a literal behind a module-level constant is the same literal
            try:
                lit = resolve_const(self.tree, e)
            except Untranslatable:
                lit = None
            if isinstance(lit, ast.Constant) and isinstance(lit.value, str):
                return self.ev(lit)
            raise Untranslatable(f"unknown name {e.id!r} in a path")
        if isinstance(e, ast.Attribute) and U(e.value) == 'self':
            if e.attr in self.selfvals:
                return self.selfvals[e.attr]
            raise Untranslatable(f"self.{e.attr} is not a known path part")
        if isinstance(e, ast.JoinedStr):
            atoms = []
            for v in e.values:
                if isinstance(v, ast.Constant):
                    atoms.append(('L', str(v.value)))
                elif isinstance(v, ast.FormattedValue) and \
                        v.conversion == -1 and v.format_spec is None:
                    kind, val = self.ev(v.value)
                    if kind != 'comp':
                        raise Untranslatable("a path inside an f-string")
                    atoms += val
                else:
                    raise Untranslatable("formatted f-string field: "
                                         + U(e))
            return ('comp', atoms)
        if isinstance(e, ast.Call):
            f = U(e.func)
            if f == 'os.path.join' and not e.keywords:
                comps = []
                for a in e.args:
                    kind, val = self.ev(a)
                    comps += val if kind == 'path' else [val]
                return ('path', comps)
            if f == 'str' and len(e.args) == 1 and not e.keywords:
                return self.ev(e.args[0])
            if isinstance(e.func, ast.Attribute) and \
                    U(e.func.value) == 'self' and not e.keywords:
                return self.inline(e.func.attr, e.args)
        raise Untranslatable("not a path expression: " + U(e))

    def inline(self, name, args):
        if self.depth > 3:
            raise Untranslatable("helper nesting too deep")
        fn = None
        for cls in ('MPCacheSimple', 'MPCacheBase'):
            try:
                fn = find_def(self.tree, f"{cls}.{name}")
                break
            except (Untranslatable, KeyError, AttributeError):
                continue
        if fn is None:
            raise Untranslatable(f"self.{name}: no such helper")
        params = [a.arg for a in fn.args.args][1:]
        if len(params) != len(args) or fn.args.vararg or fn.args.kwarg:
            raise Untranslatable(f"self.{name}: argument shape")
        sub = PathEval(self.tree, self.selfvals, self.depth + 1)
        for p, a in zip(params, args):
            sub.env[p] = self.ev(a)
        return sub.body_value(fn)

    def body_value(self, fn):
        """ straight-line assignments then a single return """
        ret = None
        for n in fn.body:
            if is_doc_or_log(n):
                continue
            if isinstance(n, ast.Assign) and len(n.targets) == 1 and \
                    isinstance(n.targets[0], ast.Name):
                self.env[n.targets[0].id] = self.ev(n.value)
            elif isinstance(n, ast.Return) and ret is None:
                ret = self.ev(n.value)
            else:
                raise Untranslatable(f"{fn.name}: statement not understood: "
                                     + U(n)[:60])
        if ret is None:
            raise Untranslatable(f"{fn.name}: no return")
        return ret


def as_path(v):
    kind, val = v
    return val if kind == 'path' else [val]


def coq_path(v):
    def atom(a):
        return ('PLit "%s"' if a[0] == 'L' else 'PVar "%s"') % a[1]
    for c in as_path(v):
        for a in c:
            if '"' in a[1] or '\\' in a[1] or '/' in a[1]:
                raise Untranslatable(f"path text {a[1]!r}")
    return "[" + "; ".join("[" + "; ".join(atom(a) for a in c) + "]"
                           for c in as_path(v)) + "]"


def coq_strs(xs):
    return "[" + "; ".join(f'"{x}"' for x in xs) + "]"


def generate(repo):
    failed, defs, info = [], [], {}
    with open(os.path.join(repo, REL), encoding='utf-8') as f:
        tree = ast.parse(f.read())

    def item(name, fn):
        try:
            fn()
        except (Untranslatable, KeyError, AttributeError, IndexError,
                AssertionError, TypeError) as exc:
            failed.append((f"cache:{name}", f"{type(exc).__name__}: {exc}"))

    selfvals = {}

    # ---- MPCacheBase.__init__
    def init():
        fn = find_def(tree, 'MPCacheBase.__init__')
        params = [a.arg for a in fn.args.args][1:]
        for p in PARAMS:
            if p not in params:
                raise Untranslatable(f"__init__ has no parameter {p}")
        pe = PathEval(tree, {})
        for p in PARAMS:
            pe.env[p] = ('path', [[('V', p)]]) if p == 'global_path' \
                else ('comp', [('V', p)])
        locks = []
        for n in fn.body:
            if is_doc_or_log(n):
                continue
            if not (isinstance(n, ast.Assign) and len(n.targets) == 1):
                raise Untranslatable("__init__: statement not understood: "
                                     + U(n)[:60])
            t, v = n.targets[0], n.value
            if isinstance(t, ast.Name):
                pe.env[t.id] = pe.ev(v)
            elif isinstance(t, ast.Attribute) and U(t.value) == 'self':
                if isinstance(v, ast.Call) and \
                        U(v.func) == 'fasteners.InterProcessLock' and \
                        len(v.args) == 1 and not v.keywords:
                    locks.append((t.attr, pe.ev(v.args[0])))
                elif isinstance(v, ast.Name) and v.id in PARAMS and \
                        v.id == t.attr:
                    val = pe.env[v.id]
                    pe.selfvals[t.attr] = val
                    selfvals[t.attr] = val
                else:
                    raise Untranslatable("__init__: self." + t.attr
                                         + " = " + U(v)[:50])
            else:
                raise Untranslatable("__init__: target " + U(t))
        for p in PARAMS:
            if p not in selfvals:
                raise Untranslatable(f"__init__ does not keep {p}")
        names = [a for a, _ in locks]
        if len(set(names)) != len(names):
            raise Untranslatable("a lock attribute is assigned twice")
        defs.append(f"Definition lock_attrs : list string := "
                    f"{coq_strs(names)}.")
        for a, v in locks:
            defs.append(f"Definition lock_path_{a} : ppath := {coq_path(v)}.")
        info['locks'] = {a: as_path(v) for a, v in locks}
    item('MPCacheBase.__init__', init)

    # ---- MPCacheBase.cache_base_path
    def base():
        fn = find_def(tree, 'MPCacheBase.cache_base_path')
        pe = PathEval(tree, selfvals)
        ret = None
        for n in fn.body:
            if is_doc_or_log(n):
                continue
            if isinstance(n, ast.Assign) and len(n.targets) == 1 and \
                    isinstance(n.targets[0], ast.Name):
                pe.env[n.targets[0].id] = pe.ev(n.value)
            elif isinstance(n, (ast.With, ast.If)):
                for x in ast.walk(n):
                    if isinstance(x, (ast.Assign, ast.AugAssign,
                                      ast.NamedExpr)):
                        raise Untranslatable("cache_base_path: assignment "
                                             "inside a block")
            elif isinstance(n, ast.Return):
                ret = pe.ev(n.value)
            else:
                raise Untranslatable("cache_base_path: " + U(n)[:60])
        if ret is None:
            raise Untranslatable("cache_base_path: no return")
        selfvals['cache_base_path'] = ('path', as_path(ret))
        defs.append(f"Definition base_path : ppath := {coq_path(ret)}.")
        info['base_path'] = as_path(ret)
    item('MPCacheBase.cache_base_path', base)

    # ---- the file each operation opens
    def dbpath(meth):
        def go():
            fn = find_def(tree, f'MPCacheSimple.{meth}')
            pe = PathEval(tree, selfvals)
            seen = set()
            vals = []
            for x in ast.walk(fn):
                if isinstance(x, ast.Assign) and len(x.targets) == 1 and \
                        isinstance(x.targets[0], ast.Name):
                    nm = x.targets[0].id
                    try:
                        v = pe.ev(x.value)
                    except Untranslatable:
                        continue          # not a path: irrelevant local
                    if nm in seen:
                        raise Untranslatable(f"{meth}: {nm} assigned twice")
                    seen.add(nm)
                    pe.env[nm] = v
            # second pass: locals defined from other locals
            for x in ast.walk(fn):
                if isinstance(x, ast.Assign) and len(x.targets) == 1 and \
                        isinstance(x.targets[0], ast.Name) and \
                        x.targets[0].id not in pe.env:
                    try:
                        pe.env[x.targets[0].id] = pe.ev(x.value)
                    except Untranslatable:
                        pass
            for x in ast.walk(fn):
                if isinstance(x, ast.Call) and U(x.func) == 'shelve.open':
                    if not x.args:
                        raise Untranslatable(f"{meth}: shelve.open()")
                    vals.append(pe.ev(x.args[0]))
            if not vals:
                raise Untranslatable(f"{meth}: no shelve.open")
            if any(as_path(v) != as_path(vals[0]) for v in vals):
                raise Untranslatable(f"{meth}: opens different files")
            defs.append(f"Definition db_path_{meth} : ppath := "
                        f"{coq_path(vals[0])}.")
            info['db_path_' + meth] = as_path(vals[0])
        item(f'MPCacheSimple.{meth} db path', go)
    for m in ('get', 'set', 'bulk_set', 'unset'):
        dbpath(m)

    # ---- __enter__ / __exit__
    def ctx(name, qual):
        def go():
            fn = find_def(tree, qual)
            w = skeleton.Walker(skeleton.CACHE)
            w.block(fn.body)
            body = "; ".join(skeleton.coq_ev(e) for e in w.out)
            defs.append(f"Definition sk_cache_{name} : list ev := [{body}].")
        item(qual, go)
    ctx('enter', 'MPCacheBase.__enter__')
    ctx('base_exit', 'MPCacheBase.__exit__')
    ctx('exit', 'MPCacheSimple.__exit__')

    def enter_self():
        fn = find_def(tree, 'MPCacheBase.__enter__')
        rets = [n for n in ast.walk(fn) if isinstance(n, ast.Return)]
        ok = len(rets) == 1 and rets[0].value is not None and \
            U(rets[0].value) == 'self'
        defs.append("Definition enter_returns_self : bool := "
                    + ("true" if ok else "false") + ".")
    item('MPCacheBase.__enter__ return', enter_self)

    # ---- abstract interface vs implementation; the default cache type
    def classes():
        def cls(name):
            for n in tree.body:
                if isinstance(n, ast.ClassDef) and n.name == name:
                    return n
            raise Untranslatable(f"class {name} not found")

        def methods(c):
            return [n.name for n in c.body if isinstance(n, ast.FunctionDef)]
        base_c, simple, mp = cls('MPCacheBase'), cls('MPCacheSimple'), \
            cls('MPCache')
        abstract = []
        for n in base_c.body:
            if isinstance(n, ast.FunctionDef) and any(
                    U(d) == 'abc.abstractmethod' for d in n.decorator_list):
                # MPCacheBase.get / set / bulk_set / unset / __iter__ /
                # __len__ / __exit__: no effect of their own
                for s in n.body:
                    if not (is_doc_or_log(s) or isinstance(s, ast.Pass)):
                        raise Untranslatable(f"abstract {n.name} has a body")
                abstract.append(n.name)
        defs.append(f"Definition abstract_methods : list string := "
                    f"{coq_strs(abstract)}.")
        defs.append(f"Definition simple_methods : list string := "
                    f"{coq_strs(methods(simple))}.")
        defs.append(f"Definition simple_bases : list string := "
                    f"{coq_strs([U(b) for b in simple.bases])}.")
        defs.append(f"Definition mpcache_bases : list string := "
                    f"{coq_strs([U(b) for b in mp.bases])}.")
        defs.append(f"Definition mpcache_own_methods : list string := "
                    f"{coq_strs(methods(mp))}.")
        info['abstract'] = abstract
    item('abstract MPCacheBase.get MPCacheBase.set MPCacheBase.bulk_set '
         'MPCacheBase.unset MPCacheBase.__iter__ MPCacheBase.__len__ '
         'MPCacheBase.__exit__ vs the methods of MPCacheSimple (incl. '
         'MPCacheSimple.__iter__ MPCacheSimple.__len__) and class MPCache',
         classes)

    # ---- retry parameters of MPCacheSimple.get
    def retry():
        fn = find_def(tree, 'MPCacheSimple.get')
        mx = [n for n in ast.walk(fn) if isinstance(n, ast.Assign)
              and U(n.targets[0]) == 'max_open_retry']
        if len(mx) != 1:
            raise Untranslatable("max_open_retry: one assignment expected")
        mxv = resolve_const(tree, mx[0].value)
        if not isinstance(mxv, ast.Constant) or \
                not isinstance(mxv.value, int) or isinstance(mxv.value, bool):
            raise Untranslatable("max_open_retry is not an integer constant")
        sl = [n for n in ast.walk(fn) if isinstance(n, ast.Call)
              and U(n.func) == 'time.sleep']
        if len(sl) != 1 or len(sl[0].args) != 1:
            raise Untranslatable("one time.sleep(<n>) expected")
        slv = resolve_const(tree, sl[0].args[0])
        if not isinstance(slv, ast.Constant) or \
                not isinstance(slv.value, int) or isinstance(slv.value, bool):
            raise Untranslatable("time.sleep argument is not an integer "
                                 "constant")
        tests = [U(n.test) for n in ast.walk(fn) if isinstance(n, ast.If)]
        if 'attempt > max_open_retry' not in tests:
            raise Untranslatable("retry bound test")
        incs = [n for n in ast.walk(fn) if isinstance(n, ast.AugAssign)
                and U(n.target) == 'attempt' and isinstance(n.op, ast.Add)
                and U(n.value) == '1']
        if len(incs) != 1:
            raise Untranslatable("attempt += 1")
        defs.append(f"Definition GET_MAX_OPEN_RETRY : Z := "
                    f"{mxv.value}.")
        defs.append(f"Definition GET_RETRY_SLEEP : Z := "
                    f"{slv.value}.")
    item('MPCacheSimple.get retry parameters', retry)

    text = ("(* GENERATED from the repository working tree by "
            "translator/plugins/cache.py - do not edit *)\n"
            "From Coq Require Import String List ZArith.\n"
            "From SK Require Import Model.Skel Model.CachePath.\n"
            "Import ListNotations.\nOpen Scope string_scope.\n"
            "Open Scope Z_scope.\n\n" + "\n".join(defs) + "\n")
    return text, info, failed
