"""T1 plugin: TimestampMatcherBase and the per-line part of
SearchConstraintSearchSince (-> coq/Gen/XTsmatcher.v).

Each item parses one function of searchkit/constraints.py into a small
PROGRAM of the mini languages of coq/Model/TsMatcher.v (not into a verdict):
Props/TsMatcher.v and Props/C16.v prove `interpreter of the extracted program
= hand-written model` for all oracle answers, so a change of behaviour (the
`break` lost, re.search for re.match, the override/group precedence reversed,
the line cut before matching, a counter no longer bumped ...) yields a
DIFFERENT program and the proof about it fails.

Normalised away (harmless rewrites): docstrings, comments, `log.*(...)`
statements (also as the only content of an `if` / of a for-`else`), the names
of locals / of the loop variable, `if x:` vs `if x is not None:` on a match
object, `if not c: A else: B` vs `if c: B else: A`, an early `return` vs an
`else` branch.  Fail closed: any other statement shape is reported as failed
and the definition omitted.
"""
import ast
import os
import sys

sys.path.insert(0, os.path.dirname(os.path.dirname(os.path.abspath(__file__))))
from pyexpr import Untranslatable, find_def  # noqa: E402

SRC = 'searchkit/constraints.py'


def U(n):
    return ast.unparse(n)


def need(cond, why, node=None):
    if not cond:
        where = f"line {getattr(node, 'lineno', '?')}: " if node is not None \
            else ''
        raise Untranslatable(where + why)


def is_log(n):
    return isinstance(n, ast.Expr) and isinstance(n.value, ast.Call) \
        and U(n.value.func).startswith('log.')


def is_doc(n):
    return isinstance(n, ast.Expr) and isinstance(n.value, ast.Constant)


def strip(stmts):
    """ drop docstrings, log calls and ifs / passes that only log """
    out = []
    for n in stmts:
        if is_log(n) or is_doc(n) or isinstance(n, ast.Pass):
            continue
        if isinstance(n, ast.If) and not strip(n.body) and not strip(n.orelse):
            continue
        out.append(n)
    return out


def coq_str(s):
    need(all(32 <= ord(c) < 127 and c != '"' for c in s),
         f"string {s!r} has characters this plugin does not print")
    return '"' + s + '"'


def decorators(f):
    return sorted(U(d) for d in f.decorator_list)


class Out:
    def __init__(self):
        self.defs = []
        self.info = {}
        self.failed = []

    def item(self, name, fn):
        try:
            text, info = fn()
            self.defs.append(text)
            self.info[name] = info
        except (Untranslatable, AssertionError, AttributeError, IndexError,
                KeyError, TypeError, ValueError) as exc:
            self.failed.append((f"tsmatcher:{name}",
                                f"{type(exc).__name__}: {exc}"))


# ------------------------------------------------ TimestampMatcherBase.__init__
def tr_init(tree):
    f = find_def(tree, 'TimestampMatcherBase.__init__')
    args = [a.arg for a in f.args.args]
    need(len(args) == 2 and not f.args.vararg and not f.args.kwarg,
         "__init__(self, line) expected", f)
    self_, line = args
    body = strip(f.body)
    pre = []
    i = 0
    while i < len(body) and not isinstance(body[i], ast.For):
        n = body[i]
        need(isinstance(n, ast.Assign) and len(n.targets) == 1
             and U(n.targets[0]) == f'{self_}.result'
             and U(n.value) == 'None',
             f"statement before the pattern loop is not "
             f"`self.result = None`: {U(n)}", n)
        pre.append('ASetResultNone')
        i += 1
    need(i < len(body), "no loop over the patterns", f)
    loop = body[i]
    need(i == len(body) - 1,
         f"statements after the pattern loop: {U(body[i + 1])[:60]}"
         if i < len(body) - 1 else '', f)
    need(U(loop.iter) == f'{self_}.patterns' and
         isinstance(loop.target, ast.Name),
         f"the loop is not `for <name> in self.patterns`: {U(loop.iter)}",
         loop)
    need(not strip(loop.orelse), "for-else does more than logging", loop)
    pat = loop.target.id
    ret = [None]
    acts = []

    def cond_guard(test):
        """ guard denoted by a test on the match variable """
        if isinstance(test, ast.UnaryOp) and isinstance(test.op, ast.Not):
            g = cond_guard(test.operand)
            return {'GIfRet': 'GIfNotRet', 'GIfNotRet': 'GIfRet'}[g]
        if isinstance(test, ast.Name) and test.id == ret[0]:
            return 'GIfRet'
        if isinstance(test, ast.Compare) and len(test.ops) == 1 \
                and isinstance(test.left, ast.Name) \
                and test.left.id == ret[0] \
                and U(test.comparators[0]) == 'None':
            if isinstance(test.ops[0], ast.IsNot):
                return 'GIfRet'
            if isinstance(test.ops[0], ast.Is):
                return 'GIfNotRet'
        raise Untranslatable(f"line {test.lineno}: test in the pattern loop "
                             f"is not on the match result: {U(test)}")

    def simple(n, guard):
        if isinstance(n, ast.Assign) and len(n.targets) == 1 \
                and isinstance(n.targets[0], ast.Name) \
                and isinstance(n.value, ast.Call) \
                and U(n.value.func) in ('re.match', 're.search',
                                        're.fullmatch'):
            need(guard == 'GAlways', "regex call under a condition", n)
            need([U(a) for a in n.value.args] == [pat, line]
                 and not n.value.keywords,
                 f"regex call is not re.<fn>(<pattern>, <line>): {U(n)}", n)
            need(ret[0] in (None, n.targets[0].id),
                 "two different match variables", n)
            ret[0] = n.targets[0].id
            fn = {'re.match': 'ReMatch', 're.search': 'ReSearch',
                  're.fullmatch': 'ReFullmatch'}[U(n.value.func)]
            acts.append((guard, f'ATry {fn}'))
        elif isinstance(n, ast.Assign) and len(n.targets) == 1 \
                and U(n.targets[0]) == f'{self_}.result':
            if U(n.value) == 'None':
                acts.append((guard, 'ASetResultNone'))
            else:
                need(isinstance(n.value, ast.Name)
                     and n.value.id == ret[0],
                     f"self.result set to something else than the match "
                     f"result: {U(n)}", n)
                acts.append((guard, 'ASetResult'))
        elif isinstance(n, ast.Break):
            acts.append((guard, 'ABreak'))
        elif isinstance(n, ast.Continue):
            acts.append((guard, 'AContinue'))
        else:
            raise Untranslatable(f"line {n.lineno}: unsupported statement "
                                 f"in the pattern loop: {U(n)[:80]}")

    for n in strip(loop.body):
        if isinstance(n, ast.If):
            g = cond_guard(n.test)
            og = {'GIfRet': 'GIfNotRet', 'GIfNotRet': 'GIfRet'}[g]
            for m in strip(n.body):
                need(not isinstance(m, ast.If), "nested if in the pattern "
                     "loop", m)
                simple(m, g)
            for m in strip(n.orelse):
                need(not isinstance(m, ast.If), "nested if in the pattern "
                     "loop", m)
                simple(m, og)
        else:
            simple(n, 'GAlways')
    text = ("Definition x_ts_init : init_prog :=\n  IP [" + "; ".join(pre)
            + "]\n     [" + "; ".join(f"({g}, {a})" for g, a in acts) + "].")
    return text, {'pre': pre, 'body': acts}


# ------------------------------------------------ TimestampMatcherBase.matched
def tr_matched(tree):
    f = find_def(tree, 'TimestampMatcherBase.matched')
    need(decorators(f) == ['property'], "matched is not a plain property", f)
    body = strip(f.body)
    need(len(body) == 1 and isinstance(body[0], ast.Return), "matched: one "
         "return expected", f)
    src = U(body[0].value)
    if src == 'self.result is not None':
        rhs = "match result with Some _ => true | None => false end"
    elif src == 'self.result is None':
        rhs = "match result with Some _ => false | None => true end"
    elif src in ('bool(self.result)', 'True if self.result else False'):
        # a match object is always truthy
        rhs = "match result with Some _ => true | None => false end"
    else:
        raise Untranslatable(f"matched returns {src}")
    return (f"Definition x_ts_matched {{M}} (result : option M) : bool :=\n"
            f"  {rhs}.", {'source': src})


# ------------------------------------------------ TimestampMatcherBase.patterns
def tr_abstract(tree, qual, name, deco):
    f = find_def(tree, qual)
    need(decorators(f) == sorted(deco),
         f"{qual}: decorators are {decorators(f)}", f)
    need(not strip(f.body), f"{qual}: abstract method has a body", f)
    return (f"Definition {name} : bool := true.", {'decorators': deco})


# ------------------------------------------------ TimestampMatcherBase.strptime
def tr_strptime(tree):
    """ accepted shapes (K = literal list of key names, possibly bound to a
    local first):
          vals = {}
          for key in K:
              [alias = <name expr>]
              if C: vals[D] = int(S1)  else: vals[D] = int(S2)
            | vals[D] = int(S1 if C else S2)
          return datetime(**vals)
      or  vals = {D: int(S1 if C else S2) for key in K}
          return datetime(**vals) """
    f = find_def(tree, 'TimestampMatcherBase.strptime')
    need(decorators(f) == ['property'], "strptime is not a plain property",
         f)
    body = strip(f.body)
    lists = {}
    while body and isinstance(body[0], ast.Assign) \
            and isinstance(body[0].value, (ast.List, ast.Tuple)) \
            and isinstance(body[0].targets[0], ast.Name):
        lists[body[0].targets[0].id] = body[0].value
        body = body[1:]
    need(body and isinstance(body[-1], ast.Return), "strptime: no return", f)
    ret = body[-1]
    state = {'key': None, 'aliases': {}}

    def keylist(it):
        if isinstance(it, ast.Name) and it.id in lists:
            it = lists[it.id]
        need(isinstance(it, (ast.List, ast.Tuple))
             and all(isinstance(e, ast.Constant) and isinstance(e.value, str)
                     for e in it.elts), "the keys are not a literal list of "
             "names", it)
        return [e.value for e in it.elts]

    def nexpr(e):
        key = state['key']
        s = U(e)
        if s == key:
            return 'NKey'
        if s in (f"{key}.rstrip('s')", f'{key}.rstrip("s")'):
            return 'NRstripS'
        if isinstance(e, ast.Name) and e.id in state['aliases']:
            return state['aliases'][e.id]
        raise Untranslatable(f"line {e.lineno}: name expression {s}")

    def cond(t):
        if isinstance(t, ast.UnaryOp) and isinstance(t.op, ast.Not):
            return f"(CNot {cond(t.operand)})"
        if isinstance(t, ast.Call) and U(t.func) == 'hasattr' \
                and len(t.args) == 2 and U(t.args[0]) == 'self':
            return f"(CHasAttr {nexpr(t.args[1])})"
        raise Untranslatable(f"line {t.lineno}: the field condition is not "
                             f"hasattr(self, <name>): {U(t)}")

    def src(a):
        if isinstance(a, ast.Call) and U(a.func) == 'getattr' \
                and len(a.args) == 2 and U(a.args[0]) == 'self':
            return f"(VAttr {nexpr(a.args[1])})"
        if isinstance(a, ast.Call) and U(a.func) == 'self.result.group' \
                and len(a.args) == 1:
            return f"(VGroup {nexpr(a.args[0])})"
        raise Untranslatable(f"line {a.lineno}: field source {U(a)}")

    def int_arg(v):
        need(isinstance(v, ast.Call) and U(v.func) == 'int'
             and len(v.args) == 1 and not v.keywords,
             f"value is not int(...): {U(v)}", v)
        return v.args[0]

    def choice(v):
        """ int(S1 if C else S2) -> (C, S1, S2) """
        a = int_arg(v)
        need(isinstance(a, ast.IfExp), f"no override/group choice in "
             f"{U(v)}", v)
        return cond(a.test), src(a.body), src(a.orelse)

    if len(body) == 2 and isinstance(body[0], ast.Assign) \
            and isinstance(body[0].value, ast.DictComp):
        dc = body[0].value
        vals = U(body[0].targets[0])
        need(len(dc.generators) == 1 and not dc.generators[0].ifs
             and isinstance(dc.generators[0].target, ast.Name),
             "dict comprehension with one plain generator", dc)
        state['key'] = dc.generators[0].target.id
        keys = keylist(dc.generators[0].iter)
        dest = nexpr(dc.key)
        c, th, el = choice(dc.value)
    else:
        need(len(body) == 3, f"strptime: expected `vals = {{}}`, a loop and "
             f"a return, found {len(body)} statements", f)
        init, loop = body[0], body[1]
        need(isinstance(init, ast.Assign) and len(init.targets) == 1
             and isinstance(init.targets[0], ast.Name)
             and U(init.value) in ('{}', 'dict()'), "vals = {}", init)
        vals = init.targets[0].id
        need(isinstance(loop, ast.For) and isinstance(loop.target, ast.Name)
             and not loop.orelse, "loop over the key names", loop)
        state['key'] = loop.target.id
        keys = keylist(loop.iter)
        lb = strip(loop.body)
        while lb and isinstance(lb[0], ast.Assign) \
                and len(lb[0].targets) == 1 \
                and isinstance(lb[0].targets[0], ast.Name):
            state['aliases'][lb[0].targets[0].id] = nexpr(lb[0].value)
            lb = lb[1:]
        need(len(lb) == 1, "loop body is not one statement", loop)

        def store(st):
            st = strip(st)
            need(len(st) == 1 and isinstance(st[0], ast.Assign)
                 and len(st[0].targets) == 1
                 and isinstance(st[0].targets[0], ast.Subscript)
                 and U(st[0].targets[0].value) == vals,
                 f"not one `{vals}[...] = ...`", loop)
            return nexpr(st[0].targets[0].slice), st[0].value

        if isinstance(lb[0], ast.If):
            need(lb[0].orelse, "if without else", lb[0])
            c = cond(lb[0].test)
            d1, v1 = store(lb[0].body)
            d2, v2 = store(lb[0].orelse)
            need(d1 == d2, "the two branches store under different names",
                 lb[0])
            dest, th, el = d1, src(int_arg(v1)), src(int_arg(v2))
        else:
            dest, v = store([lb[0]])
            c, th, el = choice(v)
    need(U(ret.value) == f'datetime(**{vals})',
         f"strptime does not return datetime(**{vals}): {U(ret)}", ret)
    text = ("Definition x_ts_strptime : strp_prog :=\n  SP ["
            + "; ".join(coq_str(k) for k in keys) + f"]\n     {dest} {c} "
            f"{th} {el}.")
    return text, {'keys': keys, 'dest': dest, 'cond': c, 'then': th,
                  'else': el}


def tr_default_format(tree):
    cls = find_def(tree, 'TimestampMatcherBase')
    found = [n.value for n in cls.body if isinstance(n, ast.Assign)
             and U(n.targets[0]) == 'DEFAULT_DATETIME_FORMAT']
    need(len(found) == 1 and isinstance(found[0], ast.Constant)
         and isinstance(found[0].value, str),
         "DEFAULT_DATETIME_FORMAT is not one string literal", cls)
    return (f"Definition x_ts_default_format : string := "
            f"{coq_str(found[0].value)}.", {'value': found[0].value})


# ------------------------- SearchConstraintSearchSince.extracted_datetime
def int_const(tree, e):
    """ integer value of a literal or of Class.NAME = <int literal> """
    if e is None:
        return None
    if isinstance(e, ast.Constant) and isinstance(e.value, int):
        return e.value
    if isinstance(e, ast.Attribute) and isinstance(e.value, ast.Name):
        cls = find_def(tree, e.value.id)
        for n in cls.body:
            if isinstance(n, ast.Assign) and U(n.targets[0]) == e.attr \
                    and isinstance(n.value, ast.Constant) \
                    and isinstance(n.value.value, int):
                return n.value.value
    raise Untranslatable(f"line {e.lineno}: slice bound {U(e)}")


def tr_extracted_datetime(tree):
    f = find_def(tree, 'SearchConstraintSearchSince.extracted_datetime')
    args = [a.arg for a in f.args.args]
    need(len(args) == 2, "extracted_datetime(self, line)", f)
    line = args[1]
    ops = []
    body = strip(f.body)
    i = 0

    def opt(z):
        return "None" if z is None else f"(Some {z})" if z >= 0 \
            else f"(Some ({z}))"

    def decode_call(v):
        return isinstance(v, ast.Call) and U(v.func) == f'{line}.decode'

    while i < len(body):
        n = body[i]
        if isinstance(n, ast.If) and U(n.test) == f'isinstance({line}, '\
                'bytes)' and not strip(n.orelse):
            b = strip(n.body)
            need(len(b) == 1 and isinstance(b[0], ast.Assign)
                 and U(b[0].targets[0]) == line and decode_call(b[0].value),
                 "bytes branch is not `line = line.decode(...)`", n)
            ops.append('LDecodeIfBytes')
        elif isinstance(n, ast.Assign) and len(n.targets) == 1 \
                and U(n.targets[0]) == line:
            v = n.value
            need(isinstance(v, ast.Subscript) and U(v.value) == line
                 and isinstance(v.slice, ast.Slice) and v.slice.step is None,
                 f"`{line}` reassigned: {U(n)}", n)
            lo = int_const(tree, v.slice.lower)
            hi = int_const(tree, v.slice.upper)
            need((lo is None or lo >= 0) and (hi is None or hi >= 0),
                 "negative slice bound", n)
            ops.append(f"LSlice {opt(lo)} {opt(hi)}")
        else:
            break
        i += 1
    rest = body[i:]
    need(len(rest) >= 2, "matcher construction / result handling missing", f)
    mk = rest[0]
    need(isinstance(mk, ast.Assign) and isinstance(mk.targets[0], ast.Name)
         and isinstance(mk.value, ast.Call)
         and U(mk.value.func) == 'self.ts_matcher_cls'
         and [U(a) for a in mk.value.args] == [line]
         and not mk.value.keywords,
         f"the matcher is not built as self.ts_matcher_cls({line}): "
         f"{U(mk)}", mk)
    ts = mk.targets[0].id
    # if ts.matched: try: return ts.strptime except (...): return None
    guard = rest[1]
    need(isinstance(guard, ast.If) and U(guard.test) == f'{ts}.matched'
         and not strip(guard.orelse), "strptime is not guarded by .matched",
         guard)
    gb = strip(guard.body)
    need(len(gb) == 1, "guarded body", guard)
    caught = []
    if isinstance(gb[0], ast.Try):
        t = gb[0]
        tb = strip(t.body)
        need(len(tb) == 1 and isinstance(tb[0], ast.Return)
             and U(tb[0].value) == f'{ts}.strptime' and not t.finalbody
             and not strip(t.orelse), "try body is not `return ts.strptime`",
             t)
        for h in t.handlers:
            hb = strip(h.body)
            need(len(hb) == 1 and isinstance(hb[0], ast.Return)
                 and U(hb[0].value) == 'None', "handler does not return "
                 "None", h)
            need(h.type is not None, "bare except", h)
            elts = h.type.elts if isinstance(h.type, ast.Tuple) else [h.type]
            caught += [U(e) for e in elts]
    else:
        need(isinstance(gb[0], ast.Return)
             and U(gb[0].value) == f'{ts}.strptime', "guarded body is not "
             "`return ts.strptime`", gb[0])
    tail = rest[2:]
    need(len(tail) == 1 and isinstance(tail[0], ast.Return)
         and U(tail[0].value) == 'None', "no final `return None`", f)
    text = ("Definition x_ed_line_ops : list lineop := [" + "; ".join(ops)
            + "].\nDefinition x_ed_guarded_by_matched : bool := true.\n"
            "Definition x_ed_none_on : list string := ["
            + "; ".join(coq_str(c) for c in caught) + "].")
    return text, {'ops': ops, 'caught': caught}


# ------------------------- SearchConstraintSearchSince.date_format
def tr_date_format(tree):
    f = find_def(tree, 'SearchConstraintSearchSince.date_format')
    need(decorators(f) == ['property'], "date_format: plain property", f)
    body = strip(f.body)
    need(len(body) == 2 and isinstance(body[0], ast.If)
         and U(body[0].test) == 'self.ts_matcher_cls'
         and not strip(body[0].orelse), "if self.ts_matcher_cls: ...", f)
    tb = strip(body[0].body)
    need(len(tb) == 1 and isinstance(tb[0], ast.Return)
         and U(tb[0].value) == 'self.ts_matcher_cls.DEFAULT_DATETIME_FORMAT',
         "class branch does not return the class's format", body[0])
    need(isinstance(body[1], ast.Return) and U(body[1].value) ==
         'TimestampMatcherBase.DEFAULT_DATETIME_FORMAT', "fallback is not "
         "the base format", body[1])
    return ("Definition x_date_format {A} (has_cls : bool) (cls_fmt "
            "base_fmt : A) : A :=\n  if has_cls then cls_fmt else base_fmt.",
            {})


def tr_is_valid(tree):
    f = find_def(tree, 'SearchConstraintSearchSince._is_valid')
    need(decorators(f) == ['property'], "_is_valid: plain property", f)
    body = strip(f.body)
    need(len(body) == 1 and isinstance(body[0], ast.Return)
         and U(body[0].value) == 'self.since_date is not None',
         "_is_valid is not `self.since_date is not None`", f)
    return ("Definition x_is_valid {A} (since_date : option A) : bool :=\n"
            "  match since_date with Some _ => true | None => false end.",
            {})


def tr_stats(tree):
    f = find_def(tree, 'SearchConstraintSearchSince.stats')
    body = strip(f.body)
    # either `_stats = {...}; return _stats` or `return {...}`
    if len(body) == 2 and isinstance(body[0], ast.Assign) \
            and isinstance(body[1], ast.Return) \
            and U(body[1].value) == U(body[0].targets[0]):
        d = body[0].value
    else:
        need(len(body) == 1 and isinstance(body[0], ast.Return), "stats: "
             "unsupported body", f)
        d = body[0].value
    need(isinstance(d, ast.Dict), "stats does not build a dict literal", f)
    top = {U(k): v for k, v in zip(d.keys, d.values)}
    need("'line'" in top and isinstance(top["'line'"], ast.Dict),
         "no 'line' sub-dict", d)
    ln = {U(k): U(v) for k, v in zip(top["'line'"].keys,
                                    top["'line'"].values)}
    need(set(ln) == {"'pass'", "'fail'"}, f"line keys are {sorted(ln)}", d)
    names = {'self._line_pass': 'line_pass', 'self._line_fail': 'line_fail'}
    need(ln["'pass'"] in names and ln["'fail'"] in names,
         f"line values are {ln}", d)
    return ("Definition x_stats_line (line_pass line_fail : Z) : Z * Z :=\n"
            f"  ({names[ln[chr(39) + 'pass' + chr(39)]]}, "
            f"{names[ln[chr(39) + 'fail' + chr(39)]]}).", {'line': ln})


# ------------------------- SearchConstraintSearchSince.apply_to_line
def tr_apply_to_line(tree):
    f = find_def(tree, 'SearchConstraintSearchSince.apply_to_line')
    args = [a.arg for a in f.args.args]
    need(len(args) == 2, "apply_to_line(self, line)", f)
    line = args[1]
    tsvar = [None]

    def cond(t):
        if isinstance(t, ast.UnaryOp) and isinstance(t.op, ast.Not):
            return f"(ANot {cond(t.operand)})"
        s = U(t)
        if s == 'self._is_valid':
            return "AIsValid"
        if tsvar[0] and s == tsvar[0]:
            return "AHasTs"
        if tsvar[0] and s == f'{tsvar[0]} is None':
            return "(ANot AHasTs)"
        if tsvar[0] and s == f'{tsvar[0]} is not None':
            return "AHasTs"
        if tsvar[0] and s == f'self._line_date_is_valid({tsvar[0]})':
            return "ADateOk"
        raise Untranslatable(f"line {t.lineno}: condition {s}")

    def conv(stmts, incs):
        """ decision tree of a statement list (continuation style) """
        stmts = strip(stmts)
        if not stmts:
            return f"(ALeaf [{'; '.join(incs)}] RFallOff)"
        n, rest = stmts[0], stmts[1:]
        if isinstance(n, ast.Raise):
            need(isinstance(n.exc, ast.Call), "raise <Class>(...)", n)
            return (f"(ALeaf [{'; '.join(incs)}] "
                    f"(RRaise {coq_str(U(n.exc.func))}))")
        if isinstance(n, ast.Return):
            need(isinstance(n.value, ast.Constant)
                 and isinstance(n.value.value, bool), "return True/False", n)
            return (f"(ALeaf [{'; '.join(incs)}] "
                    f"(RRet {'true' if n.value.value else 'false'}))")
        if isinstance(n, ast.AugAssign) and isinstance(n.op, ast.Add) \
                and U(n.value) == '1' and U(n.target).startswith('self.'):
            return conv(rest, incs + [coq_str(U(n.target)[5:])])
        if isinstance(n, ast.Assign) and len(n.targets) == 1 \
                and isinstance(n.targets[0], ast.Name) \
                and U(n.value) == f'self.extracted_datetime({line})':
            need(tsvar[0] is None and not incs, "the timestamp is extracted "
                 "twice / after a counter update", n)
            tsvar[0] = n.targets[0].id
            return conv(rest, incs)
        if isinstance(n, ast.If):
            c = cond(n.test)
            return (f"(ANode {c} {conv(list(n.body) + rest, incs)} "
                    f"{conv(list(n.orelse) + rest, incs)})")
        raise Untranslatable(f"line {n.lineno}: unsupported statement "
                             f"{U(n)[:80]}")

    t = conv(f.body, [])
    return (f"Definition x_apply_to_line : atree :=\n  {t}.", {'tree': t})


def generate(repo):
    out = Out()
    with open(os.path.join(repo, SRC), encoding='utf-8') as fh:
        tree = ast.parse(fh.read())
    out.item('x_ts_init', lambda: tr_init(tree))
    out.item('x_ts_matched', lambda: tr_matched(tree))
    out.item('x_ts_patterns_abstract', lambda: tr_abstract(
        tree, 'TimestampMatcherBase.patterns', 'x_ts_patterns_abstract',
        ['property', 'abc.abstractmethod']))
    out.item('x_ts_strptime', lambda: tr_strptime(tree))
    out.item('x_ts_default_format', lambda: tr_default_format(tree))
    out.item('x_ed_line_ops', lambda: tr_extracted_datetime(tree))
    out.item('x_date_format', lambda: tr_date_format(tree))
    out.item('x_is_valid', lambda: tr_is_valid(tree))
    out.item('x_stats_line', lambda: tr_stats(tree))
    out.item('x_apply_to_line', lambda: tr_apply_to_line(tree))
    out.item('x_since_date_abstract', lambda: tr_abstract(
        tree, 'BinarySeekSearchBase.since_date', 'x_since_date_abstract',
        ['property', 'abc.abstractmethod']))
    out.item('x_apply_to_line_abstract', lambda: tr_abstract(
        tree, 'ConstraintBase.apply_to_line', 'x_apply_to_line_abstract',
        ['abc.abstractmethod']))
    head = ("(* GENERATED from the repository working tree by "
            "translator/plugins/tsmatcher.py - do not edit *)\n"
            "From Coq Require Import String ZArith List Bool.\n"
            "From SK Require Import Model.TsMatcher.\n"
            "Import ListNotations.\nOpen Scope string_scope.\n"
            "Open Scope list_scope.\nOpen Scope Z_scope.\n\n")
    return head + "\n\n".join(out.defs) + "\n", out.info, out.failed
