"""T1 plugin for C04: the pieces of the since-date binary seek in
searchkit/constraints.py that the tree skeletons do not show (arguments and
comparison operators are not events), as Gallina definitions in Gen/XSeek.v:

  apply_to_file   apply_seek_sites     target of every fd.seek(...) call, in
                                       source order, as a function of
                                       (cached offset, orig_offset,
                                        new_offset, file length)
  __getitem__     getitem_tfld_args    the (start, line feed, forwards)
                                       arguments of the two
                                       try_find_line_with_date calls
                  getitem_line_info_cmp  test guarding `self.line_info = result`
  LogLine         logline_init_fields, logline_start_lf_attr /
                  logline_end_lf_attr, logline_len (__len__),
                  read_line_window (_read_line: seek target, bytes read),
                  logline_date_read_len (date), logline_text_read_len (text)
  SearchState     search_state_init_fields, *_status_attr, *_offset_attr
  SavedFilePosition   saved_position_after_exit
  LogFileDateSinceSeeker.__init__ / __len__   seeker_init_*, seeker_len
  run             run_tfld_args        arguments of the last-line probe
                  run_shortcut_slf     start line feed of the faked first line
                  run_shortcut_cmp     inner test of the first-line shortcut
                  run_bisect_fn        the bisect function applied to the seeker
                  run_returns          what the three returns / raises yield

Every extractor checks the exact statement shape it relies on and fails closed
(definition omitted, item reported) otherwise.
"""
import ast
import os


class Bad(Exception):
    pass


CMP = {ast.GtE: '>=?', ast.Gt: '>?', ast.LtE: '<=?', ast.Lt: '<?',
       ast.Eq: '=?'}


def _find(tree, cls, fn):
    for n in tree.body:
        if isinstance(n, ast.ClassDef) and n.name == cls:
            for m in n.body:
                if isinstance(m, ast.FunctionDef) and m.name == fn:
                    return m
    raise Bad(f"{cls}.{fn} not found")


def _calls(fn, src):
    """ Call nodes whose function unparses to `src`, in source order """
    out = [n for n in ast.walk(fn) if isinstance(n, ast.Call)
           and ast.unparse(n.func) == src]
    return sorted(out, key=lambda n: (n.lineno, n.col_offset))


WHENCE = {'os.SEEK_SET': 0, 'os.SEEK_CUR': 1, 'os.SEEK_END': 2,
          'io.SEEK_SET': 0, 'io.SEEK_CUR': 1, 'io.SEEK_END': 2}


MODULE = [None]       # the parsed constraints.py (for module constants)


def _int(node):
    if ast.unparse(node) in WHENCE:
        return WHENCE[ast.unparse(node)]
    if isinstance(node, ast.Name) and MODULE[0] is not None:
        # a literal behind a single-assignment module constant
        from pyexpr import resolve_const, Untranslatable
        try:
            node = resolve_const(MODULE[0], node)
        except Untranslatable as exc:
            raise Bad(str(exc)) from None
    if isinstance(node, ast.Constant) and isinstance(node.value, int) \
            and not isinstance(node.value, bool):
        return node.value
    if isinstance(node, ast.UnaryOp) and isinstance(node.op, ast.USub) and \
            isinstance(node.operand, ast.Constant) and \
            isinstance(node.operand.value, int):
        return -node.operand.value
    raise Bad(f"integer literal expected: {ast.unparse(node)}")


def _z(k):
    return f"({k})" if k < 0 else str(k)


def seek_sites(fn):
    """ the fd.seek calls inside the try statement of apply_to_file (the
    cached-offset branch before it belongs to C08 and may live in a helper) """
    tries = [n for n in fn.body if isinstance(n, ast.Try)]
    if len(tries) != 1:
        raise Bad("apply_to_file: one try statement expected")
    sites = []
    for c in _calls(tries[0], 'fd.seek'):
        if c.keywords or not 1 <= len(c.args) <= 2:
            raise Bad(f"fd.seek call shape: {ast.unparse(c)}")
        a0 = ast.unparse(c.args[0])
        whence = _int(c.args[1]) if len(c.args) == 2 else 0
        if whence == 2:
            sites.append(f"(len + {_z(_int(c.args[0]))})")
        elif whence != 0:
            raise Bad(f"fd.seek whence: {ast.unparse(c)}")
        elif a0 == 'orig_offset':
            sites.append('orig')
        elif a0 == 'new_offset':
            sites.append('newoff')
        elif a0 == 'self._results[fd.name]':
            sites.append('cached')
        else:
            sites.append(_z(_int(c.args[0])))
    body = "; ".join(f"fun cached orig newoff len => {s}" for s in sites)
    txt = ("Definition apply_seek_sites : list (Z -> Z -> Z -> Z -> Z) :=\n"
           f"  [{body}].\n")
    # the test that chooses between fd.seek(orig_offset) and
    # fd.seek(new_offset) in the try body, as a function of
    # (new_offset is None, destructive)
    ifs = [n for n in tries[0].body if isinstance(n, ast.If) and
           _calls(n, 'fd.seek')]
    if len(ifs) != 1:
        raise Bad("apply_to_file: one if with fd.seek in the try body")

    def cond(e):
        if isinstance(e, ast.BoolOp):
            op = '&&' if isinstance(e.op, ast.And) else '||'
            return "(" + f" {op} ".join(cond(v) for v in e.values) + ")"
        if isinstance(e, ast.UnaryOp) and isinstance(e.op, ast.Not):
            return f"(negb {cond(e.operand)})"
        if isinstance(e, ast.Name) and e.id == 'destructive':
            return 'destructive'
        if isinstance(e, ast.Compare) and len(e.ops) == 1 and \
                ast.unparse(e.left) == 'new_offset' and \
                isinstance(e.comparators[0], ast.Constant) and \
                e.comparators[0].value is None:
            if isinstance(e.ops[0], ast.Is):
                return 'newoff_is_none'
            if isinstance(e.ops[0], ast.IsNot):
                return '(negb newoff_is_none)'
        raise Bad(f"apply_to_file seek test: `{ast.unparse(e)}`")
    txt += ("Definition apply_body_test (newoff_is_none destructive : bool)"
            f" : bool :=\n  {cond(ifs[0].test)}.\n")
    return txt, sites


def _tfld_arg(c, lenexpr=None):
    if c.keywords or len(c.args) != 3:
        raise Bad(f"try_find_line_with_date call shape: {ast.unparse(c)}")
    a, b, f = c.args
    sa = ast.unparse(a)
    if sa == 'offset':
        ga = 'offset'
    elif isinstance(a, ast.BinOp) and isinstance(a.op, (ast.Add, ast.Sub)) \
            and ast.unparse(a.left) == 'offset':
        ga = f"(offset {'+' if isinstance(a.op, ast.Add) else '-'} " \
             f"{_z(_int(a.right))})"
    elif lenexpr is not None and isinstance(a, ast.Call) and \
            ast.unparse(a.func) == lenexpr and not a.keywords and \
            [_int(x) for x in a.args] == [0, 2]:
        ga = 'len'
    else:
        raise Bad(f"start offset argument: {sa}")
    if isinstance(b, ast.Constant) and b.value is None:
        gb = 'None'
    elif ast.unparse(b) == 'offset':
        gb = '(Some offset)'
    else:
        raise Bad(f"line feed argument: {ast.unparse(b)}")
    if isinstance(f, ast.Constant) and f.value is True:
        gf = 'true'
    elif isinstance(f, ast.Constant) and f.value is False:
        gf = 'false'
    else:
        raise Bad(f"forwards argument: {ast.unparse(f)}")
    return f"({ga}, {gb}, {gf})"


def _date_cmp(test, what):
    if not (isinstance(test, ast.Compare) and len(test.ops) == 1 and
            ast.unparse(test.left) == 'result.date' and
            ast.unparse(test.comparators[0]) ==
            'self.constraint.since_date' and type(test.ops[0]) in CMP):
        raise Bad(f"{what}: test is `{ast.unparse(test)}`")
    return f"(d {CMP[type(test.ops[0])]} since)"


def _nolog(stmts):
    return [n for n in stmts
            if not (isinstance(n, ast.Expr) and (
                isinstance(n.value, ast.Constant) or (
                    isinstance(n.value, ast.Call) and
                    ast.unparse(n.value.func).startswith('log.'))))]


def getitem(fn):
    calls = _calls(fn, 'self.try_find_line_with_date')
    args = [_tfld_arg(c) for c in calls]
    txt = ("Definition getitem_tfld_args : list (Z -> Z * option Z * bool) :=\n"
           "  [" + "; ".join(f"fun offset => {a}" for a in args) + "].\n")
    # `self.line_info = result` and the test that guards it
    guards = []
    body = _nolog(fn.body)
    for i, n in enumerate(body):
        if isinstance(n, ast.If):
            inner = _nolog(n.body)
            if any(isinstance(m, ast.Assign) and
                   ast.unparse(m.targets[0]) == 'self.line_info'
                   for m in ast.walk(n)):
                if not (len(inner) == 1 and isinstance(inner[0], ast.Assign)
                        and ast.unparse(inner[0]) == 'self.line_info = result'
                        and not n.orelse):
                    raise Bad("shape of the `self.line_info = result` block")
                prev = body[i - 1] if i else None
                if prev is None or ast.unparse(prev) != \
                        'self.found_any_date = True':
                    raise Bad("`self.found_any_date = True` must precede the "
                              "line_info test")
                guards.append(n.test)
    assigns = [m for m in ast.walk(fn) if isinstance(m, ast.Assign) and
               ast.unparse(m.targets[0]) in ('self.line_info',
                                             'self.found_any_date')]
    if len(guards) != 1 or len(assigns) != 2:
        raise Bad("exactly one guarded `self.line_info = result` and one "
                  "`self.found_any_date = True` expected at top level")
    rets = [m for m in ast.walk(fn) if isinstance(m, ast.Return)]
    if len(rets) != 1 or ast.unparse(rets[0].value) != 'result.date':
        raise Bad("__getitem__ must return result.date")
    txt += ("Definition getitem_line_info_cmp (d since : Z) : bool :=\n"
            f"  {_date_cmp(guards[0], 'line_info guard')}.\n")
    return txt, args


def run(fn):
    calls = _calls(fn, 'self.try_find_line_with_date')
    if len(calls) != 1:
        raise Bad("one last-line probe expected in run()")
    probe = _tfld_arg(calls[0], lenexpr='self.file.seek')
    txt = ("Definition run_tfld_args (len : Z) : Z * option Z * bool :=\n"
           f"  let offset := 0 in {probe}.\n")
    # first-line shortcut
    outer = [n for n in ast.walk(fn) if isinstance(n, ast.If) and
             ast.unparse(n.test) == 'result.date is not None']
    if len(outer) != 1:
        raise Bad("`if result.date is not None:` of the shortcut")
    inner = _nolog(outer[0].body)
    if not (len(inner) == 1 and isinstance(inner[0], ast.If) and
            not inner[0].orelse and not outer[0].orelse):
        raise Bad("shape of the first-line shortcut")
    ret = _nolog(inner[0].body)
    if not (len(ret) == 1 and isinstance(ret[0], ast.Return) and
            ast.unparse(ret[0].value) == 'current'):
        raise Bad("the shortcut must `return current`")
    cur = [m for m in ast.walk(fn) if isinstance(m, ast.Assign) and
           ast.unparse(m.targets[0]) == 'current']
    if len(cur) != 1 or ast.unparse(cur[0].value) != 'self.file.tell()':
        raise Bad("`current = self.file.tell()`")
    ll = [m for m in ast.walk(fn) if isinstance(m, ast.Call) and
          ast.unparse(m.func) == 'LogLine']
    if len(ll) != 1 or len(ll[0].args) != 4:
        raise Bad("the faked first LogLine")
    slf = ll[0].args[2]
    if not (isinstance(slf, ast.Call) and
            ast.unparse(slf.func) == 'SearchState' and len(slf.args) == 2 and
            ast.unparse(slf.args[0]) == 'FindTokenStatus.FOUND'):
        raise Bad("start line feed of the faked first LogLine")
    txt += (f"Definition run_shortcut_slf : Z := {_z(_int(slf.args[1]))}.\n"
            "Definition run_shortcut_cmp (d since : Z) : bool :=\n"
            f"  {_date_cmp(inner[0].test, 'shortcut test')}.\n")
    # bisect
    tries = [n for n in fn.body if isinstance(n, ast.Try)]
    if len(tries) != 1:
        raise Bad("one try block expected in run()")
    tb = _nolog(tries[0].body)
    if not (len(tb) == 1 and isinstance(tb[0], ast.Expr) and
            isinstance(tb[0].value, ast.Call)):
        raise Bad("the try body must be the bisect call")
    bc = tb[0].value
    fname = ast.unparse(bc.func)
    if not fname.startswith('bisect.') or bc.keywords or \
            [ast.unparse(a) for a in bc.args] != \
            ['self', 'self.constraint.since_date']:
        raise Bad(f"bisect call: {ast.unparse(bc)}")
    txt += (f'Definition run_bisect_fn : string := "{fname[7:]}".\n')
    # handler: NoTimestamps iff no date was ever found; final test and return
    h = tries[0].handlers
    if not (len(h) == 1 and ast.unparse(h[0].type) ==
            'TooManyLinesWithoutDate'):
        raise Bad("handler of the bisect try")
    hb = _nolog(h[0].body)
    if not (len(hb) == 2 and isinstance(hb[0], ast.If) and
            ast.unparse(hb[0].test) == 'not self.found_any_date' and
            isinstance(hb[1], ast.Raise) and hb[1].exc is None):
        raise Bad("body of the TooManyLinesWithoutDate handler")
    tail = _nolog(fn.body)[-2:]
    if not (isinstance(tail[0], ast.If) and
            ast.unparse(tail[0].test) == 'not self.line_info' and
            isinstance(tail[1], ast.Return) and
            ast.unparse(tail[1].value) == 'self.line_info.start_offset'):
        raise Bad("`if not self.line_info: raise ...; return "
                  "self.line_info.start_offset`")
    txt += "Definition run_returns_line_info_start : bool := true.\n"
    return txt


def _findq(tree, qual):
    cls, fn = qual.split('.')
    return _find(tree, cls, fn)


def _stmts(fn):
    """ body without docstring, log.* calls and asserts """
    return [n for n in _nolog(fn.body) if not isinstance(n, ast.Assert)]


def _ret_expr(fn, what):
    b = _stmts(fn)
    if not (len(b) == 1 and isinstance(b[0], ast.Return)):
        raise Bad(f"{what}: a single return expected")
    return b[0].value


def _fields(fn, what):
    """ __init__ that only copies / initialises attributes:
    [(attribute, source text of the value)] in order """
    out = []
    for n in _stmts(fn):
        if isinstance(n, ast.With):
            continue
        if not (isinstance(n, ast.Assign) and len(n.targets) == 1 and
                isinstance(n.targets[0], ast.Attribute) and
                ast.unparse(n.targets[0].value) == 'self'):
            raise Bad(f"{what}: unexpected statement `{ast.unparse(n)}`")
        out.append((n.targets[0].attr, ast.unparse(n.value)))
    return out


def _coq_pairs(name, pairs):
    body = "; ".join(f'("{a}", "{b}")' for a, b in pairs)
    return (f"Definition {name} : list (string * string) :=\n"
            f"  [{body}]%string.\n")


def _arith(e, env, what):
    """ + - over names in env and integer literals """
    if isinstance(e, ast.BinOp) and isinstance(e.op, (ast.Add, ast.Sub)):
        op = '+' if isinstance(e.op, ast.Add) else '-'
        return f"({_arith(e.left, env, what)} {op} " \
               f"{_arith(e.right, env, what)})"
    src = ast.unparse(e)
    if src in env:
        return env[src]
    try:
        return _z(_int(e))
    except Bad:
        raise Bad(f"{what}: cannot translate `{src}`") from None


def logline(tree):
    txt = ""
    # LogLine.__init__: which argument goes into which attribute
    f = _fields(_findq(tree, 'LogLine.__init__'), 'LogLine.__init__')
    txt += _coq_pairs('logline_init_fields', f)
    # the properties start_lf / end_lf read those attributes back
    for prop, name in (('LogLine.start_lf', 'logline_start_lf_attr'),
                       ('LogLine.end_lf', 'logline_end_lf_attr')):
        r = ast.unparse(_ret_expr(_findq(tree, prop), prop))
        if not r.startswith('self.'):
            raise Bad(f"{prop}: returns `{r}`")
        txt += f'Definition {name} : string := "{r[5:]}"%string.\n'
    # LogLine.__len__
    e = _ret_expr(_findq(tree, 'LogLine.__len__'), 'LogLine.__len__')
    g = _arith(e, {'self.end_offset': 'end_offset',
                   'self.start_offset': 'start_offset'}, 'LogLine.__len__')
    txt += ("Definition logline_len (end_offset start_offset : Z) : Z :=\n"
            f"  {g}.\n")
    # LogLine._read_line: seek(start_offset); read(max_len) inside a
    # SavedFilePosition block (the position is restored afterwards)
    fn = _findq(tree, 'LogLine._read_line')
    b = _stmts(fn)
    if not (len(b) == 1 and isinstance(b[0], ast.With) and
            len(b[0].items) == 1 and
            ast.unparse(b[0].items[0].context_expr) ==
            'SavedFilePosition(self._file)' and
            b[0].items[0].optional_vars is not None):
        raise Bad("LogLine._read_line: `with SavedFilePosition(self._file) "
                  "as f:` expected")
    var = ast.unparse(b[0].items[0].optional_vars)
    inner = _nolog(b[0].body)
    seeks = [n for n in inner if isinstance(n, ast.Expr) and
             isinstance(n.value, ast.Call) and
             ast.unparse(n.value.func) == var + '.seek']
    reads = [n for n in ast.walk(b[0]) if isinstance(n, ast.Call) and
             ast.unparse(n.func) == var + '.read']
    rets = [n for n in ast.walk(b[0]) if isinstance(n, ast.Return)]
    if not (len(seeks) == 1 and len(reads) == 1 and len(rets) == 1 and
            len(seeks[0].value.args) == 1 and len(reads[0].args) == 1 and
            inner.index(seeks[0]) == 0):
        raise Bad("LogLine._read_line: one seek, then one read, one return")
    ret = ast.unparse(rets[0].value)
    assigned = [ast.unparse(n.targets[0]) for n in inner
                if isinstance(n, ast.Assign) and n.value is reads[0]]
    if not (rets[0].value is reads[0] or ret in assigned):
        raise Bad("LogLine._read_line: must return what was read")
    env = {'self.start_offset': 'start_offset', 'max_len': 'max_len'}
    txt += ("Definition read_line_window (start_offset max_len : Z) : Z * Z :=\n"
            f"  ({_arith(seeks[0].value.args[0], env, '_read_line seek')}, "
            f"{_arith(reads[0].args[0], env, '_read_line read')}).\n")
    # LogLine.date: how many bytes it asks _read_line for
    fn = _findq(tree, 'LogLine.date')
    calls = _calls(fn, 'self._read_line')
    if len(calls) != 1 or calls[0].keywords or len(calls[0].args) != 1:
        raise Bad("LogLine.date: one self._read_line(n) call expected")
    arg = calls[0].args[0]
    if isinstance(arg, ast.Name):        # a local: its single definition
        defs = [n for n in ast.walk(fn) if isinstance(n, ast.Assign) and
                ast.unparse(n.targets[0]) == arg.id]
        if len(defs) != 1:
            raise Bad("LogLine.date: read length local")
        arg = defs[0].value

    def rdlen(e):
        if isinstance(e, ast.Call) and ast.unparse(e.func) in ('min', 'max') \
                and len(e.args) == 2 and not e.keywords:
            fn_ = 'Z.min' if ast.unparse(e.func) == 'min' else 'Z.max'
            return f"({fn_} {rdlen(e.args[0])} {rdlen(e.args[1])})"
        return _arith(e, {'self.MAX_DATETIME_READ_BYTES': 'W',
                          'self.end_offset': 'end_offset',
                          'self.start_offset': 'start_offset'},
                      'LogLine.date read length')
    txt += ("Definition logline_date_read_len (W end_offset start_offset : Z)"
            f" : Z :=\n  {rdlen(arg)}.\n")
    # LogLine.text: _read_line(max_len=len(self))
    e = _ret_expr(_findq(tree, 'LogLine.text'), 'LogLine.text')
    if ast.unparse(e) not in ('self._read_line(max_len=len(self))',
                              'self._read_line(len(self))'):
        raise Bad(f"LogLine.text: `{ast.unparse(e)}`")
    txt += "Definition logline_text_read_len (len_self : Z) : Z := len_self.\n"
    return txt, f


def small_classes(tree):
    txt = ""
    # SearchState.__init__ and its two properties
    f = _fields(_findq(tree, 'SearchState.__init__'), 'SearchState.__init__')
    txt += _coq_pairs('search_state_init_fields', f)
    for prop, name in (('SearchState.status', 'search_state_status_attr'),
                       ('SearchState.offset', 'search_state_offset_attr')):
        r = ast.unparse(_ret_expr(_findq(tree, prop), prop))
        if not r.startswith('self.'):
            raise Bad(f"{prop}: returns `{r}`")
        txt += f'Definition {name} : string := "{r[5:]}"%string.\n'
    # SavedFilePosition: remembers tell() and seeks back to it on exit
    f = _fields(_findq(tree, 'SavedFilePosition.__init__'),
                'SavedFilePosition.__init__')
    if sorted(f) != [('file', 'file'), ('original_position', 'file.tell()')]:
        raise Bad(f"SavedFilePosition.__init__: {f}")
    e = _ret_expr(_findq(tree, 'SavedFilePosition.__enter__'),
                  'SavedFilePosition.__enter__')
    if ast.unparse(e) != 'self.file':
        raise Bad("SavedFilePosition.__enter__ must return self.file")
    b = _stmts(_findq(tree, 'SavedFilePosition.__exit__'))
    if not (len(b) == 1 and isinstance(b[0], ast.Expr) and
            isinstance(b[0].value, ast.Call) and
            ast.unparse(b[0].value.func) == 'self.file.seek' and
            len(b[0].value.args) == 1 and not b[0].value.keywords):
        raise Bad("SavedFilePosition.__exit__: a single self.file.seek(x)")
    g = _arith(b[0].value.args[0], {'self.original_position': 'tell_at_entry'},
               'SavedFilePosition.__exit__')
    txt += ("Definition saved_position_after_exit (tell_at_entry : Z) : Z :=\n"
            f"  {g}.\n")
    # LogFileDateSinceSeeker.__init__ / __len__
    fn = _findq(tree, 'LogFileDateSinceSeeker.__init__')
    f = dict(_fields(fn, 'LogFileDateSinceSeeker.__init__'))
    if f.get('line_info') != 'None' or f.get('found_any_date') not in (
            'True', 'False'):
        raise Bad(f"LogFileDateSinceSeeker.__init__: {f}")
    withs = [n for n in _stmts(fn) if isinstance(n, ast.With)]
    if not (len(withs) == 1 and
            ast.unparse(withs[0].items[0].context_expr) ==
            'SavedFilePosition(self.file)'):
        raise Bad("LogFileDateSinceSeeker.__init__: length is measured "
                  "inside SavedFilePosition(self.file)")
    wb = _nolog(withs[0].body)
    var = ast.unparse(withs[0].items[0].optional_vars)
    if not (len(wb) == 1 and isinstance(wb[0], ast.Assign) and
            ast.unparse(wb[0].targets[0]) == 'self.length' and
            isinstance(wb[0].value, ast.Call) and
            ast.unparse(wb[0].value.func) == var + '.seek' and
            len(wb[0].value.args) == 2):
        raise Bad("LogFileDateSinceSeeker.__init__: self.length = f.seek(..)")
    a0, a1 = (_int(x) for x in wb[0].value.args)
    txt += (f"Definition seeker_init_found_any_date : bool := "
            f"{f['found_any_date'].lower()}.\n"
            "Definition seeker_init_line_info_is_none : bool := true.\n"
            f"Definition seeker_length_seek : Z * Z := ({_z(a0)}, {_z(a1)}).\n")
    e = _ret_expr(_findq(tree, 'LogFileDateSinceSeeker.__len__'),
                  'LogFileDateSinceSeeker.__len__')
    if ast.unparse(e) != 'self.length':
        raise Bad("LogFileDateSinceSeeker.__len__ must return self.length")
    txt += "Definition seeker_len (length : Z) : Z := length.\n"
    return txt, None


def generate(repo):
    with open(os.path.join(repo, 'searchkit', 'constraints.py'),
              encoding='utf-8') as f:
        tree = ast.parse(f.read())
    MODULE[0] = tree
    text = ("(* GENERATED from the repository working tree by "
            "translator/plugins/seek.py - do not edit *)\n"
            "From Coq Require Import String ZArith List Bool.\n"
            "Import ListNotations.\nOpen Scope Z_scope.\n\n")
    info, failed = {}, []
    jobs = [('apply_seek_sites',
             lambda: seek_sites(_find(tree, 'SearchConstraintSearchSince',
                                      'apply_to_file'))),
            ('getitem',
             lambda: getitem(_find(tree, 'LogFileDateSinceSeeker',
                                   '__getitem__'))),
            ('run', lambda: (run(_find(tree, 'LogFileDateSinceSeeker',
                                       'run')), None)),
            ('logline', lambda: logline(tree)),
            ('small_classes', lambda: small_classes(tree))]
    for name, job in jobs:
        try:
            txt, extra = job()
            text += txt + "\n"
            info[name] = extra
        except Bad as exc:
            failed.append((f"seek:{name}", str(exc)))
    return text, info, failed
