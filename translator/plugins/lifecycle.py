"""T1 plugin for C10 (Gen/XLifecycle.v).

  tm_stop_test_negated   ThreadManager.stop() branches on its `running`
                         flag; the flat skeleton (Gen/Skeleton.v sk_tm_stop)
                         records THAT the flag is tested, not the polarity.
                         This is the polarity: false for `if self.running:`,
                         true for `if not self.running:` (the early-return
                         spelling).  Props/C10.v executes the skeleton with
                         the test's value `xorb negated running`.

  fse_raise_sites        for every `raise FileSearchException(...)` in
                         task.py / search.py the kind of each argument:
                         "str" (text built in place), "exc" (a caught
                         exception object), "other".  Whatever is stored in
                         the exception is pickled when a worker hands its
                         failure back.

Only the FIRST `if` of the body (docstrings / log calls skipped) is looked
at and its test must be exactly the flag or its negation; anything else
fails closed.
"""
import ast
import os


class Bad(Exception):
    pass


def _strip(body):
    out = []
    for st in body:
        if isinstance(st, ast.Expr) and isinstance(st.value, ast.Constant) \
                and isinstance(st.value.value, str):
            continue
        if isinstance(st, ast.Expr) and isinstance(st.value, ast.Call) and \
                ast.unparse(st.value.func).startswith('log.'):
            continue
        out.append(st)
    return out


def _find(tree, cls, meth):
    for n in tree.body:
        if isinstance(n, ast.ClassDef) and n.name == cls:
            for m in n.body:
                if isinstance(m, ast.FunctionDef) and m.name == meth:
                    return m
    raise Bad(f"{cls}.{meth} not found")


def _polarity(test, flag):
    """ True if `test` is `not <flag>`, False if it is `<flag>` (bool() and
    redundant parentheses / `== True` style spellings are not accepted) """
    if ast.unparse(test) == flag:
        return False
    if isinstance(test, ast.UnaryOp) and isinstance(test.op, ast.Not) and \
            ast.unparse(test.operand) == flag:
        return True
    raise Bad(f"test `{ast.unparse(test)}` is neither `{flag}` nor "
              f"`not {flag}`")


def generate(repo):
    text = ["(* GENERATED from the repository working tree by "
            "translator/plugins/lifecycle.py - do not edit *)\n"]
    info, failed = {}, []
    try:
        with open(os.path.join(repo, 'searchkit', 'search.py'),
                  encoding='utf-8') as f:
            tree = ast.parse(f.read())
        fn = _find(tree, 'ThreadManager', 'stop')
        ifs = [s for s in _strip(fn.body) if isinstance(s, ast.If)]
        if not ifs:
            raise Bad("ThreadManager.stop: no `if`")
        first = _strip(fn.body)[0]
        if first is not ifs[0]:
            raise Bad("ThreadManager.stop: does not start with the test of "
                      "the running flag")
        neg = _polarity(ifs[0].test, 'self.running')
        text.append(f"(* ThreadManager.stop: if {ast.unparse(ifs[0].test)}: "
                    f"*)\nDefinition tm_stop_test_negated : bool := "
                    f"{'true' if neg else 'false'}.\n")
        info['tm_stop_test'] = ast.unparse(ifs[0].test)
    except (Bad, OSError, SyntaxError) as exc:
        failed.append(('tm_stop_test_negated', f"{type(exc).__name__}: {exc}"))
    # ---- what crosses the process boundary inside a FileSearchException:
    # the kinds of the arguments at every `raise FileSearchException(...)`
    try:
        sites = []
        for rel in ('task.py', 'search.py'):
            with open(os.path.join(repo, 'searchkit', rel),
                      encoding='utf-8') as f:
                t = ast.parse(f.read())
            for fn in [n for n in ast.walk(t)
                       if isinstance(n, ast.FunctionDef)]:
                for r in [n for n in ast.walk(fn)
                          if isinstance(n, ast.Raise)]:
                    e = r.exc
                    if not (isinstance(e, ast.Call) and
                            ast.unparse(e.func) == 'FileSearchException'):
                        continue
                    kinds = [_kind(a, fn, r) for a in e.args] + \
                            [_kind(k.value, fn, r) for k in e.keywords]
                    sites.append((f"{rel}:{fn.name}", kinds))
        if not sites:
            raise Bad("no `raise FileSearchException(...)` found")
        body = "; ".join(
            '("%s", [%s])' % (n, "; ".join('"%s"' % k for k in ks))
            for n, ks in sites)
        text.append("From Coq Require Import String List.\n"
                    "Import ListNotations.\nLocal Open Scope string_scope.\n"
                    "(* argument kinds at every raise of "
                    "FileSearchException: \"str\" = text built in place, "
                    "\"exc\" = a caught exception object, \"other\" *)\n"
                    "Definition fse_raise_sites : list (string * list "
                    f"string) :=\n  [{body}].\n")
        info['fse_raise_sites'] = sites
    except (Bad, OSError, SyntaxError) as exc:
        failed.append(('fse_raise_sites', f"{type(exc).__name__}: {exc}"))
    return "\n".join(text), info, failed


def _is_text(node, fn, depth=0):
    """ an expression that can only be a str: literals, f-strings, their
    concatenation / %-formatting, or a local assigned once from such """
    if isinstance(node, ast.Constant):
        return isinstance(node.value, str)
    if isinstance(node, ast.JoinedStr):
        return True
    if isinstance(node, ast.BinOp) and isinstance(node.op, (ast.Add,
                                                              ast.Mod)):
        return _is_text(node.left, fn, depth)
    if isinstance(node, ast.Call) and ast.unparse(node.func) in ('str',
                                                                   'repr'):
        return True
    if isinstance(node, ast.Call) and isinstance(node.func, ast.Attribute) \
            and node.func.attr == 'format':
        return _is_text(node.func.value, fn, depth)
    if isinstance(node, ast.Name) and depth < 3:
        asg = [a for a in ast.walk(fn) if isinstance(a, ast.Assign)
               and any(isinstance(t, ast.Name) and t.id == node.id
                       for t in a.targets)]
        return bool(asg) and all(_is_text(a.value, fn, depth + 1)
                                 for a in asg)
    return False


def _kind(node, fn, site):
    if _is_text(node, fn):
        return 'str'
    if isinstance(node, ast.Name):
        for h in [n for n in ast.walk(fn)
                  if isinstance(n, ast.ExceptHandler)]:
            if h.name == node.id and any(x is site for x in ast.walk(h)):
                return 'exc'
    return 'other'
