"""T1 plugin for C10 (Gen/XLifecycle.v).

  tm_stop_test_negated   ThreadManager.stop() branches on its `running`
                         flag; the flat skeleton (Gen/Skeleton.v sk_tm_stop)
                         records THAT the flag is tested, not the polarity.
                         This is the polarity: false for `if self.running:`,
                         true for `if not self.running:` (the early-return
                         spelling).  Props/C10.v executes the skeleton with
                         the test's value `xorb negated running`.

Only the FIRST `if` of the body (docstrings / log calls skipped) is looked
at and its test must be exactly the flag or its negation; anything else
fails closed.
"""
import ast
import os


class Bad(Exception):
    pass


def _strip(body):
    out = []
    for st in body:
        if isinstance(st, ast.Expr) and isinstance(st.value, ast.Constant) \
                and isinstance(st.value.value, str):
            continue
        if isinstance(st, ast.Expr) and isinstance(st.value, ast.Call) and \
                ast.unparse(st.value.func).startswith('log.'):
            continue
        out.append(st)
    return out


def _find(tree, cls, meth):
    for n in tree.body:
        if isinstance(n, ast.ClassDef) and n.name == cls:
            for m in n.body:
                if isinstance(m, ast.FunctionDef) and m.name == meth:
                    return m
    raise Bad(f"{cls}.{meth} not found")


def _polarity(test, flag):
    """ True if `test` is `not <flag>`, False if it is `<flag>` (bool() and
    redundant parentheses / `== True` style spellings are not accepted) """
    if ast.unparse(test) == flag:
        return False
    if isinstance(test, ast.UnaryOp) and isinstance(test.op, ast.Not) and \
            ast.unparse(test.operand) == flag:
        return True
    raise Bad(f"test `{ast.unparse(test)}` is neither `{flag}` nor "
              f"`not {flag}`")


def generate(repo):
    text = ["(* GENERATED from the repository working tree by "
            "translator/plugins/lifecycle.py - do not edit *)\n"]
    info, failed = {}, []
    try:
        with open(os.path.join(repo, 'searchkit', 'search.py'),
                  encoding='utf-8') as f:
            tree = ast.parse(f.read())
        fn = _find(tree, 'ThreadManager', 'stop')
        ifs = [s for s in _strip(fn.body) if isinstance(s, ast.If)]
        if not ifs:
            raise Bad("ThreadManager.stop: no `if`")
        first = _strip(fn.body)[0]
        if first is not ifs[0]:
            raise Bad("ThreadManager.stop: does not start with the test of "
                      "the running flag")
        neg = _polarity(ifs[0].test, 'self.running')
        text.append(f"(* ThreadManager.stop: if {ast.unparse(ifs[0].test)}: "
                    f"*)\nDefinition tm_stop_test_negated : bool := "
                    f"{'true' if neg else 'false'}.\n")
        info['tm_stop_test'] = ast.unparse(ifs[0].test)
    except (Bad, OSError, SyntaxError) as exc:
        failed.append(('tm_stop_test_negated', f"{type(exc).__name__}: {exc}"))
    return "\n".join(text), info, failed
