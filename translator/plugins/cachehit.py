"""T1 plugin for C08: the cache-hit branch of
SearchConstraintSearchSince.apply_to_file (searchkit/constraints.py), as
Gallina definitions in Gen/XCachehit.v:

  cache_hit_seek_target   what the hit branch seeks to, as a function of
                          (cached offset, orig_offset, new_offset, length)
  cache_hit_returns       what it returns
  cache_hit_guard         the seek happens iff `destructive` and the cached
                          offset is not None

The branch may sit in apply_to_file itself or in a private helper of the
class that the branch returns the call of (its body is then read instead).
Fail closed on any other shape.
"""
import ast
import os


class Bad(Exception):
    pass


CACHED = 'self._results[fd.name]'


def _nolog(body):
    out = []
    for st in body:
        if isinstance(st, ast.Expr) and isinstance(st.value, ast.Constant) \
                and isinstance(st.value.value, str):
            continue
        if isinstance(st, ast.Expr) and isinstance(st.value, ast.Call) and \
                ast.unparse(st.value.func).startswith('log.'):
            continue
        out.append(st)
    return out


def _target(node, local):
    t = ast.unparse(node)
    if t == CACHED or t in local:
        return 'cached'
    if t in ('orig_offset',):
        return 'orig'
    if t in ('new_offset', 'newpos'):
        return 'newoff'
    raise Bad(f"cache-hit branch uses `{t}` where the cached offset is "
              "expected")


def hit_branch(cls):
    fns = {m.name: m for m in cls.body if isinstance(m, ast.FunctionDef)}
    if 'apply_to_file' not in fns:
        raise Bad("apply_to_file not found")
    ifs = [st for st in fns['apply_to_file'].body if isinstance(st, ast.If)
           and ast.unparse(st.test) == 'fd.name in self._results']
    if len(ifs) != 1 or ifs[0].orelse:
        raise Bad("expected one `if fd.name in self._results:` without else")
    body = _nolog(ifs[0].body)
    if len(body) == 1 and isinstance(body[0], ast.Return) and \
            isinstance(body[0].value, ast.Call) and \
            isinstance(body[0].value.func, ast.Attribute) and \
            ast.unparse(body[0].value.func.value) == 'self' and \
            body[0].value.func.attr in fns and \
            body[0].value.func.attr.startswith('_'):
        call = body[0].value
        helper = fns[call.func.attr]
        params = [a.arg for a in helper.args.args[1:]]
        args = [ast.unparse(a) for a in call.args]
        if params != args or call.keywords or helper.decorator_list:
            raise Bad("helper of the cache-hit branch must be called with "
                      "its own parameter names")
        body = _nolog(helper.body)
    local = set()
    # optional `offset = self._results[fd.name]`
    while body and isinstance(body[0], ast.Assign) and \
            ast.unparse(body[0].value) == CACHED and \
            isinstance(body[0].targets[0], ast.Name):
        local.add(body[0].targets[0].id)
        body = body[1:]
    if len(body) != 2 or not isinstance(body[0], ast.If) or \
            body[0].orelse or not isinstance(body[1], ast.Return):
        raise Bad("cache-hit branch: expected `if <guard>: fd.seek(..)` "
                  "then `return ..`")
    guard, ret = body
    seeks = _nolog(guard.body)
    if len(seeks) != 1 or not isinstance(seeks[0], ast.Expr) or \
            not isinstance(seeks[0].value, ast.Call) or \
            ast.unparse(seeks[0].value.func) != 'fd.seek' or \
            len(seeks[0].value.args) != 1 or seeks[0].value.keywords:
        raise Bad("cache-hit branch: the guarded statement must be one "
                  "fd.seek(<offset>)")
    tgt = _target(seeks[0].value.args[0], local)
    rv = _target(ret.value, local)
    t = guard.test
    ok = isinstance(t, ast.BoolOp) and isinstance(t.op, ast.And) and \
        len(t.values) == 2
    if ok:
        txt = sorted(ast.unparse(v) for v in t.values)
        nn = {f"{c} is not None" for c in local | {CACHED}}
        ok = 'destructive' in txt and any(x in nn for x in txt)
    if not ok:
        raise Bad("cache-hit guard must be `destructive and <cached> is not "
                  f"None`: {ast.unparse(t)}")
    src = ast.unparse(ifs[0]).replace('(*', '( *').replace('*)', '* )')
    return ("(* " + src.replace('\n', '\n   ') + " *)\n"
            "Definition cache_hit_seek_target (cached orig newoff len : Z) "
            f": Z := {tgt}.\n"
            "Definition cache_hit_returns (cached orig newoff len : Z) "
            f": Z := {rv}.\n"
            "Definition cache_hit_guard (destructive cached_is_some : bool) "
            ": bool := destructive && cached_is_some.\n")


def generate(repo):
    with open(os.path.join(repo, 'searchkit', 'constraints.py'),
              encoding='utf-8') as f:
        tree = ast.parse(f.read())
    text = ("(* GENERATED from the repository working tree by "
            "translator/plugins/cachehit.py - do not edit *)\n"
            "From Coq Require Import ZArith Bool.\nOpen Scope Z_scope.\n\n")
    failed = []
    try:
        cls = [n for n in tree.body if isinstance(n, ast.ClassDef)
               and n.name == 'SearchConstraintSearchSince']
        if len(cls) != 1:
            raise Bad("class SearchConstraintSearchSince not found")
        text += hit_branch(cls[0])
    except Bad as exc:
        failed.append(("cachehit:hit_branch", str(exc)))
    return text, {}, failed
