"""T1 plugin for C01 / C07: source expressions and local-variable updates of
searchkit/task.py, result.py and search.py that the skeleton trees do not
show (they are not events), as Gallina definitions in Gen/XTask.v:

  _simple_search          simple_flush_test       len(buffer) >= NUM_BUFFERED
  _flush_results_buffer   flush_limit_init        limit = QueueTransitBuffer.MAX
                          flush_slice_upper       results_buffer[:limit]
                          flush_pop_count         range(limit)
                          flush_pop_index         results_buffer.pop(0)
                          flush_on_index_error    limit -= 1
  _run_search             enumerate_start         enumerate(fd, start=1)
  store_result            store_range_first/stop  range(1, num_groups + 1)
                          store_whole_index       _save_part(0, group(0))
  apply_single            as_init, as_on_pass, as_on_undecided,
                          as_ret_empty, as_ret_fail, as_ret_end

Every extractor checks the exact statement shape it relies on and fails
closed (the definition is omitted and the item reported) otherwise.
"""
import ast
import os

from pyexpr import Tr, Untranslatable, find_def


def _parse(repo, rel, cache):
    if rel not in cache:
        with open(os.path.join(repo, rel), encoding='utf-8') as f:
            cache[rel] = ast.parse(f.read())
    return cache[rel]


def _body(fn):
    """ statements of a function without docstring and log.* calls """
    out = []
    for n in fn.body:
        if isinstance(n, ast.Expr) and isinstance(n.value, ast.Constant):
            continue
        if isinstance(n, ast.Expr) and isinstance(n.value, ast.Call) and \
                ast.unparse(n.value.func).startswith('log.'):
            continue
        out.append(n)
    return out


def _strip_logs(stmts):
    return [n for n in stmts
            if not (isinstance(n, ast.Expr) and isinstance(n.value, ast.Call)
                    and ast.unparse(n.value.func).startswith('log.'))]


def _one(nodes, what):
    if len(nodes) != 1:
        raise Untranslatable(f"expected exactly one {what}, found "
                             f"{len(nodes)}")
    return nodes[0]


def simple_search(tree):
    try:
        fn = find_def(tree, 'SearchTask._simple_search')
    except Untranslatable:
        # the single-caller method may have been inlined into the line loop
        fn = find_def(tree, 'SearchTask._run_search')

    def flush_ifs(f):
        return [n for n in ast.walk(f) if isinstance(n, ast.If)
                and len(n.body) == 1 and isinstance(n.body[0], ast.Expr)
                and ast.unparse(n.body[0].value) ==
                'self._flush_results_buffer()']
    ifs = flush_ifs(fn)
    if not ifs:
        # the append-and-flush block may live in a private helper of the
        # class that _simple_search calls (one level)
        for n in ast.walk(fn):
            if isinstance(n, ast.Call) and \
                    isinstance(n.func, ast.Attribute) and \
                    ast.unparse(n.func.value) == 'self' and \
                    n.func.attr.startswith('_') and \
                    n.func.attr != '_flush_results_buffer':
                try:
                    ifs += flush_ifs(find_def(tree,
                                              'SearchTask.' + n.func.attr))
                except Untranslatable:
                    pass
    test = _one(ifs, "`if ...: self._flush_results_buffer()` in "
                "_simple_search").test
    tr = Tr(subst={'len(self.results_buffer)':
                   ('buffer_len', 'Z', ['buffer_len'])},
            names={'NUM_BUFFERED_RESULTS': 'num_buffered'})
    txt = tr.cond(test)
    return ("(* " + ast.unparse(test) + " *)\n"
            "Definition simple_flush_test (buffer_len num_buffered : Z) : "
            f"bool :=\n  {txt}.\n")


def flush(tree):
    fn = find_def(tree, 'SearchTask._flush_results_buffer')
    body = _body(fn)
    if len(body) != 2 or not isinstance(body[0], ast.Assign) or \
            not isinstance(body[1], ast.While):
        raise Untranslatable("_flush_results_buffer: expected `limit = ...` "
                             "followed by one while loop")
    init, loop = body
    if len(init.targets) != 1 or not isinstance(init.targets[0], ast.Name):
        raise Untranslatable("_flush_results_buffer: first statement must "
                             "assign the batch-size local")
    lim = init.targets[0].id            # `limit`, whatever it is called
    tr = Tr(attrs={'QueueTransitBuffer.MAX': 'transit_max'})
    t_init, ty = tr.expr(init.value)
    if ty != 'Z':
        raise Untranslatable("limit is not an integer")
    if ast.unparse(loop.test) != 'self.results_buffer' or loop.orelse:
        raise Untranslatable("_flush_results_buffer: the loop test must be "
                             "`self.results_buffer`")
    lbody = _strip_logs(loop.body)
    if len(lbody) != 1 or not isinstance(lbody[0], ast.Try):
        raise Untranslatable("_flush_results_buffer: loop body must be one "
                             "try statement")
    tr_ = lbody[0]
    if tr_.orelse or tr_.finalbody or len(tr_.handlers) != 1 or \
            ast.unparse(tr_.handlers[0].type) != 'IndexError':
        raise Untranslatable("_flush_results_buffer: expected try/except "
                             "IndexError only")
    names = {lim: 'limit'}
    slices = [n for n in ast.walk(tr_) if isinstance(n, ast.Subscript)
              and ast.unparse(n.value) == 'self.results_buffer']
    sl = _one(slices, "subscript of self.results_buffer").slice
    if not isinstance(sl, ast.Slice) or sl.lower is not None or \
            sl.step is not None or sl.upper is None:
        raise Untranslatable("_flush_results_buffer: the batch must be "
                             "`self.results_buffer[:<expr>]`")
    t_slice, _ = Tr(names=names).expr(sl.upper)
    fors = [n for n in tr_.body if isinstance(n, ast.For)]
    loop2 = _one(fors, "for loop in the try body")
    it = loop2.iter
    if not (isinstance(it, ast.Call) and ast.unparse(it.func) == 'range'
            and len(it.args) == 1 and not it.keywords) or loop2.orelse:
        raise Untranslatable("_flush_results_buffer: expected "
                             "`for _ in range(<expr>)`")
    t_count, _ = Tr(names=names).expr(it.args[0])
    pbody = _strip_logs(loop2.body)
    if len(pbody) != 1 or not isinstance(pbody[0], ast.Expr) or \
            not isinstance(pbody[0].value, ast.Call) or \
            ast.unparse(pbody[0].value.func) != 'self.results_buffer.pop' \
            or len(pbody[0].value.args) != 1:
        raise Untranslatable("_flush_results_buffer: the inner loop must be "
                             "`self.results_buffer.pop(<expr>)`")
    t_pop, _ = Tr(names=names).expr(pbody[0].value.args[0])
    hbody = _strip_logs(tr_.handlers[0].body)
    if len(hbody) != 1 or not isinstance(hbody[0], ast.AugAssign) or \
            ast.unparse(hbody[0].target) != lim:
        raise Untranslatable("_flush_results_buffer: the IndexError handler "
                             "must be one `limit <op>= <expr>`")
    t_h, _ = Tr(names=names).expr(
        ast.BinOp(left=ast.Name(id=lim, ctx=ast.Load()),
                  op=hbody[0].op, right=hbody[0].value))
    return (
        f"(* {ast.unparse(init)} *)\n"
        f"Definition flush_limit_init (transit_max : Z) : Z := {t_init}.\n"
        f"(* self.results_buffer[:{ast.unparse(sl.upper)}] *)\n"
        f"Definition flush_slice_upper (limit : Z) : Z := {t_slice}.\n"
        f"(* for _ in {ast.unparse(it)} *)\n"
        f"Definition flush_pop_count (limit : Z) : Z := {t_count}.\n"
        f"(* {ast.unparse(pbody[0])} *)\n"
        f"Definition flush_pop_index (limit : Z) : Z := {t_pop}.\n"
        f"(* except IndexError: {ast.unparse(hbody[0])} *)\n"
        f"Definition flush_on_index_error (limit : Z) : Z := {t_h}.\n")


def run_search(tree):
    fn = find_def(tree, 'SearchTask._run_search')
    fors = [n for n in ast.walk(fn) if isinstance(n, ast.For)
            and isinstance(n.iter, ast.Call)
            and ast.unparse(n.iter.func) == 'enumerate']
    it = _one(fors, "`for ... in enumerate(...)` in _run_search").iter
    if len(it.args) != 1 or ast.unparse(it.args[0]) != 'fd' or \
            [k.arg for k in it.keywords] != ['start']:
        raise Untranslatable("_run_search: expected enumerate(fd, start=..)")
    t, ty = Tr().expr(it.keywords[0].value)
    if ty != 'Z':
        raise Untranslatable("enumerate start is not an integer")
    return (f"(* {ast.unparse(it)} *)\n"
            f"Definition enumerate_start : Z := {t}.\n")


def store_result(tree):
    fn = find_def(tree, 'SearchResult.store_result')
    body = _body(fn)
    if len(body) < 2 or not isinstance(body[1], ast.If) or \
            ast.unparse(body[0]) != 'num_groups = len(result.groups())':
        raise Untranslatable("store_result: expected `num_groups = "
                             "len(result.groups())` then an `if` on it")
    test = body[1].test
    thn = _strip_logs(body[1].body)
    els = _strip_logs(body[1].orelse)
    rest = _strip_logs(body[2:])
    if rest:
        # guard clause: `if t: A; return` followed by B  ==  if t: A else: B
        if els or not thn or not isinstance(thn[-1], ast.Return) or \
                thn[-1].value is not None:
            raise Untranslatable("store_result: statements after the `if` "
                                 "need a guard clause ending in `return`")
        thn, els = thn[:-1], rest
    if any(isinstance(n, ast.Return) for br in (thn, els) for n in br):
        raise Untranslatable("store_result: unexpected return")
    names = {'num_groups': 'num_groups'}
    cond = Tr(names=names).cond(test)      # condition of the FIRST branch

    def is_loop(br):
        return len(br) == 1 and isinstance(br[0], ast.For)
    if is_loop(thn) and not is_loop(els):
        loop, whole, when = thn[0], els, cond
    elif is_loop(els) and not is_loop(thn):
        loop, whole, when = els[0], thn, f"(negb {cond})"
    else:
        raise Untranslatable("store_result: one branch must be the loop "
                             "over the groups, the other the whole match")
    if not (isinstance(loop.iter, ast.Call)
            and ast.unparse(loop.iter.func) == 'range'
            and len(loop.iter.args) == 2 and not loop.orelse
            and isinstance(loop.target, ast.Name)):
        raise Untranslatable("store_result: expected `for i in range(a, b)`")
    v = loop.target.id
    if [ast.unparse(x) for x in _strip_logs(loop.body)] != \
            [f'self._save_part({v}, result.group({v}))']:
        raise Untranslatable("store_result: expected `for i in range(a, b): "
                             "self._save_part(i, result.group(i))`")
    t_first, _ = Tr(names=names).expr(loop.iter.args[0])
    t_stop, _ = Tr(names=names).expr(loop.iter.args[1])
    if len(whole) != 1 or not isinstance(whole[0], ast.Expr) or \
            not isinstance(whole[0].value, ast.Call) or \
            ast.unparse(whole[0].value.func) != 'self._save_part' or \
            len(whole[0].value.args) != 2:
        raise Untranslatable("store_result: expected the other branch to be "
                             "self._save_part(k, result.group(k))")
    a0, a1 = whole[0].value.args
    if ast.unparse(a1) != f"result.group({ast.unparse(a0)})":
        raise Untranslatable("store_result: the whole-match branch must "
                             "save result.group(k) as part k")
    t_whole, _ = Tr(names=names).expr(a0)
    return (
        f"(* for i in {ast.unparse(loop.iter)} *)\n"
        f"Definition store_range_first (num_groups : Z) : Z := {t_first}.\n"
        f"Definition store_range_stop (num_groups : Z) : Z := {t_stop}.\n"
        f"(* {ast.unparse(whole[0])} *)\n"
        f"Definition store_whole_index (num_groups : Z) : Z := {t_whole}.\n"
        f"(* the loop branch is taken when (source test: "
        f"{ast.unparse(test)}) *)\n"
        f"Definition store_loop_when (num_groups : Z) : bool := {when}.\n")


def apply_single(tree):
    fn = find_def(tree, 'SearchConstraintsManager.apply_single')
    body = [n for n in _body(fn)
            if not (isinstance(n, ast.Assign)
                    and ast.unparse(n.targets[0]) == 'Result')]
    if len(body) < 4 or not isinstance(body[0], ast.If) or \
            not isinstance(body[-2], ast.For) or \
            not isinstance(body[-1], ast.Return):
        raise Untranslatable("apply_single: expected `if ..: return`, "
                             "initialisations, one for loop, `return`")
    first, inits, loop, last = body[0], body[1:-2], body[-2], body[-1]

    def result_args(ret):
        v = ret.value
        if not (isinstance(v, ast.Call) and ast.unparse(v.func) == 'Result'
                and len(v.args) == 2 and not v.keywords):
            raise Untranslatable("apply_single: every return must be "
                                 "Result(a, b)")
        return v.args
    fin = result_args(last)
    if not all(isinstance(a, ast.Name) for a in fin) or \
            fin[0].id == fin[1].id:
        raise Untranslatable("apply_single: final return must be "
                             "Result(<name>, <name>)")
    v1, v2 = fin[0].id, fin[1].id

    def val(e):
        if isinstance(e, ast.Constant) and isinstance(e.value, bool):
            return 'true' if e.value else 'false'
        if isinstance(e, ast.Name) and e.id in (v1, v2):
            return e.id
        raise Untranslatable(f"apply_single: unsupported value "
                             f"{ast.unparse(e)}")

    def assigns(stmts, what):
        """ straight-line `name = value` updates of (v1, v2) """
        env = {v1: v1, v2: v2}
        for n in stmts:
            if not (isinstance(n, ast.Assign) and len(n.targets) == 1
                    and isinstance(n.targets[0], ast.Name)
                    and n.targets[0].id in (v1, v2)):
                raise Untranslatable(f"apply_single: unexpected statement "
                                     f"in {what}: {ast.unparse(n)}")
            v = val(n.value)
            env[n.targets[0].id] = env.get(v, v)
        return f"({env[v1]}, {env[v2]})"
    if ast.unparse(first.test) != 'not searchdef.constraints' or \
            first.orelse or len(first.body) != 1 or \
            not isinstance(first.body[0], ast.Return):
        raise Untranslatable("apply_single: expected `if not "
                             "searchdef.constraints: return Result(..)`")
    r0 = result_args(first.body[0])
    t_init = assigns(inits, "the initialisation")
    if v1 in t_init or v2 in t_init:
        raise Untranslatable("apply_single: both flags must be initialised "
                             "with constants")
    if ast.unparse(loop.iter) != 'searchdef.constraints.values()' or \
            loop.orelse:
        raise Untranslatable("apply_single: the loop must iterate over "
                             "searchdef.constraints.values()")
    lb = _strip_logs(loop.body)
    if len(lb) != 2 or not isinstance(lb[0], ast.Try) or \
            not isinstance(lb[1], ast.Return):
        raise Untranslatable("apply_single: loop body must be `try: ...` "
                             "followed by `return Result(..)`")
    tr_ = lb[0]
    if tr_.orelse or tr_.finalbody or len(tr_.handlers) != 1 or \
            ast.unparse(tr_.handlers[0].type) != 'CouldNotApplyConstraint':
        raise Untranslatable("apply_single: expected try / except "
                             "CouldNotApplyConstraint only")
    tb = _strip_logs(tr_.body)
    if len(tb) != 1 or not isinstance(tb[0], ast.If) or tb[0].orelse or \
            ast.unparse(tb[0].test) != f"{loop.target.id}.apply_to_line(line)":
        raise Untranslatable("apply_single: try body must be `if "
                             "c.apply_to_line(line): ...`")
    ib = _strip_logs(tb[0].body)
    hb = _strip_logs(tr_.handlers[0].body)
    if not ib or not isinstance(ib[-1], ast.Continue) or \
            not hb or not isinstance(hb[-1], ast.Continue):
        raise Untranslatable("apply_single: the pass branch and the handler "
                             "must end with `continue`")
    t_pass = assigns(ib[:-1], "the pass branch")
    t_und = assigns(hb[:-1], "the handler")
    rf = result_args(lb[1])
    hdr = f"let '({v1}, {v2}) := v in"
    return (
        f"(* {ast.unparse(first.body[0])} *)\n"
        f"Definition as_ret_empty : bool * bool := "
        f"({val(r0[0])}, {val(r0[1])}).\n"
        f"(* {'; '.join(ast.unparse(n) for n in inits)} *)\n"
        f"Definition as_init : bool * bool := {t_init}.\n"
        f"(* if c.apply_to_line(line): "
        f"{'; '.join(ast.unparse(n) for n in ib)} *)\n"
        f"Definition as_on_pass (v : bool * bool) : bool * bool :=\n"
        f"  {hdr} {t_pass}.\n"
        f"(* except CouldNotApplyConstraint: "
        f"{'; '.join(ast.unparse(n) for n in hb)} *)\n"
        f"Definition as_on_undecided (v : bool * bool) : bool * bool :=\n"
        f"  {hdr} {t_und}.\n"
        f"(* {ast.unparse(lb[1])} *)\n"
        f"Definition as_ret_fail (v : bool * bool) : bool * bool :=\n"
        f"  {hdr} ({val(rf[0])}, {val(rf[1])}).\n"
        f"(* {ast.unparse(last)} *)\n"
        f"Definition as_ret_end (v : bool * bool) : bool * bool :=\n"
        f"  {hdr} ({val(fin[0])}, {val(fin[1])}).\n")


def _is_compile_of(e, var):
    return isinstance(e, ast.Call) and ast.unparse(e.func) == 're.compile' \
        and len(e.args) == 1 and not e.keywords \
        and ast.unparse(e.args[0]) == var


def _patterns_branch(stmts):
    """ classify a branch of SearchDef.__init__'s pattern handling:
    'single'  self.patterns = [re.compile(pattern)]
    'many'    self.patterns = [re.compile(p) for p in pattern]      or
              self.patterns = []; for p in pattern:
                                      self.patterns.append(re.compile(p))
    (order of `pattern` preserved in both forms) """
    stmts = _strip_logs(stmts)
    if len(stmts) == 1 and isinstance(stmts[0], ast.Assign) and \
            ast.unparse(stmts[0].targets[0]) == 'self.patterns':
        v = stmts[0].value
        if isinstance(v, ast.List) and len(v.elts) == 1 and \
                _is_compile_of(v.elts[0], 'pattern'):
            return 'single'
        if isinstance(v, ast.ListComp) and len(v.generators) == 1:
            g = v.generators[0]
            if not g.ifs and not g.is_async and \
                    ast.unparse(g.iter) == 'pattern' and \
                    isinstance(g.target, ast.Name) and \
                    _is_compile_of(v.elt, g.target.id):
                return 'many'
    if len(stmts) == 2 and isinstance(stmts[0], ast.Assign) and \
            ast.unparse(stmts[0]) == 'self.patterns = []' and \
            isinstance(stmts[1], ast.For) and not stmts[1].orelse and \
            ast.unparse(stmts[1].iter) == 'pattern' and \
            isinstance(stmts[1].target, ast.Name):
        body = _strip_logs(stmts[1].body)
        if len(body) == 1 and isinstance(body[0], ast.Expr) and \
                isinstance(body[0].value, ast.Call) and \
                ast.unparse(body[0].value.func) == 'self.patterns.append' \
                and len(body[0].value.args) == 1 and \
                _is_compile_of(body[0].value.args[0], stmts[1].target.id):
            return 'many'
    raise Untranslatable("SearchDef.__init__: unrecognised way of building "
                         "self.patterns: " +
                         '; '.join(ast.unparse(n) for n in stmts)[:200])


def searchdef_run(tree):
    """ the test guarding the hint pre-check of SearchDef.run, and the test
    that leaves the pattern loop """
    fn = find_def(tree, 'SearchDef.run')
    body = _body(fn)
    gates = [n for n in body if isinstance(n, ast.If)
             and 'self.hint' in ast.unparse(n.test)]
    gate = _one(gates, "`if ... self.hint ...` in SearchDef.run")
    inner = [n for n in ast.walk(gate) if isinstance(n, ast.Call)
             and ast.unparse(n.func) == 'self.hint.search']
    _one(inner, "self.hint.search(..) under the hint test")
    tr = Tr(subst={'self.hint': ('has_hint', 'bool', ['has_hint']),
                   'len(self.patterns)': ('npatterns', 'Z', ['npatterns'])},
            bools={'has_hint'})
    # only the part of the test that does not involve the search itself
    test = gate.test
    if isinstance(test, ast.BoolOp) and isinstance(test.op, ast.And):
        parts = [v for v in test.values
                 if 'self.hint.search' not in ast.unparse(v)]
        if not parts:
            raise Untranslatable("SearchDef.run: hint test without gate")
        test = parts[0] if len(parts) == 1 else \
            ast.BoolOp(op=ast.And(), values=parts)
    g = tr.cond(test)
    loops = [n for n in body if isinstance(n, ast.For)
             and ast.unparse(n.iter) == 'self.patterns']
    loop = _one(loops, "`for .. in self.patterns` in SearchDef.run")
    brk = [n for n in loop.body if isinstance(n, ast.If) and not n.orelse
           and n.body and (isinstance(n.body[-1], ast.Break) or
                           isinstance(n.body[-1], ast.Return)
                           and isinstance(n.test, ast.Name)
                           and ast.unparse(n.body[-1].value) == n.test.id)]
    b = _one(brk, "`if <match>: break` / `if <match>: return <match>` in "
             "the pattern loop")
    if not isinstance(b.test, ast.Name):
        raise Untranslatable("SearchDef.run: the loop must break on the "
                             "truth of the match")
    t = Tr(names={b.test.id: 'matched'}, bools={'matched'}).cond(b.test)
    return (
        f"(* if {ast.unparse(test)}: <hint pre-check> *)\n"
        "Definition searchdef_run_hint_gate (has_hint : bool) "
        f"(npatterns : Z) : bool :=\n  {g}.\n"
        f"(* if {ast.unparse(b.test)}: break *)\n"
        f"Definition searchdef_run_leaves_loop (matched : bool) : bool := "
        f"{t}.\n")


def searchdef_init(tree):
    fn = find_def(tree, 'SearchDef.__init__')
    body = _body(fn)
    ifs = [n for n in body if isinstance(n, ast.If)
           and 'isinstance(pattern, list)' in ast.unparse(n.test)]
    pif = _one(ifs, "`if ... isinstance(pattern, list)` in "
               "SearchDef.__init__")
    cond = Tr(subst={'isinstance(pattern, list)':
                     ('is_list', 'bool', ['is_list'])},
              bools={'is_list'}).cond(pif.test)
    kinds = {'single': '[compile single]', 'many': 'map compile many'}
    a, b = _patterns_branch(pif.body), _patterns_branch(pif.orelse)
    if {a, b} != {'single', 'many'}:
        raise Untranslatable("SearchDef.__init__: the two branches must "
                             "handle a single pattern and a list")
    # hint: stored as given, compiled when truthy
    hint_ifs = [n for n in body if isinstance(n, ast.If)
                and ast.unparse(n.test) == 'hint']
    hif = _one(hint_ifs, "`if hint:` in SearchDef.__init__")
    hb = _strip_logs(hif.body)
    if hif.orelse or len(hb) != 1 or \
            ast.unparse(hb[0]) != 'self.hint = re.compile(hint)':
        raise Untranslatable("SearchDef.__init__: expected `if hint: "
                             "self.hint = re.compile(hint)`")
    plain = [n for n in body if isinstance(n, ast.Assign)
             and ast.unparse(n.targets[0]) == 'self.hint']
    if [ast.unparse(n.value) for n in plain] != ['hint'] or \
            body.index(plain[0]) > body.index(hif):
        raise Untranslatable("SearchDef.__init__: expected `self.hint = "
                             "hint` before the compilation")
    hcond = Tr(names={'hint': 'hint_truthy'},
               bools={'hint_truthy'}).cond(hif.test)
    return (
        f"(* {ast.unparse(pif.test)}: ... *)\n"
        "Definition searchdef_patterns {P C : Type} (compile : P -> C) "
        "(is_list : bool)\n    (single : P) (many : list P) : list C :=\n"
        f"  if {cond} then {kinds[a]} else {kinds[b]}.\n"
        "(* self.hint = hint; if hint: self.hint = re.compile(hint) *)\n"
        "Definition searchdef_hint_compiled (hint_truthy : bool) : bool := "
        f"{hcond}.\n")


def searchdefbase(tree):
    fn = find_def(tree, 'SearchDefBase.__init__')
    assigns = [n for n in _body(fn) if isinstance(n, ast.Assign)
               and ast.unparse(n.targets[0]) == 'self._constraints']
    a = _one(assigns, "assignment to self._constraints")
    if ast.unparse(a.value) not in ('constraints or {}', 'constraints or []',
                                    'constraints or ()'):
        raise Untranslatable("SearchDefBase.__init__: expected "
                             "`self._constraints = constraints or {}`")
    prop = find_def(tree, 'SearchDefBase.constraints')
    pb = _body(prop)
    if len(pb) != 1 or not isinstance(pb[0], ast.Return) or \
            not isinstance(pb[0].value, ast.DictComp):
        raise Untranslatable("SearchDefBase.constraints: expected one "
                             "`return {...: ... for ...}`")
    dc = pb[0].value
    if len(dc.generators) != 1:
        raise Untranslatable("SearchDefBase.constraints: one generator")
    g = dc.generators[0]
    if g.ifs or g.is_async or not isinstance(g.target, ast.Name) or \
            ast.unparse(g.iter) != 'self._constraints' or \
            ast.unparse(dc.key) != f"{g.target.id}.id" or \
            ast.unparse(dc.value) != g.target.id:
        raise Untranslatable("SearchDefBase.constraints: expected "
                             "{c.id: c for c in self._constraints}")
    idf = find_def(tree, 'SearchDefBase.id')
    decos = [ast.unparse(d) for d in idf.decorator_list]
    if decos != ['cached_property']:
        raise Untranslatable("SearchDefBase.id must be a cached_property "
                             "(one identity per object)")
    return (
        f"(* {ast.unparse(pb[0])} - the items inserted, in order *)\n"
        "Definition searchdef_constraints_items {C : Type} (cid : C -> Z) "
        "(given : list C)\n    : list (Z * C) := "
        "map (fun c => (cid c, c)) given.\n"
        "(* SearchDefBase.id is a cached_property: computed once per "
        "object *)\n"
        "Definition searchdef_id_cached : bool := true.\n")


def task_init(tree):
    fn = find_def(tree, 'SearchTask.__init__')
    body = _body(fn)
    bufs = [n for n in body if isinstance(n, ast.Assign)
            and ast.unparse(n.targets[0]) == 'self.results_buffer']
    b = _one(bufs, "assignment to self.results_buffer")
    if not isinstance(b.value, ast.List):
        raise Untranslatable("SearchTask.__init__: results_buffer must "
                             "start as a list literal")
    ifs = [n for n in body if isinstance(n, ast.If)]
    dif = _one(ifs, "`if` in SearchTask.__init__")
    db = _strip_logs(dif.body)
    if dif.orelse or len(db) != 1 or ast.unparse(db[0]) != \
            "self.decode_kwargs['errors'] = decode_errors":
        raise Untranslatable("SearchTask.__init__: expected `if ..: "
                             "self.decode_kwargs['errors'] = decode_errors`")
    kws = [n for n in body if isinstance(n, ast.Assign)
           and ast.unparse(n.targets[0]) == 'self.decode_kwargs']
    if [ast.unparse(n.value) for n in kws] != ['{}']:
        raise Untranslatable("SearchTask.__init__: decode_kwargs must "
                             "start empty")
    cond = Tr(names={'decode_errors': 'decode_errors_truthy'},
              bools={'decode_errors_truthy'}).cond(dif.test)
    rm = find_def(tree, 'SearchTaskResultsManager.__init__')
    rifs = [n for n in _body(rm) if isinstance(n, ast.If)]
    rif = _one(rifs, "`if` in SearchTaskResultsManager.__init__")
    rb = _strip_logs(rif.body)
    if rif.orelse or len(rb) != 1 or not isinstance(rb[0], ast.Raise):
        raise Untranslatable("SearchTaskResultsManager.__init__: expected "
                             "`if ..: raise ..`")
    rcond = Tr(subst={'results_queue is not None':
                      ('queue_given', 'bool', ['queue_given']),
                      'results_collection is not None':
                      ('collection_given', 'bool', ['collection_given'])},
               bools={'queue_given', 'collection_given'}).cond(rif.test)
    for prop, attr in (('results_store', '_results_store'),
                       ('results_queue', '_results_queue'),
                       ('results_collection', '_results_collection')):
        pf = find_def(tree, 'SearchTaskResultsManager.' + prop)
        pb = _body(pf)
        if len(pb) != 1 or ast.unparse(pb[0]) != f"return self.{attr}":
            raise Untranslatable(f"SearchTaskResultsManager.{prop} must "
                                 f"return self.{attr}")
    return (
        f"(* {ast.unparse(b)} *)\n"
        f"Definition task_initial_buffer_len : Z := {len(b.value.elts)}.\n"
        f"(* if {ast.unparse(dif.test)}: {ast.unparse(db[0])} *)\n"
        "Definition task_passes_decode_errors (decode_errors_truthy : bool) "
        f": bool := {cond}.\n"
        f"(* if {ast.unparse(rif.test)}: raise *)\n"
        "Definition resultsmanager_rejects (queue_given collection_given : "
        f"bool) : bool :=\n  {rcond}.\n")


RUN_SEARCH_CFG = {
    'locks': {},
    'calls': {'self.stats.reset': 'stats_reset',
              'self.constraints_manager.apply_global': 'apply_global',
              'self.constraints_manager.apply_single': 'apply_single',
              'line.decode': 'decode_line',
              'self._sequence_search': 'sequence_search',
              'self._process_sequence_results': 'process_sequences',
              's_def.reset': 'seq_reset', 'enumerate': 'enumerate_lines',
              # the body of _simple_search
              'SearchResult': 'new_result',
              'self.results_buffer.append': 'buffer_append',
              'self._flush_results_buffer': 'flush'},
    'cells': {}}


def _tails(block):
    """ statements in tail position of a block """
    if not block:
        return []
    last = block[-1]
    if isinstance(last, ast.If):
        return _tails(last.body) + _tails(last.orelse)
    return [last]


class _Subst(ast.NodeTransformer):
    def __init__(self, mapping):
        self.mapping = mapping

    def visit_Name(self, node):
        if node.id in self.mapping:
            return ast.copy_location(
                ast.parse(self.mapping[node.id], mode='eval').body, node)
        return node


class _RetToContinue(ast.NodeTransformer):
    def visit_Return(self, node):
        if node.value is not None:
            raise Untranslatable("_simple_search returns a value")
        return ast.copy_location(ast.Continue(), node)

    def visit_FunctionDef(self, node):      # nested defs keep their returns
        return node


def run_search_full(tree):
    """ _run_search with the body of _simple_search in place of its call
    (the call is in tail position of the per-definition loop body, so the
    callee's early `return` is that loop's `continue`); if the method has
    already been inlined by hand the function is taken as it is.  The result
    is walked with the skeleton Walker. """
    import copy
    import skeleton
    fn = copy.deepcopy(find_def(tree, 'SearchTask._run_search'))
    klass = skeleton.class_of(tree, 'SearchTask._run_search')
    callee = [n for n in klass.body if isinstance(n, ast.FunctionDef)
              and n.name == '_simple_search']
    run_names = {'s_def.run'}
    if callee:
        callee = callee[0]
        loops = [n for n in ast.walk(fn) if isinstance(n, ast.For)]
        site = None
        for lp in loops:
            for st in _tails(lp.body):
                if isinstance(st, ast.Expr) and \
                        isinstance(st.value, ast.Call) and \
                        ast.unparse(st.value.func) == 'self._simple_search':
                    if site is not None:
                        raise Untranslatable("_simple_search called twice")
                    site = (lp, st)
        calls = [n for n in ast.walk(fn) if isinstance(n, ast.Call)
                 and ast.unparse(n.func) == 'self._simple_search']
        if site is None or len(calls) != 1:
            raise Untranslatable("_run_search: expected exactly one call of "
                                 "self._simple_search, in tail position of "
                                 "a loop body")
        params = [a.arg for a in callee.args.args][1:]
        call = site[1].value
        if len(call.args) != len(params) or call.keywords or \
                callee.args.vararg or callee.args.kwarg:
            raise Untranslatable("_simple_search: unexpected signature")
        mapping = {p: ast.unparse(a) for p, a in zip(params, call.args)}
        body = [st for st in copy.deepcopy(callee.body)
                if not (isinstance(st, ast.Expr)
                        and isinstance(st.value, ast.Constant))]
        body = [_RetToContinue().visit(_Subst(mapping).visit(st))
                for st in body]

        class Put(ast.NodeTransformer):
            def generic_visit(self, node):
                for field in ('body', 'orelse', 'finalbody'):
                    blk = getattr(node, field, None)
                    if isinstance(blk, list) and site[1] in blk:
                        i = blk.index(site[1])
                        blk[i:i + 1] = body
                return super().generic_visit(node)
        fn = ast.fix_missing_locations(Put().visit(fn))
    cfg = dict(RUN_SEARCH_CFG)
    cfg['calls'] = dict(cfg['calls'])
    # the definition's run(): whatever the loop variable is called
    for n in ast.walk(fn):
        if isinstance(n, ast.Call) and isinstance(n.func, ast.Attribute) \
                and n.func.attr == 'run' and not n.keywords \
                and len(n.args) == 1 and ast.unparse(n.args[0]) == 'line':
            cfg['calls'][ast.unparse(n.func)] = 'def_run'
    w = skeleton.Walker(cfg)
    # unmapped private helpers with a tail-only return (e.g. an extracted
    # append-and-flush block) are walked in place by the Walker itself
    w.klass, w.module = klass, tree
    w.block(fn.body)
    tree_txt = skeleton.to_tree(w.out)
    flat = ";\n   ".join(skeleton.coq_ev(e) for e in w.out)
    return ("(* SearchTask._run_search with SearchTask._simple_search "
            "in place of its call *)\n"
            "Definition tk_run_search_full : list stm :=\n  "
            f"{tree_txt}.\n"
            f"Definition sk_run_search_full : list ev :=\n  [{flat}].\n")


ITEMS = [
    ('simple_flush_test', 'searchkit/task.py', simple_search),
    ('flush_expressions', 'searchkit/task.py', flush),
    ('enumerate_start', 'searchkit/task.py', run_search),
    ('store_result_ranges', 'searchkit/result.py', store_result),
    ('apply_single_updates', 'searchkit/search.py', apply_single),
    ('searchdef_run_tests', 'searchkit/searchdef.py', searchdef_run),
    ('searchdef_init', 'searchkit/searchdef.py', searchdef_init),
    ('searchdefbase', 'searchkit/searchdef.py', searchdefbase),
    ('task_init', 'searchkit/task.py', task_init),
]


def generate(repo):
    cache, failed, info, parts = {}, [], {}, []
    for name, rel, fn in ITEMS:
        try:
            txt = fn(_parse(repo, rel, cache))
            parts.append(txt)
            info[name] = txt
        except (Untranslatable, OSError, SyntaxError, AttributeError,
                IndexError, TypeError) as exc:
            failed.append((f"task:{name}", f"{type(exc).__name__}: {exc}"))
    text = ("(* GENERATED from the repository working tree by "
            "translator/plugins/task.py - do not edit *)\n"
            "From Coq Require Import ZArith Bool List.\nImport ListNotations.\n"
            "Open Scope Z_scope.\n\n" + "\n".join(parts))
    # skeletons built by this plugin (string literals: own scope, last)
    try:
        sk = run_search_full(_parse(repo, 'searchkit/task.py', cache))
        info['run_search_full'] = sk
        text += ("\nFrom Coq Require Import String.\n"
                 "From SK Require Import Model.Skel Model.Stm.\n"
                 "Open Scope string_scope.\n\n" + sk)
    except (Untranslatable, OSError, SyntaxError, AttributeError,
            IndexError, TypeError, ValueError) as exc:
        failed.append(("task:run_search_full",
                       f"{type(exc).__name__}: {exc}"))
    return text, info, failed
