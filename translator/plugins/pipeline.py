"""T1 plugin for C02: the tests and counter updates of the hand-over pipeline
as Gallina expressions (-> coq/Gen/XPipeline.v).

  FileSearcher._get_results    the two tests of the collector loop
  FileSearcher._purge_results  the two tests of the purge loop
  FileSearcher._run_mp         the `expected` argument handed to the purge
  SearchTask.put_result        counter update, direct-add test, retry
                               counter: initial value, loop test, first-try
                               test, decrement in the queue.Full handler,
                               give-up test

Every item is a recogniser of the statement shape the model was written
against plus a pyexpr.Tr translation of the expression in it.  Fail closed:
an unrecognised shape is reported and its definition omitted, so the
theorems of Props/C02.v that mention it stop compiling.  Logging, comments
and docstrings may change freely.
"""
import ast
import os
import sys

sys.path.insert(0, os.path.dirname(os.path.dirname(os.path.abspath(__file__))))
from pyexpr import Tr, Untranslatable, find_def  # noqa: E402


def U(n):
    return ast.unparse(n)


def need(cond, why, node=None):
    if not cond:
        where = f"line {getattr(node, 'lineno', '?')}: " if node is not None \
            else ''
        raise Untranslatable(where + why)


def is_log(n):
    return isinstance(n, ast.Expr) and isinstance(n.value, ast.Call) \
        and U(n.value.func).startswith('log.')


def strip(stmts):
    """ statements without docstrings, logging calls and `msg = ...`
    assignments that only feed a log call """
    out = []
    for n in stmts:
        if isinstance(n, ast.Expr) and isinstance(n.value, ast.Constant):
            continue
        if is_log(n):
            continue
        out.append(n)
    return out


def one(xs, why, node=None):
    need(len(xs) == 1, f"{why}: expected exactly one, found {len(xs)}", node)
    return xs[0]


class Out:
    def __init__(self):
        self.defs = []
        self.info = {}
        self.failed = []

    def item(self, name, fn):
        try:
            text, info = fn()
            self.defs.append(text)
            self.info[name] = info
        except (Untranslatable, AssertionError, AttributeError, IndexError,
                KeyError, TypeError) as exc:
            self.failed.append((name, f"{type(exc).__name__}: {exc}"))


Q_EMPTY = ('q_empty', 'bool', ['q_empty'])
SUBST_CONSUMER = {
    'results_queue.empty()': Q_EMPTY,
    'event.is_set()': ('stop_requested', 'bool', ['stop_requested']),
    'len(results)': ('len_results', 'Z', ['len_results']),
}


def bool_def(name, params, test, subst, comment):
    tr = Tr(names={'expected': 'expected'}, subst=subst,
            bools=('q_empty', 'stop_requested'))
    t, ty = tr.expr(test)
    need(ty == 'bool', f"{name}: the test is not boolean: {U(test)}", test)
    for v in tr.free:
        need(v in [p.split(' ')[0].strip('(') for p in params] or
             any(v in p for p in params),
             f"{name}: unexpected free variable {v}", test)
    return (f"(* {comment}: {U(test)} *)\n"
            f"Definition {name} {' '.join(params)} : bool := {t}.\n",
            {'test': U(test)})


def while_true_body(f, what):
    loops = [n for n in strip(f.body) if isinstance(n, ast.While)]
    w = one(loops, f"{what}: top-level while loop", f)
    need(isinstance(w.test, ast.Constant) and w.test.value is True,
         f"{what}: the loop is not `while True`", w)
    return w


def generate(repo):
    out = Out()
    with open(os.path.join(repo, 'searchkit/search.py'),
              encoding='utf-8') as fh:
        s_tree = ast.parse(fh.read())
    with open(os.path.join(repo, 'searchkit/task.py'),
              encoding='utf-8') as fh:
        t_tree = ast.parse(fh.read())

    # ------------------------------------------------- _get_results
    def collector_ifs():
        f = find_def(s_tree, 'FileSearcher._get_results')
        w = while_true_body(f, '_get_results')
        body = strip(w.body)
        top = one(body, "_get_results: loop body is one if/elif/else", w)
        need(isinstance(top, ast.If), "_get_results: loop body is not an if",
             top)
        el = one(strip(top.orelse), "_get_results: elif", top)
        need(isinstance(el, ast.If), "_get_results: no elif", top)
        return top, el

    def g_take():
        top, _ = collector_ifs()
        return bool_def('collector_take_test', ['(q_empty : bool)'],
                        top.test, SUBST_CONSUMER, '_get_results, first test')
    out.item('collector_take_test', g_take)

    def g_stop():
        _, el = collector_ifs()
        brk = strip(el.body)
        need(len(brk) == 1 and isinstance(brk[0], ast.Break),
             "_get_results: the elif branch is not a lone `break`", el)
        return bool_def('collector_stop_test', ['(stop_requested : bool)'],
                        el.test, SUBST_CONSUMER,
                        '_get_results, elif test (then: break)')
    out.item('collector_stop_test', g_stop)

    # ------------------------------------------------- _purge_results
    def purge_ifs():
        f = find_def(s_tree, 'FileSearcher._purge_results')
        w = while_true_body(f, '_purge_results')
        wi = one(strip(w.body), "_purge_results: loop body is one `with`", w)
        need(isinstance(wi, ast.With), "_purge_results: loop body is not a "
             "`with`", wi)
        top = one(strip(wi.body), "_purge_results: with body is one "
                  "if/elif/else", wi)
        need(isinstance(top, ast.If), "_purge_results: no if", top)
        el = one(strip(top.orelse), "_purge_results: elif", top)
        need(isinstance(el, ast.If), "_purge_results: no elif", top)
        last = strip(el.orelse)
        need(len(last) == 1 and isinstance(last[0], ast.Break),
             "_purge_results: the final else is not a lone `break`", el)
        return top, el

    def p_take():
        top, _ = purge_ifs()
        return bool_def('purge_take_test', ['(q_empty : bool)'], top.test,
                        SUBST_CONSUMER, '_purge_results, first test')
    out.item('purge_take_test', p_take)

    def p_wait():
        _, el = purge_ifs()
        return bool_def('purge_wait_test', ['(expected len_results : Z)'],
                        el.test, SUBST_CONSUMER,
                        '_purge_results, elif test (else: break)')
    out.item('purge_wait_test', p_wait)

    # ------------------------------------------------- _run_mp
    def purge_arg():
        f = find_def(s_tree, 'FileSearcher._run_mp')
        calls = [n for n in ast.walk(f) if isinstance(n, ast.Call)
                 and U(n.func) == 'self._purge_results']
        c = one(calls, "_run_mp: call of self._purge_results", f)
        need(len(c.args) == 3 and not c.keywords,
             "_run_mp: _purge_results is not called with 3 positional "
             "arguments", c)
        tr = Tr(subst={"self.stats['results']":
                       ('stats_results', 'Z', ['stats_results'])})
        t, ty = tr.expr(c.args[2])
        need(ty == 'Z', "_run_mp: expected count is not an integer", c)
        return (f"(* {U(c)} *)\n"
                f"Definition run_mp_purge_expected (stats_results : Z) : Z "
                f":= {t}.\n", {'call': U(c)})
    out.item('run_mp_purge_expected', purge_arg)

    # ------------------------------------------------- put_result
    def put_parts():
        f = find_def(t_tree, 'SearchTask.put_result')
        body = strip(f.body)
        need(len(body) >= 5, "put_result: too few statements", f)
        count, direct = body[0], body[1]
        need(isinstance(count, ast.AugAssign), "put_result: the first "
             "statement is not the counter update", count)
        need(isinstance(direct, ast.If) and not direct.orelse,
             "put_result: second statement is not the direct-add `if`",
             direct)
        loops = [n for n in body if isinstance(n, ast.While)]
        w = one(loops, "put_result: while loop", f)
        inits = {U(n.targets[0]): n.value for n in body
                 if isinstance(n, ast.Assign) and len(n.targets) == 1
                 and body.index(n) < body.index(w)}
        last = body[-1]
        need(isinstance(last, ast.If) and body.index(last) > body.index(w),
             "put_result: no give-up test after the loop", f)
        tr_ = one([n for n in strip(w.body)], "put_result: loop body is one "
                  "try", w)
        need(isinstance(tr_, ast.Try) and len(tr_.handlers) == 1 and
             U(tr_.handlers[0].type) == 'queue.Full' and not tr_.orelse and
             not tr_.finalbody, "put_result: expected try/except queue.Full",
             tr_)
        return count, direct, inits, w, tr_, last

    names = {'max_tries': 'max_tries', 'MAX_QUEUE_RETRIES':
             'max_queue_retries'}

    def put_count():
        count = put_parts()[0]
        need(U(count.target) == "self.stats['results']" and
             isinstance(count.op, ast.Add),
             f"put_result: counter update is not `self.stats['results'] += "
             f"..`: {U(count)}", count)
        tr = Tr(subst={'len(results)': ('batch_len', 'Z', ['batch_len'])})
        t, ty = tr.expr(count.value)
        need(ty == 'Z', "put_result: increment is not an integer", count)
        return (f"(* {U(count)} *)\n"
                f"Definition put_count_update (stats_results batch_len : Z) "
                f": Z := stats_results + {t}.\n", {'stmt': U(count)})
    out.item('put_count_update', put_count)

    def put_direct():
        direct = put_parts()[1]
        sb = strip(direct.body)
        need(len(sb) == 2 and isinstance(sb[1], ast.Return) and
             sb[1].value is None and
             U(sb[0]) == 'self.results_manager.results_collection.add('
             'results)', "put_result: direct branch is not "
             "`results_collection.add(results); return`", direct)
        tr = Tr(subst={
            'self.results_manager.results_collection is not None':
            ('has_collection', 'bool', ['has_collection'])})
        t, ty = tr.expr(direct.test)
        need(ty == 'bool', "put_result: direct test not boolean", direct)
        return (f"(* if {U(direct.test)}: add; return *)\n"
                f"Definition put_direct_test (has_collection : bool) : bool "
                f":= {t}.\n", {'test': U(direct.test)})
    out.item('put_direct_test', put_direct)

    def put_init():
        inits = put_parts()[2]
        need('max_tries' in inits, "put_result: max_tries is not "
             "initialised before the loop")
        t, ty = Tr(names=names).expr(inits['max_tries'])
        need(ty == 'Z', "put_result: max_tries initial value not an integer")
        return (f"(* max_tries = {U(inits['max_tries'])} *)\n"
                f"Definition put_tries_init (max_queue_retries : Z) : Z := "
                f"{t}.\n", {'init': U(inits['max_tries'])})
    out.item('put_tries_init', put_init)

    def put_loop():
        w = put_parts()[3]
        t, ty = Tr(names=names).expr(w.test)
        need(ty == 'bool', "put_result: loop test not boolean", w)
        return (f"(* while {U(w.test)} *)\n"
                f"Definition put_loop_test (max_tries : Z) : bool := {t}.\n",
                {'test': U(w.test)})
    out.item('put_loop_test', put_loop)

    def put_first():
        tr_ = put_parts()[4]
        tb = strip(tr_.body)
        need(len(tb) == 2 and isinstance(tb[0], ast.If) and
             isinstance(tb[1], ast.Break),
             "put_result: try body is not `if ..: put_nowait else: put` "
             "then `break`", tr_)
        i = tb[0]
        a, b = strip(i.body), strip(i.orelse)
        need(len(a) == 1 and U(a[0]).startswith(
            'self.results_manager.results_queue.put_nowait(results)'),
            "put_result: first attempt is not put_nowait(results)", i)
        need(len(b) == 1 and U(a[0]) and U(b[0]).startswith(
            'self.results_manager.results_queue.put(results'),
            "put_result: later attempts are not put(results, ..)", i)
        t, ty = Tr(names=names).expr(i.test)
        need(ty == 'bool', "put_result: first-try test not boolean", i)
        return (f"(* if {U(i.test)}: put_nowait else: put(timeout) *)\n"
                f"Definition put_first_try_test (max_tries max_queue_retries "
                f": Z) : bool := {t}.\n", {'test': U(i.test)})
    out.item('put_first_try_test', put_first)

    def put_full():
        tr_ = put_parts()[4]
        hb = [n for n in strip(tr_.handlers[0].body)]
        augs = [n for n in hb if isinstance(n, ast.AugAssign)
                and U(n.target) == 'max_tries']
        a = one(augs, "put_result: `max_tries <op>= ..` in the queue.Full "
                "handler", tr_)
        sleeps = [n for n in hb if isinstance(n, ast.Expr)
                  and isinstance(n.value, ast.Call)
                  and U(n.value.func) == 'time.sleep']
        sl = one(sleeps, "put_result: time.sleep in the handler", tr_)
        need(hb.index(a) < hb.index(sl), "put_result: the retry counter is "
             "not decremented before the sleep", tr_)
        for n in hb:
            for m in ast.walk(n):
                if isinstance(m, (ast.Assign, ast.AugAssign)) and m is not a:
                    tg = m.targets[0] if isinstance(m, ast.Assign) \
                        else m.target
                    need(U(tg) != 'max_tries', "put_result: max_tries "
                         "assigned twice in the handler", m)
        fake = ast.BinOp(left=ast.Name(id='max_tries', ctx=ast.Load()),
                         op=a.op, right=a.value)
        t, ty = Tr(names=names).expr(fake)
        need(ty == 'Z', "put_result: decrement not an integer", a)
        return (f"(* except queue.Full: {U(a)}; time.sleep(..) *)\n"
                f"Definition put_on_full (max_tries : Z) : Z := {t}.\n",
                {'stmt': U(a)})
    out.item('put_on_full', put_full)

    def put_gave_up():
        last = put_parts()[5]
        need(not strip(last.body) and not strip(last.orelse),
             "put_result: the give-up branch does more than logging", last)
        t, ty = Tr(names=names).expr(last.test)
        need(ty == 'bool', "put_result: give-up test not boolean", last)
        return (f"(* if {U(last.test)}: log.error(..) *)\n"
                f"Definition put_gave_up_test (max_tries : Z) : bool := "
                f"{t}.\n", {'test': U(last.test)})
    out.item('put_gave_up_test', put_gave_up)

    # ------------------------------------------------- ThreadManager
    def tm_fn(name):
        return find_def(s_tree, f'ThreadManager.{name}')

    def running_value(fname, dname):
        def go():
            f = tm_fn(fname)
            asg = [n for n in ast.walk(f) if isinstance(n, ast.Assign)
                   and len(n.targets) == 1
                   and U(n.targets[0]) == 'self.running']
            a = one(asg, f"ThreadManager.{fname}: assignment to "
                    "self.running", f)
            need(isinstance(a.value, ast.Constant) and
                 isinstance(a.value.value, bool),
                 f"ThreadManager.{fname}: self.running is not set to a "
                 f"boolean constant: {U(a)}", a)
            v = 'true' if a.value.value else 'false'
            return (f"(* ThreadManager.{fname}: {U(a)} *)\n"
                    f"Definition {dname} : bool := {v}.\n", {'stmt': U(a)})
        return go
    out.item('tm_init_running', running_value('__init__', 'tm_init_running'))
    out.item('tm_start_running', running_value('start', 'tm_start_running'))
    out.item('tm_stop_running', running_value('stop', 'tm_stop_running'))

    def tm_stop_test():
        """ the test of stop()'s leading `if`, literally, in either of the
        two equivalent layouts `if T: <body>` (nothing after it) and
        `if T': return` followed by the body; the interpreter of the
        extracted tree decides that `if` with this expression, whatever its
        polarity (Props/C02.v: C02_thread_manager_stop) """
        f = tm_fn('stop')
        body = strip(f.body)
        need(body and isinstance(body[0], ast.If),
             "ThreadManager.stop: does not start with an `if`", f)
        i = body[0]
        need(not strip(i.orelse), "ThreadManager.stop: the `if` has an "
             "else branch", i)
        guard_only = (len(strip(i.body)) == 1 and
                      isinstance(strip(i.body)[0], ast.Return) and
                      strip(i.body)[0].value is None)
        need(len(body) == 1 or guard_only,
             "ThreadManager.stop: neither a lone `if T: ..` nor "
             "`if T: return` followed by the body", i)
        for n in body[1:]:
            need(not any(isinstance(m, ast.If) for m in ast.walk(n)),
                 "ThreadManager.stop: a second test", n)
        tr = Tr(subst={'self.running': ('running', 'bool', ['running'])})
        t, ty = tr.expr(i.test)
        need(ty == 'bool', "ThreadManager.stop: test not boolean", i)
        need(tr.free == ['running'] or tr.free == [],
             f"ThreadManager.stop: the test reads {tr.free}", i)
        return (f"(* ThreadManager.stop: if {U(i.test)}: *)\n"
                f"Definition tm_stop_test (running : bool) : bool := {t}.\n",
                {'test': U(i.test)})
    out.item('tm_stop_test', tm_stop_test)

    def tm_thread():
        f = tm_fn('__init__')
        params = [a.arg for a in f.args.args]
        need(params == ['self', 'name', 'func', 'args'],
             f"ThreadManager.__init__ parameters are {params}", f)
        ev = [n for n in ast.walk(f) if isinstance(n, ast.Assign)
              and U(n.targets[0]) == 'self.event']
        e = one(ev, "ThreadManager.__init__: self.event assignment", f)
        need(U(e.value) == 'threading.Event()',
             f"self.event is not a fresh threading.Event(): {U(e)}", e)
        th = [n for n in ast.walk(f) if isinstance(n, ast.Assign)
              and U(n.targets[0]) == 'self.thread']
        t = one(th, "ThreadManager.__init__: self.thread assignment", f)
        c = t.value
        need(isinstance(c, ast.Call) and U(c.func) == 'threading.Thread'
             and not c.args, "self.thread is not threading.Thread(..)", t)
        kw = {k.arg: U(k.value) for k in c.keywords}
        need(kw.get('target') == 'func' and
             kw.get('args') == '[self.event, *args]',
             f"thread is not Thread(target=func, args=[self.event, *args]): "
             f"{U(c)}", t)
        return (f"(* {U(t)} *)\n"
                "Definition tm_thread_runs_func_with_own_event : bool := "
                "true.\n", {'stmt': U(t)})
    out.item('tm_thread_runs_func_with_own_event', tm_thread)

    def collector_wired():
        f = find_def(s_tree, 'FileSearcher._run_mp')
        asg = [n for n in ast.walk(f) if isinstance(n, ast.Assign)
               and U(n.targets[0]) == 'results_thread']
        a = one(asg, "_run_mp: results_thread assignment", f)
        c = a.value
        need(isinstance(c, ast.Call) and U(c.func) == 'ThreadManager' and
             len(c.args) == 3 and not c.keywords,
             f"_run_mp: results_thread is not ThreadManager(name, func, "
             f"args): {U(a)}", a)
        need(U(c.args[1]) == 'self._get_results',
             f"_run_mp: the results thread does not run self._get_results: "
             f"{U(c.args[1])}", a)
        need(isinstance(c.args[2], ast.List), "_run_mp: thread args not a "
             "list", a)
        given = [U(x) for x in c.args[2].elts]
        g = find_def(s_tree, 'FileSearcher._get_results')
        params = [x.arg for x in g.args.args]
        need(params == ['event'] + given,
             f"_get_results{tuple(params)} is not called with (event, "
             f"{', '.join(given)})", a)
        q = [n for n in ast.walk(f) if isinstance(n, ast.Assign)
             and U(n.targets[0]) == 'results_queue']
        qa = one(q, "_run_mp: results_queue assignment", f)
        need(U(qa.value) == 'mgr.Queue(RESULTS_QUEUE_SIZE)',
             f"_run_mp: results_queue is not mgr.Queue(RESULTS_QUEUE_SIZE): "
             f"{U(qa)}", qa)
        p = one([n for n in ast.walk(f) if isinstance(n, ast.Call)
                 and U(n.func) == 'self._purge_results'], "_run_mp: purge",
                f)
        need([U(x) for x in p.args[:2]] == given,
             "_run_mp: the purge does not work on the collector's "
             "collection and queue", p)
        return (f"(* {U(a)}; {U(qa)} *)\n"
                "Definition run_mp_collector_wired : bool := true.\n",
                {'stmt': U(a)})
    out.item('run_mp_collector_wired', collector_wired)

    # ------------------------------------------ SearchTaskResultsManager
    def rm_init():
        return find_def(t_tree, 'SearchTaskResultsManager.__init__')

    def rm_conflict():
        f = rm_init()
        ifs = [n for n in strip(f.body) if isinstance(n, ast.If)]
        i = one(ifs, "SearchTaskResultsManager.__init__: the `if`", f)
        b = strip(i.body)
        need(len(b) == 1 and isinstance(b[0], ast.Raise) and not i.orelse,
             "SearchTaskResultsManager.__init__: the `if` does not just "
             "raise", i)
        tr = Tr(subst={
            'results_queue is not None': ('has_queue', 'bool',
                                          ['has_queue']),
            'results_collection is not None': ('has_collection', 'bool',
                                               ['has_collection'])})
        t, ty = tr.expr(i.test)
        need(ty == 'bool', "conflict test not boolean", i)
        return (f"(* if {U(i.test)}: raise SearchTaskError *)\n"
                f"Definition rm_conflict_test (has_queue has_collection : "
                f"bool) : bool := {t}.\n", {'test': U(i.test)})
    out.item('rm_conflict_test', rm_conflict)

    def rm_fields():
        f = rm_init()
        cls = find_def(t_tree, 'SearchTaskResultsManager')
        for nm in ('results_store', 'results_queue', 'results_collection'):
            a = [n for n in strip(f.body) if isinstance(n, ast.Assign)
                 and U(n.targets[0]) == f'self._{nm}']
            x = one(a, f"SearchTaskResultsManager: self._{nm} assignment", f)
            need(U(x.value) == nm, f"self._{nm} is not the argument: "
                 f"{U(x)}", x)
            g = one([n for n in cls.body if isinstance(n, ast.FunctionDef)
                     and n.name == nm], f"property {nm}", cls)
            need(any(U(d) == 'property' for d in g.decorator_list),
                 f"{nm} is not a property", g)
            r = one(strip(g.body), f"property {nm} body", g)
            need(isinstance(r, ast.Return) and U(r.value) == f'self._{nm}',
                 f"property {nm} does not return self._{nm}", r)
        return ("(* SearchTaskResultsManager: results_store / results_queue "
                "/ results_collection return the constructor arguments *)\n"
                "Definition rm_properties_are_arguments : bool := true.\n",
                {})
    out.item('rm_properties_are_arguments', rm_fields)

    def manager_mode(qual, dname):
        def go():
            f = find_def(s_tree, qual)
            cs = [n for n in ast.walk(f) if isinstance(n, ast.Call)
                  and U(n.func) == 'SearchTaskResultsManager']
            c = one(cs, f"{qual}: SearchTaskResultsManager(..)", f)
            need(len(c.args) == 1 and U(c.args[0]) == 'results_store',
                 f"{qual}: first argument is not results_store", c)
            kw = {k.arg: U(k.value) for k in c.keywords}
            need(set(kw) <= {'results_queue', 'results_collection'},
                 f"{qual}: unexpected keywords {sorted(kw)}", c)
            for k, v in kw.items():
                need(v == k, f"{qual}: {k}={v}", c)
            hq = 'true' if 'results_queue' in kw else 'false'
            hc = 'true' if 'results_collection' in kw else 'false'
            return (f"(* {qual}: {U(c)} *)\n"
                    f"Definition {dname} : bool * bool := ({hq}, {hc}).\n",
                    {'call': U(c)})
        return go
    out.item('run_mp_manager_mode',
             manager_mode('FileSearcher._run_mp', 'run_mp_manager_mode'))
    out.item('run_single_manager_mode',
             manager_mode('FileSearcher._run_single',
                          'run_single_manager_mode'))

    # ------------------------------------------ SearchCatalog.get_source_id
    def source_ids():
        f = find_def(s_tree, 'SearchCatalog.get_source_id')
        params = [a.arg for a in f.args.args]
        need(len(params) == 2, f"get_source_id parameters {params}", f)
        pname = params[1]
        fors = [n for n in ast.walk(f) if isinstance(n, ast.For)]
        lp = one(fors, "get_source_id: loop over the registered ids", f)
        need(U(lp.iter) == 'self._source_ids.items()' and
             isinstance(lp.target, ast.Tuple) and len(lp.target.elts) == 2
             and all(isinstance(x, ast.Name) for x in lp.target.elts),
             f"get_source_id: loop is not `for id, p in "
             f"self._source_ids.items()`: {U(lp.iter)}", lp)
        idn, pn = lp.target.elts[0].id, lp.target.elts[1].id
        body = strip(lp.body)
        i = one(body, "get_source_id: loop body is one `if`", lp)
        need(isinstance(i, ast.If) and not strip(i.orelse) and not lp.orelse,
             "get_source_id: loop body is not a lone `if`", lp)
        t = i.test
        need(isinstance(t, ast.Compare) and len(t.ops) == 1 and
             isinstance(t.ops[0], ast.Eq) and
             {U(t.left), U(t.comparators[0])} == {pn, pname},
             f"get_source_id: an id is reused on a test other than equality "
             f"of the registered path and the argument: {U(t)}", i)
        r = one(strip(i.body), "get_source_id: reuse branch", i)
        need(isinstance(r, ast.Return) and U(r.value) == idn,
             "get_source_id: the reuse branch does not return the "
             "registered id", r)
        asg = [n for n in ast.walk(f) if isinstance(n, ast.Assign)
               and len(n.targets) == 1 and isinstance(n.targets[0], ast.Name)]
        consts = [n for n in asg if isinstance(n.value, ast.Constant)]
        c = one(consts, "get_source_id: constant first id", f)
        fresh = [n for n in asg if 'max(' in U(n.value)]
        fr = one(fresh, "get_source_id: fresh id from the maximum", f)
        need(c.targets[0].id == fr.targets[0].id,
             "get_source_id: first and fresh id go to different names", f)
        var = c.targets[0].id
        # the constant is used exactly when nothing is registered yet
        sel = [n for n in ast.walk(f) if isinstance(n, ast.If)
               and U(n.test) in ('not self._source_ids', 'self._source_ids')]
        sl = one(sel, "get_source_id: emptiness test", f)
        empty_branch, other = (sl.body, sl.orelse) \
            if U(sl.test).startswith('not') else (sl.orelse, sl.body)
        need(any(c is m for n in empty_branch for m in ast.walk(n)) and
             any(fr is m for n in other for m in ast.walk(n)),
             "get_source_id: the constant id is not the one of the empty "
             "table / the fresh id not the one of the non-empty table", sl)
        tail = strip(f.body)[-2:]
        need(len(tail) == 2 and
             U(tail[0]) == f'self._source_ids[{var}] = {pname}' and
             U(tail[1]) == f'return {var}',
             "get_source_id: does not end with registering the new id for "
             "the path and returning it", f)
        sub = {'max(list(self._source_ids))': ('max_id', 'Z', ['max_id']),
               'max(self._source_ids)': ('max_id', 'Z', ['max_id']),
               'max(self._source_ids.keys())': ('max_id', 'Z', ['max_id'])}
        t_fresh, ty = Tr(subst=sub).expr(fr.value)
        need(ty == 'Z', "get_source_id: fresh id not an integer", fr)
        t_first, ty = Tr().expr(c.value)
        need(ty == 'Z', "get_source_id: first id not an integer", c)
        return (f"(* get_source_id: reuse iff {U(t)}; {U(c)}; {U(fr)} *)\n"
                "Definition source_id_reused_iff_same_path_string : bool := "
                "true.\n"
                f"Definition source_id_first : Z := {t_first}.\n"
                f"Definition source_id_fresh (max_id : Z) : Z := "
                f"{t_fresh}.\n", {'test': U(t), 'fresh': U(fr.value)})
    out.item('source_ids', source_ids)

    # ------------------------------------------ SearchCatalog.register
    def entry_searches():
        f = find_def(s_tree, 'SearchCatalog.register')
        params = [a.arg for a in f.args.args]
        need(len(params) == 3, f"register parameters {params}", f)
        sname, uname = params[1], params[2]
        fors = [n for n in ast.walk(f) if isinstance(n, ast.For)
                and U(n.iter) == f'self._expand_path({uname})']
        lp = one(fors, "register: loop over the expanded paths", f)
        need(isinstance(lp.target, ast.Name), "register: loop target", lp)
        pv = lp.target.id
        inside = {id(m) for b in lp.body for m in ast.walk(b)}
        news = [n for n in ast.walk(f) if isinstance(n, ast.Assign)
                and any(U(t) == f'self._entries[{pv}]' for t in n.targets)]
        a = one(news, "register: creation of a catalog entry", f)
        need(id(a) in inside, "register: the entry is not created inside "
             "the per-path loop", a)
        need(isinstance(a.value, ast.Dict), "register: a new entry is not a "
             f"dict literal built for that path: {U(a.value)}", a)
        kv = {U(k): v for k, v in zip(a.value.keys, a.value.values)
              if k is not None}
        need(None not in a.value.keys, "register: entry built with ** "
             "unpacking", a)
        need("'searches'" in kv and isinstance(kv["'searches'"], ast.List)
             and [U(x) for x in kv["'searches'"].elts] == [sname],
             "register: a new entry's 'searches' is not a fresh one-element "
             f"list [{sname}] created for that path", a)
        need(U(kv.get("'path'")) == pv if "'path'" in kv else False,
             "register: entry path is not the loop path", a)
        return ("(* SearchCatalog.register: every new entry gets its OWN "
                f"list: {U(a)} (inside the per-path loop) *)\n"
                "Definition catalog_entry_searches_fresh_per_path : bool := "
                "true.\n", {'stmt': U(a)})
    out.item('catalog_entry_searches_fresh_per_path', entry_searches)

    # --------------------------------- ResultStoreParallel.local (per task)
    def local_store():
        with open(os.path.join(repo, 'searchkit/results_store.py'),
                  encoding='utf-8') as fh:
            r_tree = ast.parse(fh.read())
        f = find_def(r_tree, 'ResultStoreParallel.local')
        need(not any(isinstance(n, (ast.Global, ast.Nonlocal))
                     for n in ast.walk(f)),
             "ResultStoreParallel.local declares global / nonlocal names", f)
        nodes = [m for b in f.body for m in ast.walk(b)]
        assigned = {n.id for n in nodes if isinstance(n, ast.Name)
                    and isinstance(n.ctx, ast.Store)}
        loaded = {n.id for n in nodes if isinstance(n, ast.Name)
                  and isinstance(n.ctx, ast.Load)}
        allowed = {'self', 'os', 'log', 'ResultStoreSimple',
                   'ResultStoreException'}
        extra = sorted(loaded - assigned - allowed)
        need(not extra, f"ResultStoreParallel.local consults names outside "
             f"the store object itself: {extra}", f)
        ctor = [n for n in ast.walk(f) if isinstance(n, ast.Call)
                and U(n.func) == 'ResultStoreSimple']
        c = one(ctor, "ResultStoreParallel.local: ResultStoreSimple(..)", f)
        guards = [n for n in ast.walk(f) if isinstance(n, ast.If)
                  and U(n.test) == 'self._local_store is None'
                  and any(c is m for b in n.body for m in ast.walk(b))]
        one(guards, "ResultStoreParallel.local: the local store is not "
            "created under `if self._local_store is None`", f)
        return ("(* ResultStoreParallel.local: a store object without a "
                "local store creates a NEW ResultStoreSimple and consults "
                "nothing outside itself (no process-wide cache) *)\n"
                "Definition worker_local_store_fresh_per_task : bool := "
                "true.\n", {'ctor': U(c)})
    out.item('worker_local_store_fresh_per_task', local_store)

    text = ("(* GENERATED from the repository working tree by "
            "translator/plugins/pipeline.py - do not edit *)\n"
            "From Coq Require Import ZArith Bool.\n"
            "Open Scope Z_scope.\n\n" + "\n".join(out.defs))
    return text, out.info, out.failed
