"""T1 plugin for C03: the sequence state holder and the sequence results
object (-> coq/Gen/XSequence.v).

  searchdef.py  SequenceSearchDef.start / .reset / .stop   as programs in the
                mini language [dstm] of Model/SequenceSk.v (set the mark,
                draw a fresh uuid4 for the section id, note the completed
                section); Props/C03.v proves that running them IS the
                model's do_start / do_reset / do_stop
                SequenceSearchDef.started         the mark value that means
                                                  "started"
                SequenceSearchDef.current_section_id  returns the field the
                                                  methods above assign
                SequenceSearchDef.__init__        initial mark / section id,
                                                  which part gets which tag
                SequenceSearchDef.start_tag / end_tag / body_tag  suffixes
  result.py     SequenceSearchResults.add / .remove   as Gallina functions on
                the list stored under a key (the D3 repair is the filter
                predicate of remove)
                SearchResult.__init__   section_id and sequence_id are
                assigned before any early return

Every item is a recogniser of the exact statement shape plus a translation of
what is inside; docstrings, comments and log.* calls may change freely.  Fail
closed: an item that no longer has a recognised shape is reported as failed
and its definition omitted, so the theorems of Props/C03.v that mention it
stop compiling.
"""
import ast
import os
import sys

sys.path.insert(0, os.path.dirname(os.path.dirname(os.path.abspath(__file__))))
from pyexpr import Untranslatable, find_def  # noqa: E402


def U(n):
    return ast.unparse(n)


def need(cond, why, node=None):
    if not cond:
        where = f"line {getattr(node, 'lineno', '?')}: " if node is not None \
            else ''
        raise Untranslatable(where + why)


def real_body(f):
    """ statements of a function without docstring / logging calls """
    out = []
    for n in f.body:
        if isinstance(n, ast.Expr) and isinstance(n.value, ast.Constant):
            continue
        if isinstance(n, ast.Expr) and isinstance(n.value, ast.Call) \
                and U(n.value.func).startswith('log.'):
            continue
        if isinstance(n, ast.Pass):
            continue
        out.append(n)
    return out


class Out:
    def __init__(self):
        self.defs = []
        self.info = {}
        self.failed = []

    def item(self, name, fn):
        try:
            text, info = fn()
            self.defs.append(text)
            self.info[name] = info
        except (Untranslatable, AssertionError, AttributeError, IndexError,
                KeyError, TypeError) as exc:
            self.failed.append((name, f"{type(exc).__name__}: {exc}"))


SECTION_ID = ('self._section_id', 'self.current_section_id')


def coq_string(s):
    need('"' not in s, "string literal with a quote")
    return '"' + s + '"'


# all 128 bits of a uuid4 (a truncated one is NOT collision free)
FRESH_UUID = ('str(uuid.uuid4())', 'uuid.uuid4()', 'str(uuid4())', 'uuid4()',
              'uuid.uuid4().hex', 'uuid4().hex')


def dstm_of(n, fname, cls=None):
    """ one statement of start()/reset()/stop() -> a [dstm] constructor """
    # self._mark = <int> | None
    if isinstance(n, ast.Assign) and len(n.targets) == 1 and \
            U(n.targets[0]) == 'self._mark':
        v = n.value
        need(isinstance(v, ast.Constant) and
             (v.value is None or (isinstance(v.value, int)
                                  and not isinstance(v.value, bool))),
             f"{fname}: the mark is not set to an integer literal: {U(v)}", n)
        return "DSetMark None" if v.value is None \
            else f"DSetMark (Some ({v.value})%Z)"
    # self._section_id = str(uuid.uuid4())   : a FRESH id on every call
    if isinstance(n, ast.Assign) and len(n.targets) == 1 and \
            U(n.targets[0]) == 'self._section_id':
        v = n.value
        # a private helper whose whole body is `return <fresh uuid4>`
        if isinstance(v, ast.Call) and not v.args and not v.keywords and \
                isinstance(v.func, ast.Attribute) and \
                U(v.func.value) in ('self', 'SequenceSearchDef') and \
                cls is not None:
            hs = [m for m in cls.body if isinstance(m, ast.FunctionDef)
                  and m.name == v.func.attr]
            need(len(hs) == 1, f"{fname}: helper {v.func.attr} not found", n)
            hb = real_body(hs[0])
            need(len(hb) == 1 and isinstance(hb[0], ast.Return),
                 f"{fname}: helper {v.func.attr} is not a single return", n)
            v = hb[0].value
        need(U(v) in FRESH_UUID,
             f"{fname}: the section id is not a fresh (full) uuid4: {U(v)}",
             n)
        return "DFreshId"
    # if self.current_section_id is None: raise ...
    if isinstance(n, ast.If) and not n.orelse and \
            U(n.test) in [f"{x} is None" for x in SECTION_ID] and \
            len(real_body(n)) == 1 and isinstance(real_body(n)[0], ast.Raise):
        return "DCheckId"
    # self.completed_sections.append(self.current_section_id)
    if isinstance(n, ast.Expr) and U(n.value) in \
            [f"self.completed_sections.append({x})" for x in SECTION_ID]:
        return "DComplete"
    raise Untranslatable(f"line {n.lineno}: {fname}: statement not "
                         f"recognised: {U(n)[:80]}")


def generate(repo):
    out = Out()
    with open(os.path.join(repo, 'searchkit/searchdef.py'),
              encoding='utf-8') as fh:
        sdt = ast.parse(fh.read())
    with open(os.path.join(repo, 'searchkit/result.py'),
              encoding='utf-8') as fh:
        rst = ast.parse(fh.read())

    def method(name):
        def go():
            f = find_def(sdt, 'SequenceSearchDef.' + name)
            need(len(f.args.args) == 1 and not f.args.vararg
                 and not f.args.kwarg, f"{name}() takes arguments", f)
            prog = [dstm_of(n, name, find_def(sdt, 'SequenceSearchDef'))
                    for n in real_body(f)]
            return (f"Definition x_seqdef_{name} : list dstm :=\n  ["
                    + "; ".join(prog) + "].", {'program': prog})
        return go
    # SequenceSearchDef.start, SequenceSearchDef.reset, SequenceSearchDef.stop
    for m in ('start', 'reset', 'stop'):
        out.item('x_seqdef_' + m, method(m))

    def started():
        f = find_def(sdt, 'SequenceSearchDef.started')
        r = real_body(f)
        need(len(r) == 1 and isinstance(r[0], ast.Return), "started: body", f)
        t = r[0].value
        need(isinstance(t, ast.Compare) and len(t.ops) == 1 and
             isinstance(t.ops[0], ast.Eq) and U(t.left) == 'self._mark' and
             isinstance(t.comparators[0], ast.Constant) and
             isinstance(t.comparators[0].value, int) and
             not isinstance(t.comparators[0].value, bool),
             f"started is not `self._mark == <int>`: {U(t)}", t)
        return (f"Definition x_seqdef_started_mark : Z := "
                f"({t.comparators[0].value})%Z.", {'test': U(t)})
    out.item('x_seqdef_started_mark', started)

    def current():
        f = find_def(sdt, 'SequenceSearchDef.current_section_id')
        r = real_body(f)
        need(len(r) == 1 and U(r[0]) == 'return self._section_id',
             "current_section_id does not return self._section_id", f)
        return ("Definition x_seqdef_current_is_section_id : bool := true.",
                {})
    out.item('x_seqdef_current_is_section_id', current)

    def init():
        f = find_def(sdt, 'SequenceSearchDef.__init__')
        body = real_body(f)
        marks = [n for n in body if isinstance(n, ast.Assign)
                 and U(n.targets[0]) == 'self._mark']
        ids = [n for n in body if isinstance(n, ast.Assign)
               and U(n.targets[0]) == 'self._section_id']
        need(len(marks) == 1 and len(ids) == 1,
             "__init__: one assignment each to _mark and _section_id", f)
        need(U(ids[0].value) == 'None', "__init__: _section_id = None",
             ids[0])
        mark = dstm_of(marks[0], '__init__')
        # which part is linked with which tag
        loops = [n for n in body if isinstance(n, ast.For)]
        need(len(loops) == 1, "__init__: one linking loop", f)
        lp = loops[0]
        need(isinstance(lp.iter, ast.Call) and
             isinstance(lp.iter.func, ast.Attribute) and
             lp.iter.func.attr == 'items' and
             isinstance(lp.iter.func.value, ast.Dict),
             "__init__: the linking loop is not over a dict literal", lp)
        d = lp.iter.func.value
        pairs = sorted((U(k), U(v)) for k, v in zip(d.keys, d.values))
        need(isinstance(lp.target, ast.Tuple) and len(lp.target.elts) == 2,
             "__init__: linking loop target", lp)
        part, tag = [U(x) for x in lp.target.elts]
        lb = real_body(lp)
        need(len(lb) == 1 and isinstance(lb[0], ast.If) and
             U(lb[0].test) == part and not lb[0].orelse and
             len(real_body(lb[0])) == 1 and
             U(real_body(lb[0])[0]) ==
             f"{part}.link_to_sequence(self, {tag})",
             "__init__: every present part is linked with its tag", lp)
        fields = {}
        for n in body:
            if isinstance(n, ast.Assign) and isinstance(n.value, ast.Name) \
                    and U(n.targets[0]).startswith('self.s_'):
                fields[U(n.targets[0])] = n.value.id
        need(fields == {'self.s_start': 'start', 'self.s_end': 'end',
                        'self.s_body': 'body'},
             f"__init__: s_start/s_end/s_body come from start/end/body: "
             f"{fields}", f)
        txt = "[" + "; ".join(f"({coq_string(a)}, {coq_string(b)})"
                              for a, b in pairs) + "]"
        return (f"Definition x_seqdef_init : list dstm := [{mark}].\n"
                f"Definition x_seqdef_links : list (string * string) := "
                f"{txt}.", {'links': pairs})
    out.item('x_seqdef_init', init)

    def tags():
        res = []
        for name in ('start_tag', 'end_tag', 'body_tag'):
            f = find_def(sdt, 'SequenceSearchDef.' + name)
            r = real_body(f)
            need(len(r) == 1 and isinstance(r[0], ast.Return) and
                 isinstance(r[0].value, ast.JoinedStr), f"{name}: f-string",
                 f)
            vals = r[0].value.values
            need(len(vals) == 2 and isinstance(vals[0], ast.FormattedValue)
                 and U(vals[0].value) == 'self.tag' and
                 isinstance(vals[1], ast.Constant),
                 f"{name} is not f\"{{self.tag}}<suffix>\"", f)
            res.append((name, vals[1].value))
        txt = "[" + "; ".join(f"({coq_string('self.' + a)}, {coq_string(b)})"
                              for a, b in sorted(res)) + "]"
        return (f"Definition x_seqdef_tag_suffix : list (string * string) := "
                f"{txt}.", {'suffixes': res})
    out.item('x_seqdef_tag_suffix', tags)

    def res_add():
        f = find_def(rst, 'SequenceSearchResults.add')
        need([a.arg for a in f.args.args][0] == 'self' and
             len(f.args.args) == 2, "add(self, result)", f)
        r = f.args.args[1].arg
        body = real_body(f)
        gallina = ("Definition x_seqres_add {A} (present : bool) "
                   "(old : list A) (x : A) : list A :=\n"
                   "  if present then old ++ [x] else [x].")
        # `d.setdefault(k, []).append(x)`: append to the key's list, the list
        # being [] for a new key - the same function
        if len(body) == 1 and isinstance(body[0], ast.Expr) and \
                U(body[0].value) in (
                    f"self.data.setdefault({r}.sequence_id, []).append({r})",
                    f"self.data.setdefault({r}.sequence_id, list())"
                    f".append({r})"):
            return gallina, {'form': 'setdefault'}
        need(len(body) == 2, "add: two statements", f)
        need(isinstance(body[0], ast.Assign) and
             U(body[0].value) == f"{r}.sequence_id" and
             isinstance(body[0].targets[0], ast.Name),
             "add: the key is the result's sequence id", body[0])
        k = body[0].targets[0].id
        n = body[1]
        need(isinstance(n, ast.If), "add: an if on the key's presence", n)
        then = real_body(n)
        oe = [x for x in n.orelse if not isinstance(x, ast.Pass)]
        # `if k in d: A else: B`  =  `if k not in d: B else: A`
        if U(n.test) in (f"{k} not in self.data",
                         f"not {k} in self.data"):
            then, oe = oe, then
        else:
            need(U(n.test) == f"{k} in self.data",
                 "add: test is `key in self.data` or its negation", n)
        need(len(then) == 1 and
             U(then[0]) == f"self.data[{k}].append({r})",
             "add: present -> append", n)
        need(len(oe) == 1 and U(oe[0]) == f"self.data[{k}] = [{r}]",
             "add: absent -> new singleton list", n)
        return ("Definition x_seqres_add {A} (present : bool) (old : list A) "
                "(x : A) : list A :=\n  if present then old ++ [x] else [x].",
                {})
    out.item('x_seqres_add', res_add)

    def res_remove():
        f = find_def(rst, 'SequenceSearchResults.remove')
        need(len(f.args.args) == 3, "remove(self, sid, section_id)", f)
        k, sec = f.args.args[1].arg, f.args.args[2].arg
        body = real_body(f)
        need(len(body) == 1 and isinstance(body[0], ast.If) and
             U(body[0].test) == f"{k} in self.data" and
             not [x for x in body[0].orelse if not isinstance(x, ast.Pass)],
             "remove: only if the key is present", f)
        inner = real_body(body[0])
        need(len(inner) == 1 and isinstance(inner[0], ast.Assign) and
             U(inner[0].targets[0]) == f"self.data[{k}]" and
             isinstance(inner[0].value, ast.ListComp),
             "remove: the key's list is replaced by a comprehension", body[0])
        lc = inner[0].value
        need(len(lc.generators) == 1 and
             U(lc.generators[0].iter) == f"self.data[{k}]" and
             isinstance(lc.generators[0].target, ast.Name) and
             U(lc.elt) == lc.generators[0].target.id and
             len(lc.generators[0].ifs) == 1,
             "remove: a filter of the key's own list", lc)
        r = lc.generators[0].target.id
        c = lc.generators[0].ifs[0]
        neg = False
        if isinstance(c, ast.UnaryOp) and isinstance(c.op, ast.Not):
            neg, c = True, c.operand
        need(isinstance(c, ast.Compare) and len(c.ops) == 1 and
             {U(c.left), U(c.comparators[0])} == {f"{r}.section_id", sec},
             f"remove: the filter does not compare the result's section id "
             f"with the given one: {U(c)}", c)
        if isinstance(c.ops[0], ast.NotEq) and not neg:
            keep = "negb (Nat.eqb rsec sec)"
        elif isinstance(c.ops[0], ast.Eq) and neg:
            keep = "negb (Nat.eqb rsec sec)"
        else:
            raise Untranslatable("remove keeps the results OF the given "
                                 "section: " + U(lc.generators[0].ifs[0]))
        return ("Definition x_seqres_remove_keep (rsec sec : nat) : bool := "
                f"{keep}.\n"
                "Definition x_seqres_remove {A} (sec_of : A -> nat) "
                "(present : bool) (old : list A)\n  (sec : nat) : list A :=\n"
                "  if present then filter (fun r => x_seqres_remove_keep "
                "(sec_of r) sec) old else old.", {'filter': U(c)})
    out.item('x_seqres_remove', res_remove)

    def result_init():
        # SearchResult.__init__: a result of a sequence part is linked to its
        # sequence (sequence_id) whether or not its contents are stored
        f = find_def(rst, 'SearchResult.__init__')
        body = real_body(f)
        link = [i for i, n in enumerate(body) if isinstance(n, ast.If)
                and U(n.test) == 'search_def.sequence_def'
                and any(U(x) == 'self.sequence_id = search_def.sequence_def.id'
                        for x in n.body)]
        ret = [i for i, n in enumerate(body) if isinstance(n, ast.If)
               and any(isinstance(x, ast.Return) for x in ast.walk(n))]
        sec = [i for i, n in enumerate(body)
               if U(n) == 'self.section_id = sequence_section_id']
        need(len(link) == 1 and len(sec) == 1,
             "SearchResult.__init__: section_id / sequence_id assignments", f)
        need(all(link[0] < r and sec[0] < r for r in ret),
             "SearchResult.__init__ may return before the result is linked "
             "to its sequence / section", f)
        return ("Definition x_result_linked_before_any_return : bool := "
                "true.", {})
    out.item('x_result_linked_before_any_return', result_init)

    def eof_filter():
        # SearchTask._process_sequence_results: the dictionary of incomplete
        # sections is created once, before the loop over the definitions,
        # and only ever extended (never re-assigned as a whole), so what one
        # definition put there is still there for the export loop
        with open(os.path.join(repo, 'searchkit/task.py'),
                  encoding='utf-8') as fh:
            tt = ast.parse(fh.read())
        klass = find_def(tt, 'SearchTask')

        def created_once(f, name, may_delegate):
            whole = [n for n in ast.walk(f)
                     if isinstance(n, (ast.Assign, ast.AugAssign,
                                       ast.AnnAssign, ast.Delete,
                                       ast.NamedExpr))
                     and any(isinstance(t, ast.Name) and t.id == name
                             for t in (n.targets if isinstance(
                                 n, (ast.Assign, ast.Delete))
                                 else [n.target]))]
            need(len(whole) == 1, f"{f.name}: {name} is (re)assigned as a "
                 f"whole {len(whole)} times", f)
            body = real_body(f)
            loops = [i for i, n in enumerate(body)
                     if isinstance(n, (ast.For, ast.While))]
            need(whole[0] in body and
                 (not loops or min(loops) > body.index(whole[0])),
                 f"{f.name}: {name} is not created before the loops",
                 whole[0])
            v = whole[0].value
            if U(v) in ('{}', 'dict()'):
                need(bool(loops), f"{f.name}: no loop after {name} = {{}}", f)
                return
            # the first loop extracted into a private helper that returns
            # the dictionary it builds
            need(may_delegate and isinstance(v, ast.Call) and
                 isinstance(v.func, ast.Attribute) and
                 U(v.func.value) == 'self' and v.func.attr.startswith('_'),
                 f"{f.name}: {name} does not start empty: {U(v)}", whole[0])
            hs = [m for m in klass.body if isinstance(m, ast.FunctionDef)
                  and m.name == v.func.attr]
            need(len(hs) == 1, f"helper {v.func.attr} not found", whole[0])
            hb = real_body(hs[0])
            rets = [n for n in ast.walk(hs[0]) if isinstance(n, ast.Return)]
            need(len(rets) == 1 and hb[-1] is rets[0] and
                 isinstance(rets[0].value, ast.Name),
                 f"helper {v.func.attr} does not end in `return <dict>`",
                 hs[0])
            created_once(hs[0], rets[0].value.id, False)

        created_once(find_def(tt, 'SearchTask._process_sequence_results'),
                     'filter_section_id', True)
        return ("Definition x_eof_filter_created_once_before_loop : bool := "
                "true.", {})
    out.item('x_eof_filter_created_once_before_loop', eof_filter)

    text = ("(* GENERATED from the repository working tree by "
            "translator/plugins/sequence.py - do not edit *)\n"
            "From Coq Require Import String ZArith List Bool Arith.\n"
            "From SK Require Import Model.Sequence Model.SequenceSk.\n"
            "Import ListNotations.\nOpen Scope string_scope.\n"
            "Open Scope list_scope.\n\n"
            + "\n\n".join(out.defs) + "\n")
    return text, out.info, out.failed
